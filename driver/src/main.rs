// gw-mirfacts: rustc_private driver that dumps statement-level `mir_built`
// facts (JSON lines) for every body of the crate being compiled.
// Used as RUSTC_WORKSPACE_WRAPPER: argv = [self, rustc, args...].
#![feature(rustc_private)]

extern crate rustc_abi;
extern crate rustc_driver;
extern crate rustc_hir;
extern crate rustc_interface;
extern crate rustc_middle;
extern crate rustc_span;

use rustc_driver::{Callbacks, Compilation};
use rustc_hir::def::DefKind;
use rustc_hir::def_id::{DefId, LOCAL_CRATE};
use rustc_interface::interface::Compiler;
use rustc_middle::mir::{
	AggregateKind, AssertKind, BinOp, Body, BorrowKind, CastKind, Const, Operand, Place,
	ProjectionElem, Rvalue, StatementKind, TerminatorKind, UnOp, UnwindAction,
};
use rustc_middle::ty::print::{with_crate_prefix, with_no_trimmed_paths, with_no_visible_paths};
use rustc_middle::ty::{self, Ty, TyCtxt};
use rustc_span::Span;
use std::fmt::Write as _;

struct Cb {
	out_dir: String,
}

fn esc(s: &str) -> String {
	let mut o = String::with_capacity(s.len() + 2);
	o.push('"');
	for c in s.chars() {
		match c {
			'"' => o.push_str("\\\""),
			'\\' => o.push_str("\\\\"),
			'\n' => o.push_str("\\n"),
			'\r' => o.push_str("\\r"),
			'\t' => o.push_str("\\t"),
			c if (c as u32) < 0x20 => {
				let _ = write!(o, "\\u{:04x}", c as u32);
			}
			c => o.push(c),
		}
	}
	o.push('"');
	o
}

struct Cx<'tcx> {
	tcx: TyCtxt<'tcx>,
	krate: String,
}

impl<'tcx> Cx<'tcx> {
	fn fix(&self, s: String) -> String {
		// `crate::` -> `<crate name>::` so that paths agree across crates
		if s.contains("crate::") {
			let mut out = String::with_capacity(s.len() + 16);
			let b = s.as_bytes();
			let mut i = 0;
			while i < b.len() {
				if s[i..].starts_with("crate::")
					&& (i == 0 || !(b[i - 1].is_ascii_alphanumeric() || b[i - 1] == b'_'))
				{
					out.push_str(&self.krate);
					out.push_str("::");
					i += 7;
				} else {
					let ch = s[i..].chars().next().unwrap();
					out.push(ch);
					i += ch.len_utf8();
				}
			}
			out
		} else {
			s
		}
	}
	fn path(&self, did: DefId) -> String {
		let s = with_no_visible_paths!(with_crate_prefix!(with_no_trimmed_paths!(self
			.tcx
			.def_path_str(did))));
		let s = self.fix(s);
		// two named items of one scope (macro-generated, e.g. serde's `__DeserializeWith` per field) print
		// the same path: keep them apart by their disambiguators; methods of an impl for such a type take
		// the type's mark
		let mut dis = String::new();
		let tcx = self.tcx;
		let mark = |d: DefId, dis: &mut String| {
			for comp in tcx.def_path(d).data.iter() {
				if comp.disambiguator != 0 {
					// (the anonymous `const _` scopes of derives are told apart by the impl they hold)
					if let rustc_hir::definitions::DefPathData::TypeNs(n) | rustc_hir::definitions::DefPathData::ValueNs(n) = comp.data {
						if n.as_str() != "_" {
							dis.push_str(&format!("#{}", comp.disambiguator));
						}
					}
				}
			}
		};
		mark(did, &mut dis);
		let mut cur = did;
		while let Some(p) = tcx.opt_parent(cur) {
			if let DefKind::Impl { .. } = tcx.def_kind(p) {
				if let ty::Adt(adt, _) = tcx.type_of(p).instantiate_identity().skip_norm_wip().kind() {
					mark(adt.did(), &mut dis);
				}
			}
			cur = p;
		}
		if dis.is_empty() {
			s
		} else {
			format!("{}{}", s, dis)
		}
	}
	fn path_args(&self, did: DefId, args: ty::GenericArgsRef<'tcx>) -> String {
		let s = with_no_visible_paths!(with_crate_prefix!(with_no_trimmed_paths!(self
			.tcx
			.def_path_str_with_args(did, args))));
		self.fix(s)
	}
	fn ty(&self, t: Ty<'tcx>) -> String {
		let s = with_no_visible_paths!(with_crate_prefix!(with_no_trimmed_paths!(t.to_string())));
		self.fix(s)
	}
	fn adt_of(&self, t: Ty<'tcx>) -> Option<String> {
		let mut t = t;
		loop {
			match t.kind() {
				ty::Ref(_, inner, _) => t = *inner,
				ty::RawPtr(inner, _) => t = *inner,
				_ => break,
			}
		}
		match t.kind() {
			ty::Adt(def, _) => Some(self.path(def.did())),
			ty::Closure(did, _) | ty::Coroutine(did, _) => Some(self.path(*did)),
			_ => None,
		}
	}
	fn span(&self, sp: Span) -> String {
		let sm = self.tcx.sess.source_map();
		let sp2 = if sp.from_expansion() { sp.source_callsite() } else { sp };
		let lo = sm.lookup_char_pos(sp2.lo());
		let hi = sm.lookup_char_pos(sp2.hi());
		let f = match &lo.file.name {
			rustc_span::FileName::Real(r) => match r.local_path() {
				Some(p) => p.to_string_lossy().to_string(),
				None => format!("{:?}", r),
			},
			o => format!("{:?}", o),
		};
		format!("{}:{}:{}:{}:{}", f, lo.line, lo.col.0 + 1, hi.line, hi.col.0 + 1)
	}
	fn macros(&self, sp: Span) -> String {
		// json list of macro names, innermost first
		if !sp.from_expansion() {
			return "[]".to_string();
		}
		let mut v = vec![];
		for e in sp.macro_backtrace() {
			match e.kind {
				rustc_span::ExpnKind::Macro(_, name) => v.push(esc(name.as_str())),
				rustc_span::ExpnKind::Desugaring(d) => v.push(esc(&format!("desugar:{:?}", d))),
				rustc_span::ExpnKind::AstPass(p) => v.push(esc(&format!("astpass:{:?}", p))),
				_ => {}
			}
		}
		format!("[{}]", v.join(","))
	}

	fn place(&self, body: &Body<'tcx>, p: &Place<'tcx>) -> String {
		let mut s = format!("[{},[", p.local.as_u32());
		let mut cur = rustc_middle::mir::PlaceTy::from_ty(body.local_decls[p.local].ty);
		let mut first = true;
		for elem in p.projection.iter() {
			if !first {
				s.push(',');
			}
			first = false;
			match elem {
				ProjectionElem::Deref => s.push_str("\"*\""),
				ProjectionElem::Field(f, _) => {
					let mut name = format!("{}", f.as_u32());
					let mut adt = String::new();
					match cur.ty.kind() {
						ty::Adt(def, _) => {
							let vi = cur.variant_index.unwrap_or(rustc_abi::FIRST_VARIANT);
							if def.is_enum() || def.is_struct() || def.is_union() {
								if let Some(v) = def.variants().get(vi) {
									if let Some(fd) = v.fields.get(f) {
										name = fd.name.to_string();
									}
									if def.is_enum() {
										adt = format!("{}::{}", self.path(def.did()), v.name);
									} else {
										adt = self.path(def.did());
									}
								}
							}
						}
						ty::Closure(did, _) | ty::Coroutine(did, _) | ty::CoroutineClosure(did, _) => {
							adt = self.path(*did);
						}
						ty::Tuple(_) => adt = "()".to_string(),
						_ => {}
					}
					let _ = write!(s, "{{\"f\":{},\"n\":{},\"a\":{}}}", f.as_u32(), esc(&name), esc(&adt));
				}
				ProjectionElem::Index(l) => {
					let _ = write!(s, "{{\"ix\":{}}}", l.as_u32());
				}
				ProjectionElem::ConstantIndex { offset, min_length, from_end } => {
					let _ = write!(s, "{{\"ci\":{},\"min\":{},\"end\":{}}}", offset, min_length, from_end);
				}
				ProjectionElem::Subslice { from, to, from_end } => {
					let _ = write!(s, "{{\"sub\":[{},{}],\"end\":{}}}", from, to, from_end);
				}
				ProjectionElem::Downcast(name, vi) => {
					let n = name.map(|x| x.to_string()).unwrap_or_else(|| format!("{}", vi.as_u32()));
					let _ = write!(s, "{{\"dc\":{},\"vi\":{}}}", esc(&n), vi.as_u32());
				}
				ProjectionElem::OpaqueCast(_) => s.push_str("\"opaque\""),
				ProjectionElem::UnwrapUnsafeBinder(_) => s.push_str("\"unbinder\""),
			}
			cur = cur.projection_ty(self.tcx, elem);
		}
		s.push_str("]]");
		s
	}

	fn konst(&self, body_did: DefId, c: &Const<'tcx>) -> String {
		let t = c.ty();
		let mut s = format!("{{\"ty\":{}", esc(&self.ty(t)));
		match t.kind() {
			ty::FnDef(did, args) => {
				let _ = write!(s, ",\"fn\":{},\"fna\":{}", esc(&self.path(*did)), esc(&self.path_args(*did, args)));
				// resolved
				let env = ty::TypingEnv::post_analysis(self.tcx, body_did);
				if let Ok(Some(inst)) = ty::Instance::try_resolve(self.tcx, env, *did, args) {
					let _ = write!(s, ",\"fnr\":{}", esc(&self.path(inst.def_id())));
				}
			}
			ty::Bool | ty::Int(_) | ty::Uint(_) | ty::Char => {
				let env = ty::TypingEnv::post_analysis(self.tcx, body_did);
				if let Some(si) = c.try_eval_scalar_int(self.tcx, env) {
					let size = si.size();
					let v: i128 = match t.kind() {
						ty::Int(_) => si.to_int(size),
						_ => si.to_uint(size) as i128,
					};
					let _ = write!(s, ",\"v\":{}", esc(&v.to_string()));
				}
			}
			_ => {}
		}
		let txt = with_no_visible_paths!(with_crate_prefix!(with_no_trimmed_paths!(format!("{}", c))));
		let txt = self.fix(txt);
		let txt = if txt.len() > 300 { txt[..txt.char_indices().take(300).last().map(|x| x.0).unwrap_or(0)].to_string() } else { txt };
		let _ = write!(s, ",\"t\":{}}}", esc(&txt));
		s
	}

	fn operand(&self, body_did: DefId, body: &Body<'tcx>, o: &Operand<'tcx>) -> String {
		match o {
			Operand::Copy(p) => format!("{{\"c\":{}}}", self.place(body, p)),
			Operand::Move(p) => format!("{{\"m\":{}}}", self.place(body, p)),
			Operand::Constant(c) => format!("{{\"k\":{}}}", self.konst(body_did, &c.const_)),
			_ => "{\"rt\":1}".to_string(),
		}
	}

	fn rvalue(&self, body_did: DefId, body: &Body<'tcx>, r: &Rvalue<'tcx>) -> String {
		match r {
			Rvalue::Use(o, ..) => format!("{{\"k\":\"use\",\"o\":{}}}", self.operand(body_did, body, o)),
			Rvalue::Repeat(o, _) => format!("{{\"k\":\"repeat\",\"o\":{}}}", self.operand(body_did, body, o)),
			Rvalue::Ref(_, bk, p) => {
				let m = matches!(bk, BorrowKind::Mut { .. });
				let fake = matches!(bk, BorrowKind::Fake(_));
				format!("{{\"k\":\"ref\",\"mut\":{},\"fake\":{},\"p\":{}}}", m, fake, self.place(body, p))
			}
			Rvalue::ThreadLocalRef(d) => format!("{{\"k\":\"tls\",\"d\":{}}}", esc(&self.path(*d))),
			Rvalue::RawPtr(_, p) => format!("{{\"k\":\"rawptr\",\"p\":{}}}", self.place(body, p)),
			Rvalue::Cast(ck, o, t) => {
				let cks = match ck {
					CastKind::PointerCoercion(pc, _) => format!("Coerce:{:?}", pc),
					o => format!("{:?}", o),
				};
				format!(
					"{{\"k\":\"cast\",\"ck\":{},\"o\":{},\"ty\":{}}}",
					esc(&cks),
					self.operand(body_did, body, o),
					esc(&self.ty(*t))
				)
			}
			Rvalue::BinaryOp(op, b) => {
				let (l, r) = &**b;
				let lt = l.ty(&body.local_decls, self.tcx);
				format!(
					"{{\"k\":\"bin\",\"op\":{},\"l\":{},\"r\":{},\"lty\":{}}}",
					esc(&format!("{:?}", op)),
					self.operand(body_did, body, l),
					self.operand(body_did, body, r),
					esc(&self.ty(lt))
				)
			}
			Rvalue::UnaryOp(op, o) => {
				let ops = match op {
					UnOp::Not => "Not",
					UnOp::Neg => "Neg",
					UnOp::PtrMetadata => "PtrMetadata",
				};
				format!("{{\"k\":\"un\",\"op\":\"{}\",\"o\":{}}}", ops, self.operand(body_did, body, o))
			}
			Rvalue::Discriminant(p) => format!("{{\"k\":\"disc\",\"p\":{}}}", self.place(body, p)),
			Rvalue::Aggregate(ak, ops) => {
				let mut s = String::from("{\"k\":\"agg\"");
				let mut names: Vec<String> = vec![];
				match &**ak {
					AggregateKind::Array(_) => s.push_str(",\"ak\":\"array\""),
					AggregateKind::Tuple => s.push_str(",\"ak\":\"tuple\""),
					AggregateKind::Adt(did, vi, _, _, active) => {
						let def = self.tcx.adt_def(*did);
						let v = def.variant(*vi);
						let _ = write!(
							s,
							",\"ak\":\"adt\",\"adt\":{},\"var\":{},\"vi\":{}",
							esc(&self.path(*did)),
							esc(v.name.as_str()),
							vi.as_u32()
						);
						if let Some(a) = active {
							names.push(v.fields[*a].name.to_string());
						} else {
							for f in v.fields.iter() {
								names.push(f.name.to_string());
							}
						}
					}
					AggregateKind::Closure(did, _) => {
						let _ = write!(s, ",\"ak\":\"closure\",\"adt\":{}", esc(&self.path(*did)));
					}
					AggregateKind::Coroutine(did, _) => {
						let _ = write!(s, ",\"ak\":\"coroutine\",\"adt\":{}", esc(&self.path(*did)));
					}
					AggregateKind::CoroutineClosure(did, _) => {
						let _ = write!(s, ",\"ak\":\"coroutine_closure\",\"adt\":{}", esc(&self.path(*did)));
					}
					AggregateKind::RawPtr(..) => s.push_str(",\"ak\":\"rawptr\""),
				}
				s.push_str(",\"f\":[");
				for (i, o) in ops.iter().enumerate() {
					if i > 0 {
						s.push(',');
					}
					let n = names.get(i).cloned().unwrap_or_else(|| i.to_string());
					let _ = write!(s, "[{},{}]", esc(&n), self.operand(body_did, body, o));
				}
				s.push_str("]}");
				s
			}
			Rvalue::CopyForDeref(p) => format!("{{\"k\":\"use\",\"o\":{{\"c\":{}}}}}", self.place(body, p)),
			Rvalue::WrapUnsafeBinder(o, _) => format!("{{\"k\":\"use\",\"o\":{}}}", self.operand(body_did, body, o)),
		}
	}

	fn unwind(&self, u: &UnwindAction) -> String {
		match u {
			UnwindAction::Cleanup(bb) => format!("{}", bb.as_u32()),
			_ => "null".to_string(),
		}
	}

	fn body(&self, did: DefId, body: &Body<'tcx>, out: &mut String) {
		let tcx = self.tcx;
		let kind = tcx.def_kind(did);
		let _ = write!(out, "{{\"k\":\"fn\",\"id\":{},\"crate\":{},\"dk\":{}", esc(&self.path(did)), esc(&self.krate), esc(&format!("{:?}", kind)));
		let _ = write!(out, ",\"sp\":{},\"mac\":{}", esc(&self.span(body.span)), self.macros(body.span));
		let _ = write!(out, ",\"defsp\":{}", esc(&self.span(tcx.def_span(did))));
		// parent (for closures and nested items)
		if let Some(p) = tcx.opt_parent(did) {
			let _ = write!(out, ",\"parent\":{},\"pdk\":{}", esc(&self.path(p)), esc(&format!("{:?}", tcx.def_kind(p))));
		}
		if matches!(kind, DefKind::Fn | DefKind::AssocFn) {
			let vis = tcx.visibility(did);
			let _ = write!(out, ",\"pub\":{}", vis.is_public());
			let ca = tcx.codegen_fn_attrs(did);
			let _ = ca;
		}
		if matches!(kind, DefKind::AssocFn) {
			if let Some(imp) = tcx.impl_of_assoc(did) {
				let st = tcx.type_of(imp).instantiate_identity().skip_norm_wip();
				let _ = write!(out, ",\"self_ty\":{}", esc(&self.ty(st)));
				if let Some(a) = self.adt_of(st) {
					let _ = write!(out, ",\"self_adt\":{}", esc(&a));
				}
				if let Some(tr) = tcx.impl_opt_trait_ref(imp) {
					let tr = tr.instantiate_identity().skip_norm_wip();
					let _ = write!(out, ",\"impl_trait\":{}", esc(&self.path(tr.def_id)));
				}
				let ai = tcx.associated_item(did);
				if let Some(ti) = ai.trait_item_def_id() {
					let _ = write!(out, ",\"trait_item\":{}", esc(&self.path(ti)));
				}
			} else if let Some(tr) = tcx.trait_of_assoc(did) {
				let _ = write!(out, ",\"in_trait\":{}", esc(&self.path(tr)));
			}
		}
		let _ = write!(out, ",\"argc\":{}", body.arg_count);
		// locals
		out.push_str(",\"locals\":[");
		for (i, (_l, d)) in body.local_decls.iter_enumerated().enumerate() {
			if i > 0 {
				out.push(',');
			}
			let _ = write!(out, "{{\"ty\":{}", esc(&self.ty(d.ty)));
			if let Some(a) = self.adt_of(d.ty) {
				let _ = write!(out, ",\"adt\":{}", esc(&a));
			}
			if d.is_user_variable() {
				out.push_str(",\"u\":1");
			}
			out.push('}');
		}
		out.push_str("],\"vars\":[");
		let mut first = true;
		for v in body.var_debug_info.iter() {
			if let rustc_middle::mir::VarDebugInfoContents::Place(p) = &v.value {
				if !first {
					out.push(',');
				}
				first = false;
				let _ = write!(out, "[{},{},{}]", esc(v.name.as_str()), self.place(body, p), v.argument_index.map(|x| x as i32).unwrap_or(-1));
			}
		}
		out.push_str("],\"bbs\":[");
		for (bi, (_bb, data)) in body.basic_blocks.iter_enumerated().enumerate() {
			if bi > 0 {
				out.push(',');
			}
			out.push_str("{\"s\":[");
			let mut firsts = true;
			for st in data.statements.iter() {
				let txt = match &st.kind {
					StatementKind::Assign(b) => {
						let (p, r) = &**b;
						Some(format!(
							"{{\"k\":\"a\",\"d\":{},\"r\":{},\"sp\":{},\"x\":{}}}",
							self.place(body, p),
							self.rvalue(did, body, r),
							esc(&self.span(st.source_info.span)),
							st.source_info.span.from_expansion()
						))
					}
					StatementKind::SetDiscriminant { place, variant_index } => Some(format!(
						"{{\"k\":\"setdisc\",\"d\":{},\"vi\":{}}}",
						self.place(body, place),
						variant_index.as_u32()
					)),
					StatementKind::StorageDead(l) => Some(format!("{{\"k\":\"sd\",\"l\":{}}}", l.as_u32())),
					StatementKind::StorageLive(l) => Some(format!("{{\"k\":\"sl\",\"l\":{}}}", l.as_u32())),
					_ => None,
				};
				if let Some(t) = txt {
					if !firsts {
						out.push(',');
					}
					firsts = false;
					out.push_str(&t);
				}
			}
			out.push_str("],\"cleanup\":");
			out.push_str(if data.is_cleanup { "true" } else { "false" });
			out.push_str(",\"t\":");
			let term = data.terminator();
			let sp = term.source_info.span;
			match &term.kind {
				TerminatorKind::Goto { target } => {
					let _ = write!(out, "{{\"k\":\"goto\",\"t\":{}}}", target.as_u32());
				}
				TerminatorKind::SwitchInt { discr, targets } => {
					let dty = discr.ty(&body.local_decls, tcx);
					let _ = write!(out, "{{\"k\":\"sw\",\"o\":{},\"ty\":{},\"t\":[", self.operand(did, body, discr), esc(&self.ty(dty)));
					for (i, (v, bb)) in targets.iter().enumerate() {
						if i > 0 {
							out.push(',');
						}
						let _ = write!(out, "[{},{}]", esc(&v.to_string()), bb.as_u32());
					}
					let _ = write!(out, "],\"else\":{},\"sp\":{}}}", targets.otherwise().as_u32(), esc(&self.span(sp)));
				}
				TerminatorKind::UnwindResume => out.push_str("{\"k\":\"resume\"}"),
				TerminatorKind::UnwindTerminate(_) => out.push_str("{\"k\":\"terminate\"}"),
				TerminatorKind::Return => out.push_str("{\"k\":\"ret\"}"),
				TerminatorKind::Unreachable => out.push_str("{\"k\":\"unreachable\"}"),
				TerminatorKind::Drop { place, target, unwind, .. } => {
					let _ = write!(
						out,
						"{{\"k\":\"drop\",\"p\":{},\"t\":{},\"u\":{}}}",
						self.place(body, place),
						target.as_u32(),
						self.unwind(unwind)
					);
				}
				TerminatorKind::Call { func, args, destination, target, unwind, fn_span, .. } => {
					out.push_str("{\"k\":\"call\"");
					let fty = func.ty(&body.local_decls, tcx);
					match fty.kind() {
						ty::FnDef(cdid, cargs) => {
							let _ = write!(out, ",\"f\":{},\"fa\":{}", esc(&self.path(*cdid)), esc(&self.path_args(*cdid, cargs)));
							let env = ty::TypingEnv::post_analysis(tcx, did);
							match ty::Instance::try_resolve(tcx, env, *cdid, cargs) {
								Ok(Some(inst)) => {
									let rd = inst.def_id();
									let _ = write!(out, ",\"r\":{}", esc(&self.path(rd)));
									if let ty::InstanceKind::Virtual(..) = inst.def {
										out.push_str(",\"virt\":true");
									}
								}
								_ => {}
							}
							if let Some(tr) = tcx.trait_of_assoc(*cdid) {
								let _ = write!(out, ",\"tr\":{}", esc(&self.path(tr)));
								// self type of the trait call
								if let Some(st) = cargs.types().next() {
									let _ = write!(out, ",\"trself\":{}", esc(&self.ty(st)));
									if let Some(a) = self.adt_of(st) {
										let _ = write!(out, ",\"trself_adt\":{}", esc(&a));
									}
								}
							}
							// generic args mentioning ADTs: list of type strings
							out.push_str(",\"ga\":[");
							let mut f1 = true;
							for t in cargs.types() {
								if !f1 {
									out.push(',');
								}
								f1 = false;
								out.push_str(&esc(&self.ty(t)));
							}
							out.push(']');
							// ADTs mentioned anywhere in generic args (walk)
							out.push_str(",\"gadts\":[");
							let mut seen: Vec<String> = vec![];
							for ga in cargs.iter() {
								for inner in ga.walk() {
									if let Some(t) = inner.as_type() {
										if let ty::Adt(d, _) = t.kind() {
											let p = self.path(d.did());
											if !seen.contains(&p) {
												seen.push(p);
											}
										}
									}
								}
							}
							for (i, p) in seen.iter().enumerate() {
								if i > 0 {
									out.push(',');
								}
								out.push_str(&esc(p));
							}
							out.push(']');
						}
						_ => {
							let _ = write!(out, ",\"fo\":{},\"fty\":{}", self.operand(did, body, func), esc(&self.ty(fty)));
						}
					}
					out.push_str(",\"a\":[");
					for (i, a) in args.iter().enumerate() {
						if i > 0 {
							out.push(',');
						}
						out.push_str(&self.operand(did, body, &a.node));
					}
					let dty = destination.ty(&body.local_decls, tcx).ty;
					let _ = write!(
						out,
						"],\"d\":{},\"dty\":{},\"t\":{},\"u\":{},\"sp\":{},\"fsp\":{},\"x\":{},\"mac\":{}}}",
						self.place(body, destination),
						esc(&self.ty(dty)),
						target.map(|t| t.as_u32().to_string()).unwrap_or_else(|| "null".to_string()),
						self.unwind(unwind),
						esc(&self.span(sp)),
						esc(&self.span(*fn_span)),
						sp.from_expansion(),
						self.macros(sp)
					);
				}
				TerminatorKind::TailCall { .. } => out.push_str("{\"k\":\"tailcall\"}"),
				TerminatorKind::Assert { cond, expected, msg, target, unwind } => {
					let (ak, ops): (String, Vec<&Operand<'tcx>>) = match &**msg {
						AssertKind::BoundsCheck { len, index } => ("BoundsCheck".to_string(), vec![len, index]),
						AssertKind::Overflow(op, a, b) => (format!("Overflow:{}", binop_name(*op)), vec![a, b]),
						AssertKind::OverflowNeg(a) => ("OverflowNeg".to_string(), vec![a]),
						AssertKind::DivisionByZero(a) => ("DivisionByZero".to_string(), vec![a]),
						AssertKind::RemainderByZero(a) => ("RemainderByZero".to_string(), vec![a]),
						o => (format!("Other:{:?}", o).chars().take(40).collect(), vec![]),
					};
					let _ = write!(out, "{{\"k\":\"assert\",\"ak\":{},\"c\":{},\"exp\":{},\"ops\":[", esc(&ak), self.operand(did, body, cond), expected);
					for (i, o) in ops.iter().enumerate() {
						if i > 0 {
							out.push(',');
						}
						out.push_str(&self.operand(did, body, o));
					}
					let _ = write!(
						out,
						"],\"t\":{},\"u\":{},\"sp\":{},\"x\":{},\"mac\":{}}}",
						target.as_u32(),
						self.unwind(unwind),
						esc(&self.span(sp)),
						sp.from_expansion(),
						self.macros(sp)
					);
				}
				TerminatorKind::Yield { value, resume, drop, .. } => {
					let _ = write!(
						out,
						"{{\"k\":\"yield\",\"v\":{},\"t\":{},\"drop\":{}}}",
						self.operand(did, body, value),
						resume.as_u32(),
						drop.map(|d| d.as_u32().to_string()).unwrap_or_else(|| "null".to_string())
					);
				}
				TerminatorKind::CoroutineDrop => out.push_str("{\"k\":\"codrop\"}"),
				TerminatorKind::FalseEdge { real_target, imaginary_target } => {
					let _ = write!(out, "{{\"k\":\"goto\",\"t\":{},\"imag\":{}}}", real_target.as_u32(), imaginary_target.as_u32());
				}
				TerminatorKind::FalseUnwind { real_target, .. } => {
					let _ = write!(out, "{{\"k\":\"goto\",\"t\":{},\"fu\":1}}", real_target.as_u32());
				}
				TerminatorKind::InlineAsm { .. } => out.push_str("{\"k\":\"asm\"}"),
			}
			out.push('}');
		}
		out.push_str("]}\n");
	}
}

fn binop_name(op: BinOp) -> String {
	format!("{:?}", op)
}

impl Callbacks for Cb {
	fn after_expansion<'tcx>(&mut self, _c: &Compiler, tcx: TyCtxt<'tcx>) -> Compilation {
		let krate = tcx.crate_name(LOCAL_CRATE).to_string();
		let cx = Cx { tcx, krate: krate.clone() };
		let mut out = String::with_capacity(1 << 24);
		let is_test = tcx.sess.opts.test;
		let ctypes: Vec<String> = tcx.crate_types().iter().map(|c| format!("{:?}", c)).collect();
		let _ = write!(
			out,
			"{{\"k\":\"crate\",\"name\":{},\"test\":{},\"types\":{},\"id\":{}}}\n",
			esc(&krate),
			is_test,
			esc(&ctypes.join(",")),
			esc(&format!("{:x}", tcx.stable_crate_id(LOCAL_CRATE).as_u64()))
		);
		// ADTs
		for ldid in tcx.hir_crate_items(()).definitions() {
			let did = ldid.to_def_id();
			let dk = tcx.def_kind(did);
			match dk {
				DefKind::Struct | DefKind::Enum | DefKind::Union => {
					let def = tcx.adt_def(did);
					let _ = write!(
						out,
						"{{\"k\":\"adt\",\"id\":{},\"crate\":{},\"dk\":{},\"sp\":{},\"attrs\":{},\"variants\":[",
						esc(&cx.path(did)),
						esc(&krate),
						esc(&format!("{:?}", dk)),
						esc(&cx.span(tcx.def_span(did))),
						esc(&attrs_text(tcx, did))
					);
					for (vi, v) in def.variants().iter_enumerated() {
						if vi.as_u32() > 0 {
							out.push(',');
						}
						let discr = if def.is_enum() {
							def.discriminant_for_variant(tcx, vi).val.to_string()
						} else {
							"0".to_string()
						};
						let _ = write!(
							out,
							"{{\"name\":{},\"discr\":{},\"attrs\":{},\"fields\":[",
							esc(v.name.as_str()),
							esc(&discr),
							esc(&attrs_text(tcx, v.def_id))
						);
						for (fi, f) in v.fields.iter().enumerate() {
							if fi > 0 {
								out.push(',');
							}
							let fty = tcx.type_of(f.did).instantiate_identity().skip_norm_wip();
							let _ = write!(
								out,
								"{{\"name\":{},\"ty\":{},\"pub\":{},\"attrs\":{},\"sp\":{}",
								esc(f.name.as_str()),
								esc(&cx.ty(fty)),
								f.vis.is_public(),
								esc(&attrs_text(tcx, f.did)),
								esc(&cx.span(tcx.def_span(f.did)))
							);
							// ADTs mentioned in the field type
							out.push_str(",\"adts\":[");
							let mut seen: Vec<String> = vec![];
							for inner in fty.walk() {
								if let Some(t) = inner.as_type() {
									if let ty::Adt(d, _) = t.kind() {
										let p = cx.path(d.did());
										if !seen.contains(&p) {
											seen.push(p);
										}
									}
								}
							}
							for (i, p) in seen.iter().enumerate() {
								if i > 0 {
									out.push(',');
								}
								out.push_str(&esc(p));
							}
							out.push_str("]}");
						}
						out.push_str("]}");
					}
					out.push_str("]}\n");
				}
				DefKind::Trait => {
					let _ = write!(out, "{{\"k\":\"trait\",\"id\":{},\"crate\":{},\"items\":[", esc(&cx.path(did)), esc(&krate));
					let mut first = true;
					for it in tcx.associated_items(did).in_definition_order() {
						if it.is_fn() {
							if !first {
								out.push(',');
							}
							first = false;
							let _ = write!(
								out,
								"{{\"name\":{},\"id\":{},\"default\":{}}}",
								esc(it.name().as_str()),
								esc(&cx.path(it.def_id)),
								it.defaultness(tcx).has_value()
							);
						}
					}
					out.push_str("]}\n");
				}
				DefKind::Impl { of_trait } => {
					let st = tcx.type_of(did).instantiate_identity().skip_norm_wip();
					let _ = write!(
						out,
						"{{\"k\":\"impl\",\"id\":{},\"crate\":{},\"self_ty\":{},\"sp\":{}",
						esc(&cx.path(did)),
						esc(&krate),
						esc(&cx.ty(st)),
						esc(&cx.span(tcx.def_span(did)))
					);
					if let Some(a) = cx.adt_of(st) {
						let _ = write!(out, ",\"self_adt\":{}", esc(&a));
					}
					if of_trait {
						let tr = tcx.impl_trait_ref(did).instantiate_identity().skip_norm_wip();
						let _ = write!(out, ",\"trait\":{},\"trait_ref\":{}", esc(&cx.path(tr.def_id)), esc(&cx.fix(with_no_visible_paths!(with_crate_prefix!(with_no_trimmed_paths!(tr.to_string()))))));
					}
					out.push_str(",\"methods\":[");
					let mut first = true;
					for it in tcx.associated_items(did).in_definition_order() {
						if it.is_fn() {
							if !first {
								out.push(',');
							}
							first = false;
							let _ = write!(out, "{{\"name\":{},\"id\":{}", esc(it.name().as_str()), esc(&cx.path(it.def_id)));
							if let Some(ti) = it.trait_item_def_id() {
								let _ = write!(out, ",\"trait_item\":{}", esc(&cx.path(ti)));
							}
							out.push('}');
						}
					}
					out.push_str("]}\n");
				}
				_ => {}
			}
		}
		// bodies
		let keys = tcx.mir_keys(());
		let mut n = 0;
		// phase 1: clone every built body before anything can steal it
		// (const evaluation of a local const steals that const's mir_built)
		let mut bodies: Vec<(DefId, Body<'tcx>)> = vec![];
		for ldid in keys.iter() {
			let did = ldid.to_def_id();
			if matches!(tcx.def_kind(did), DefKind::Ctor(..)) {
				continue;
			}
			let steal = tcx.mir_built(*ldid);
			let body = steal.borrow().clone();
			bodies.push((did, body));
		}
		for (did, body) in bodies.iter() {
			cx.body(*did, body, &mut out);
			n += 1;
		}
		let name = format!(
			"{}/{}-{:x}{}.jsonl",
			self.out_dir,
			krate,
			tcx.stable_crate_id(LOCAL_CRATE).as_u64(),
			if is_test { "-test" } else { "" }
		);
		let tmp = format!("{}.tmp{}", name, std::process::id());
		std::fs::write(&tmp, out.as_bytes()).expect("write facts");
		std::fs::rename(&tmp, &name).expect("rename facts");
		eprintln!("gw-mirfacts: {} bodies -> {}", n, name);
		Compilation::Continue
	}
}

fn attrs_text<'tcx>(tcx: TyCtxt<'tcx>, did: DefId) -> String {
	// source text of the attributes attached to the item (serde helper
	// attributes survive expansion as unparsed attributes)
	let mut v: Vec<String> = vec![];
	if let Some(l) = did.as_local() {
		let hid = tcx.local_def_id_to_hir_id(l);
		let sm = tcx.sess.source_map();
		for a in tcx.hir_attrs(hid) {
			if let rustc_hir::Attribute::Unparsed(u) = a {
				if let Ok(s) = sm.span_to_snippet(u.span) {
					v.push(s);
				}
			}
		}
	}
	v.join("\n")
}

fn main() {
	let mut args: Vec<String> = std::env::args().collect();
	// wrapper mode: argv[1] is the path of the real rustc
	if args.len() > 1 && (args[1].ends_with("rustc") || args[1].contains("/rustc")) {
		args.remove(1);
	}
	let out_dir = std::env::var("GW_FACTS_DIR").unwrap_or_else(|_| "/tmp/gw-facts".to_string());
	let crate_name = args
		.iter()
		.position(|a| a == "--crate-name")
		.and_then(|i| args.get(i + 1))
		.cloned()
		.unwrap_or_default();
	let only = std::env::var("GW_FACTS_CRATES").unwrap_or_default();
	let wanted = !crate_name.is_empty()
		&& !crate_name.starts_with("build_script")
		&& (only.is_empty() || only.split(',').any(|c| c == crate_name))
		&& !args.iter().any(|a| a.starts_with("--print"));
	if wanted {
		let _ = std::fs::create_dir_all(&out_dir);
		let mut cb = Cb { out_dir };
		rustc_driver::run_compiler(&args, &mut cb);
	} else {
		struct Nop;
		impl Callbacks for Nop {}
		rustc_driver::run_compiler(&args, &mut Nop);
	}
}
