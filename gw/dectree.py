"""A7 - path enumeration with enum/bool literals ("effect-by-variant").

A small path-sensitive abstract interpreter: enumerates acyclic CFG paths of a
region, tracking for enum-typed and bool places the set of values they may
have (from discriminant switches, derived PartialEq::eq/ne against a constant
variant, constant assignments) and pruning contradictory branches. Integer
comparisons and calls are opaque atoms (both outcomes explored, but the same
atom keeps its value along a path)."""
from . import pp
from .valueflow import op_place

OPTION = {"0": "None", "1": "Some"}
RESULT = {"0": "Ok", "1": "Err"}
CF = {"0": "Continue", "1": "Break"}

EQ_FNS = ("core::cmp::PartialEq::eq",)
NE_FNS = ("core::cmp::PartialEq::ne",)


class TooManyPaths(Exception):
    pass


class Path:
    __slots__ = ("events", "end", "state", "blocks")

    def __init__(self, events, end, state, blocks):
        self.events = events
        self.end = end
        self.state = state
        self.blocks = blocks

    def calls(self, pred=None):
        return [e for e in self.events if e[0] == "call" and (pred is None or pred(e[1]))]

    def sets(self, key=None):
        return [e for e in self.events if e[0] == "set" and (key is None or e[1] == key)]


class PathEnum:
    def __init__(self, fn, db, follow_unknown_calls=True):
        self.fn = fn
        self.db = db
        self.single = {}
        for l, ds in fn.defs().items():
            if len(ds) == 1:
                self.single[l] = ds[0]
        # variant names seen in downcast projections, per place key
        self.dc_names = {}
        def note(p):
            for i, e in enumerate(p[1]):
                if isinstance(e, dict) and "dc" in e:
                    k = self.key([p[0], p[1][:i]])
                    self.dc_names.setdefault(k, {})[str(e["vi"])] = e["dc"]
        for bb in fn.bbs:
            for s in bb["s"]:
                if s["k"] != "a":
                    continue
                note(s["d"])
                r = s["r"]
                if "p" in r:
                    note(r["p"])
                for key in ("o", "l", "r"):
                    if isinstance(r.get(key), dict) and op_place(r[key]):
                        note(op_place(r[key]))

    # -- places ---------------------------------------------------------
    def key(self, place):
        s = "_%d" % place[0]
        for e in place[1]:
            if e == "*":
                continue
            if isinstance(e, dict):
                if "f" in e:
                    s += "." + e["n"]
                elif "dc" in e:
                    s += "@" + e["dc"]
                elif "ix" in e:
                    s += "[]"
                else:
                    s += "[?]"
        return s

    def resolve_place(self, o, depth=0):
        """Operand (possibly a reference temp) -> the place it denotes."""
        p = op_place(o) if isinstance(o, dict) else o
        if p is None:
            return None
        if all(e == "*" for e in p[1]) and depth < 10:
            d = self.single.get(p[0])
            if d and d[0] == "a" and not d[3]["d"][1]:
                r = d[3]["r"]
                if r["k"] == "ref":
                    return self.resolve_place(r["p"], depth + 1) or r["p"]
                if r["k"] == "use":
                    q = op_place(r["o"])
                    if q is not None:
                        return self.resolve_place(q, depth + 1) or q
        return p

    def const_variant(self, o, depth=0):
        """Operand -> variant name if it denotes a constant field-less enum value."""
        k = o.get("k") if isinstance(o, dict) else None
        if k is not None:
            return None
        p = op_place(o) if isinstance(o, dict) else o
        if p is None or depth > 10:
            return None
        if not all(e == "*" for e in p[1]):
            return None
        d = self.single.get(p[0])
        if not d or d[0] != "a" or d[3]["d"][1]:
            return None
        r = d[3]["r"]
        if r["k"] == "agg" and r.get("ak") == "adt" and not r["f"]:
            return r["var"]
        if r["k"] == "ref":
            return self.const_variant(r["p"], depth + 1)
        if r["k"] == "use":
            return self.const_variant(r["o"], depth + 1)
        return None

    def const_variant_array(self, o, depth=0):
        """Operand -> set of variant names if it denotes (a reference/slice of) a
        constant array of field-less enum values."""
        p = op_place(o) if isinstance(o, dict) else o
        if p is None or depth > 10 or not all(e == "*" for e in p[1]):
            return None
        d = self.single.get(p[0])
        if not d or d[0] != "a" or d[3]["d"][1]:
            return None
        r = d[3]["r"]
        if r["k"] == "agg" and r.get("ak") == "array":
            vs = set()
            for _n, oo in r["f"]:
                v = self.const_variant(oo)
                if v is None:
                    return None
                vs.add(v)
            return vs
        if r["k"] == "ref":
            return self.const_variant_array(r["p"], depth + 1)
        if r["k"] in ("use", "cast"):
            return self.const_variant_array(r["o"], depth + 1)
        return None

    def place_adt(self, place):
        """ADT def path of the type of a place (best effort)."""
        fn = self.fn
        adt = fn.locals[place[0]].get("adt")
        ty = fn.locals[place[0]]["ty"]
        for e in place[1]:
            if isinstance(e, dict) and "f" in e:
                owner = e.get("a", "")
                a = self.db.adts.get(owner) or self.db.adts.get(owner.rsplit("::", 1)[0])
                adt = None
                ty = None
                if a:
                    for v in a["variants"]:
                        for f in v["fields"]:
                            if f["name"] == e["n"]:
                                ty = f["ty"]
                                adt = f["adts"][0] if f["adts"] else None
            elif isinstance(e, dict) and "dc" in e:
                pass
        return adt, ty

    def variants_of(self, place):
        adt, ty = self.place_adt(place)
        if ty:
            t = ty.lstrip("&")
            if t.startswith("core::option::Option<"):
                return OPTION
            if t.startswith("core::result::Result<"):
                return RESULT
            if t.startswith("core::ops::control_flow::ControlFlow<"):
                return CF
        a = self.db.adts.get(adt) if adt else None
        if a and a["dk"] == "Enum":
            return {v["discr"]: v["name"] for v in a["variants"]}
        if adt and adt not in self.db.adts:
            ev = self.db.ext_variants(adt)
            if ev:
                return ev
        return None

    # -- conditions -----------------------------------------------------
    def cond(self, l, neg=False, depth=0):
        """Describe the boolean/discriminant local l.
        ('enum', key, {value: name})            discriminant switch
        ('lit', key, variant, neg)               place == variant
        ('bool', key, neg)                       bool place / atom
        ('log',)                                 log-level test
        """
        d = self.single.get(l)
        if d is None or depth > 8:
            return ("bool", "_%d" % l, neg)
        if d[0] == "a":
            r = d[3]["r"]
            if d[3]["d"][1]:
                return ("bool", "_%d" % l, neg)
            if r["k"] == "disc":
                p = self.resolve_place(r["p"]) or r["p"]
                names = self.variants_of(p)
                if not names:
                    seen = self.dc_names.get(self.key(p)) or self.dc_names.get(self.key(r["p"])) or {}
                    if seen and set(seen.values()) <= {"Some", "None"}:
                        names = OPTION
                    elif seen and set(seen.values()) <= {"Ok", "Err"}:
                        names = RESULT
                    else:
                        names = seen
                return ("enum", self.key(p), names or {})
            if r["k"] == "un" and r["op"] == "Not":
                q = op_place(r["o"])
                if q is not None and not q[1]:
                    return self.cond(q[0], not neg, depth + 1)
            if r["k"] == "use":
                q = op_place(r["o"])
                if q is not None:
                    if not q[1]:
                        return self.cond(q[0], neg, depth + 1)
                    rp = self.resolve_place(q) or q
                    return ("bool", self.key(rp), neg)
                k = r["o"].get("k")
                if k is not None and k.get("v") in ("0", "1"):
                    return ("const", (k["v"] == "1") != neg)
            if r["k"] == "bin":
                return ("bool", "cmp@%s" % d[3]["sp"], neg)
            return ("bool", "_%d" % l, neg)
        if d[0] == "call":
            t = d[2]
            f = t.get("f") or ""
            if "log::Level as core::cmp::PartialOrd" in (t.get("fa") or ""):
                return ("log",)
            if f == "core::slice::<impl [T]>::contains" and len(t["a"]) == 2:
                vs = self.const_variant_array(t["a"][0])
                p = self.resolve_place(t["a"][1])
                if vs and p is not None:
                    return ("in", self.key(p), frozenset(vs), neg)
            if f in EQ_FNS or f in NE_FNS:
                a, b = t["a"][0], t["a"][1]
                va, vb = self.const_variant(a), self.const_variant(b)
                n = neg != (f in NE_FNS)
                if vb is not None and va is None:
                    p = self.resolve_place(a)
                    if p is not None:
                        return ("lit", self.key(p), vb, n)
                if va is not None and vb is None:
                    p = self.resolve_place(b)
                    if p is not None:
                        return ("lit", self.key(p), va, n)
            return ("bool", "call@%s:%s" % (pp.short(f).split("::")[-1], t["sp"]), neg)
        return ("bool", "_%d" % l, neg)

    # -- enumeration ----------------------------------------------------
    def paths(self, start=0, stops=(), init_state=None, max_paths=10000, stop_at_error=True, universe=None):
        """Enumerate acyclic paths from `start` until a block in `stops`, a
        return, or (optionally) an error-return assignment. `universe` maps
        enum keys to their full variant set (for != refinement)."""
        fn = self.fn
        out = []
        stops = set(stops)
        universe = dict(universe or {})
        from . import cfg as _cfg

        errblocks = _cfg.error_return_blocks(fn) if stop_at_error else set()

        def refine_enum(state, key, allowed, names):
            cur = state.get(key)
            if cur is None:
                full = universe.get(key) or (frozenset(names.values()) if names else None)
                cur = full
            if cur is None:
                return dict(state, **{key: frozenset(allowed)})
            new = frozenset(cur) & frozenset(allowed)
            if not new:
                return None
            return dict(state, **{key: new})

        def walk(b, state, events, visited, blocks):
            if len(out) > max_paths:
                raise TooManyPaths("%s: more than %d paths" % (fn.id, max_paths))
            if b in errblocks:
                out.append(Path(events + [("end", "err", b)], b, state, blocks + [b]))
                return
            if b in stops and blocks:
                out.append(Path(events + [("end", "stop", b)], b, state, blocks + [b]))
                return
            if b in visited:
                out.append(Path(events + [("end", "loop", b)], b, state, blocks + [b]))
                return
            visited = visited | {b}
            blocks = blocks + [b]
            bb = fn.bbs[b]
            events = list(events)
            state = dict(state)
            for s in bb["s"]:
                if s["k"] != "a":
                    continue
                d = s["d"]
                key = self.key(d)
                if not (d[1] or fn.locals[d[0]].get("u") or d[0] == 0 or d[0] <= fn.argc):
                    # compiler temporary: remember a constant bool (e.g. the result of `matches!`), no event
                    state.pop(key, None)
                    r = s["r"]
                    if fn.locals[d[0]]["ty"] == "bool" and r["k"] == "use" and r["o"].get("k") is not None:
                        kv = r["o"]["k"].get("v", r["o"]["k"].get("t"))
                        if kv in ("0", "1", 0, 1, True, False, "true", "false"):
                            state[key] = kv in ("1", 1, True, "true")
                else:
                    # user-visible place: record
                    v = None
                    r = s["r"]
                    if r["k"] == "use":
                        v = self.const_variant(r["o"])
                        if v is None and r["o"].get("k") is not None:
                            v = r["o"]["k"].get("v", r["o"]["k"].get("t"))
                    elif r["k"] == "agg" and r.get("ak") == "adt":
                        v = r["var"] if not r["f"] else "%s(..)" % r["var"]
                    elif r["k"] == "ref" and all(e == "*" for e in r["p"][1]):
                        dd = self.single.get(r["p"][0])
                        if dd and dd[0] == "a" and dd[3]["r"]["k"] == "use" and dd[3]["r"]["o"].get("k") is not None:
                            kk = dd[3]["r"]["o"]["k"]
                            v = kk.get("v", kk.get("t"))
                    # invalidate keys rooted at this place
                    for k2 in [k for k in state if k == key or k.startswith(key + ".") or k.startswith(key + "@")]:
                        del state[k2]
                    if v is not None:
                        if isinstance(v, str) and not v.endswith("(..)"):
                            state[key] = frozenset([v]) if not v.isdigit() else (v == "1")
                    events.append(("set", key, v, s["sp"]))
            t = bb["t"]
            k = t["k"]
            if k == "call":
                events.append(("call", t.get("f") or "<indirect>", b, t))
                # &mut args invalidate state rooted at their referent
                for a in t["a"]:
                    p = op_place(a)
                    if p is not None and fn.locals[p[0]]["ty"].startswith("&mut"):
                        rp = self.resolve_place(a)
                        if rp is not None:
                            kk = self.key(rp)
                            for k2 in [x for x in state if x == kk or x.startswith(kk + ".")]:
                                del state[k2]
                # moved whole locals keep their state (value moved, not changed)
                if t["t"] is None:
                    out.append(Path(events + [("end", "diverge", b)], b, state, blocks))
                    return
                walk(t["t"], state, events, visited, blocks)
            elif k == "ret":
                out.append(Path(events + [("end", "ret", b)], b, state, blocks))
            elif k in ("goto", "drop", "assert", "yield"):
                if k == "assert":
                    events.append(("assert", t["ak"], b, t))
                walk(t["t"], state, events, visited, blocks)
            elif k == "sw":
                l = None
                p = op_place(t["o"])
                if p is not None and not p[1]:
                    l = p[0]
                c = self.cond(l) if l is not None else ("bool", "?", False)
                if c[0] == "log":
                    tgt = [tb for v, tb in t["t"] if v == "0"]
                    walk(tgt[0] if tgt else t["else"], state, events, visited, blocks)
                elif c[0] == "const":
                    val = c[1]
                    tgt = None
                    for v, tb in t["t"]:
                        if (v != "0") == val:
                            tgt = tb
                    if tgt is None:
                        tgt = t["else"]
                    walk(tgt, state, events, visited, blocks)
                elif c[0] == "enum":
                    key, names = c[1], c[2]
                    listed = []
                    for v, tb in t["t"]:
                        nm = names.get(v, "#" + v)
                        listed.append(nm)
                        st = refine_enum(state, key, [nm], names)
                        if st is not None:
                            walk(tb, st, events + [("lit", key, nm, True)], visited, blocks)
                    if not _cfg._unreachable(fn, t["else"]):
                        rest = [n for n in (names.values() if names else []) if n not in listed]
                        if names:
                            st = refine_enum(state, key, rest, names)
                        else:
                            st = state
                        if st is not None:
                            walk(t["else"], st, events + [("lit", key, tuple(listed), False)], visited, blocks)
                elif c[0] == "in":
                    _, key, vs, neg = c
                    for v, tb in list(t["t"]) + [("else", t["else"])]:
                        if v == "else":
                            is_true = "0" in [x for x, _ in t["t"]]
                        else:
                            is_true = v != "0"
                        member = is_true != neg
                        cur = state.get(key) or universe.get(key)
                        if member:
                            new = frozenset(vs) if cur is None else frozenset(cur) & frozenset(vs)
                        else:
                            new = None if cur is None else frozenset(cur) - frozenset(vs)
                        if new is not None and not new:
                            continue
                        st = dict(state)
                        if new is not None:
                            st[key] = new
                        else:
                            st[key + "!="] = frozenset(state.get(key + "!=", frozenset())) | frozenset(vs)
                        walk(tb, st, events + [("lit", key, tuple(sorted(vs)), member)], visited, blocks)
                elif c[0] == "lit":
                    _, key, var, neg = c
                    names = None
                    # bool switch: listed value "0" is false
                    for v, tb in list(t["t"]) + [("else", t["else"])]:
                        if v == "else":
                            is_true = "0" in [x for x, _ in t["t"]]
                        else:
                            is_true = v != "0"
                        eqv = is_true != neg
                        if eqv:
                            st = refine_enum(state, key, [var], None)
                        else:
                            cur = state.get(key) or universe.get(key)
                            if cur is not None:
                                new = frozenset(cur) - {var}
                                st = dict(state, **{key: new}) if new else None
                            else:
                                st = dict(state)
                                st[key + "!="] = frozenset(state.get(key + "!=", frozenset())) | {var}
                        if st is not None and eqv and (key + "!=") in st and var in st[key + "!="]:
                            st = None
                        if st is not None:
                            walk(tb, st, events + [("lit", key, var, eqv)], visited, blocks)
                elif t["ty"] != "bool":
                    for v, tb in list(t["t"]) + [("else", t["else"])]:
                        if v == "else" and _cfg._unreachable(fn, tb):
                            continue
                        walk(tb, state, events + [("int", c[1], v)], visited, blocks)
                else:
                    _, key, neg = c[0], c[1], c[2]
                    for v, tb in list(t["t"]) + [("else", t["else"])]:
                        if v == "else":
                            is_true = "0" in [x for x, _ in t["t"]]
                            if _cfg._unreachable(fn, tb):
                                continue
                        else:
                            is_true = v != "0"
                        val = is_true != neg
                        cur = state.get(key)
                        if isinstance(cur, bool) and cur != val:
                            continue
                        st = dict(state)
                        st[key] = val
                        walk(tb, st, events + [("atom", key, val)], visited, blocks)
            elif k == "unreachable":
                return
            else:
                out.append(Path(events + [("end", k, b)], b, state, blocks))

        walk(start, dict(init_state or {}), [], frozenset(), [])
        return out
