"""Pretty-printer for facts (development aid and for replay/explain output)."""


def short(p):
    """Shorten a def path for display."""
    return (
        p.replace("grin_wallet_libwallet::", "lw::")
        .replace("grin_wallet_impls::", "impls::")
        .replace("grin_wallet_controller::", "ctl::")
        .replace("grin_wallet_api::", "api::")
        .replace("grin_wallet_util::", "util::")
        .replace("grin_wallet_config::", "cfg::")
    )


def place(p):
    s = "_%d" % p[0]
    for e in p[1]:
        if e == "*":
            s = "(*%s)" % s
        elif isinstance(e, dict):
            if "f" in e:
                s = "%s.%s" % (s, e["n"])
            elif "dc" in e:
                s = "(%s as %s)" % (s, e["dc"])
            elif "ix" in e:
                s = "%s[_%d]" % (s, e["ix"])
            elif "ci" in e:
                s = "%s[%s%d]" % (s, "-" if e["end"] else "", e["ci"])
            elif "sub" in e:
                s = "%s[%d..%s%d]" % (s, e["sub"][0], "-" if e["end"] else "", e["sub"][1])
        else:
            s = "%s.%s" % (s, e)
    return s


def operand(o):
    if "c" in o:
        return place(o["c"])
    if "m" in o:
        return "move " + place(o["m"])
    if "k" in o:
        k = o["k"]
        if "fn" in k:
            return "fn:" + short(k["fn"])
        return "const " + k["t"][:60]
    return "?"


def rvalue(r):
    k = r["k"]
    if k == "use":
        return operand(r["o"])
    if k == "ref":
        return "&%s%s" % ("mut " if r["mut"] else "", place(r["p"]))
    if k == "bin":
        return "%s(%s, %s)" % (r["op"], operand(r["l"]), operand(r["r"]))
    if k == "un":
        return "%s(%s)" % (r["op"], operand(r["o"]))
    if k == "cast":
        return "%s as %s [%s]" % (operand(r["o"]), short(r["ty"]), r["ck"])
    if k == "disc":
        return "discriminant(%s)" % place(r["p"])
    if k == "agg":
        if r["ak"] == "adt":
            return "%s::%s{%s}" % (short(r["adt"]), r["var"], ", ".join("%s: %s" % (n, operand(o)) for n, o in r["f"]))
        if r["ak"] in ("closure", "coroutine", "coroutine_closure"):
            return "closure %s [%s]" % (short(r["adt"]), ", ".join(operand(o) for _n, o in r["f"]))
        return "%s(%s)" % (r["ak"], ", ".join(operand(o) for _n, o in r["f"]))
    if k == "repeat":
        return "[%s; n]" % operand(r["o"])
    return k


def term(t):
    k = t["k"]
    if k == "goto":
        return "goto -> bb%d" % t["t"]
    if k == "sw":
        return "switchInt(%s) -> [%s, otherwise: bb%d]" % (
            operand(t["o"]),
            ", ".join("%s: bb%d" % (v, b) for v, b in t["t"]),
            t["else"],
        )
    if k == "call":
        f = t.get("f")
        name = short(t.get("fa") or f) if f else "(%s)" % operand(t["fo"])
        r = t.get("r")
        rs = " {=> %s}" % short(r) if r and r != f else ""
        return "%s = %s(%s)%s -> %s [%s]" % (
            place(t["d"]),
            name,
            ", ".join(operand(a) for a in t["a"]),
            rs,
            "bb%d" % t["t"] if t["t"] is not None else "!",
            ":".join(t["sp"].split(":")[:2]),
        )
    if k == "assert":
        return "assert(%s == %s, %s(%s)) -> bb%d [%s]" % (
            operand(t["c"]),
            t["exp"],
            t["ak"],
            ", ".join(operand(o) for o in t["ops"]),
            t["t"],
            ":".join(t["sp"].split(":")[:2]),
        )
    if k == "drop":
        return "drop(%s) -> bb%d" % (place(t["p"]), t["t"])
    if k == "yield":
        return "yield(%s) -> bb%d" % (operand(t["v"]), t["t"])
    return k


def fn_text(fn, storage=False):
    out = []
    out.append("fn %s  [%s] argc=%d" % (fn.id, fn.sp, fn.argc))
    names = fn.var_names()
    for i, l in enumerate(fn.locals):
        out.append("  let _%d: %s%s" % (i, short(l["ty"]), "  // " + names[i] if i in names else ""))
    for name, pl, _ in fn.vars:
        if pl[1]:
            out.append("  debug %s => %s" % (name, place(pl)))
    for b, bb in enumerate(fn.bbs):
        out.append("bb%d%s:" % (b, " (cleanup)" if bb["cleanup"] else ""))
        for s in bb["s"]:
            if s["k"] == "a":
                out.append("    %s = %s" % (place(s["d"]), rvalue(s["r"])))
            elif s["k"] == "setdisc":
                out.append("    discriminant(%s) = %d" % (place(s["d"]), s["vi"]))
            elif storage:
                out.append("    %s(_%d)" % ("StorageDead" if s["k"] == "sd" else "StorageLive", s["l"]))
        out.append("    " + term(bb["t"]))
    return "\n".join(out)


if __name__ == "__main__":
    import sys
    from . import facts

    db = facts.load()
    pat = sys.argv[1]
    ms = [f for k, f in db.fns.items() if pat in k]
    if len(ms) > 1:
        exact = [f for f in ms if f.id.endswith(pat)]
        if exact:
            ms = exact
    for f in ms[:6]:
        print(fn_text(f, storage="--storage" in sys.argv))
        print()
    if len(ms) > 6:
        print("... %d more: " % (len(ms) - 6), [f.id for f in ms[6:40]])
