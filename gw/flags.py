"""A10 - backward flow of a boolean flag to its root sources across call
sites, closure/coroutine captures and struct fields."""
from . import cfg, pp
from . import valueflow as vf
from .callgraph import non_production


class FlagRoots:
    def __init__(self, ctx, include_non_production=False):
        self.ctx = ctx
        self.db = ctx.db
        self.memo = {}
        self.field_writers = None
        self.include_np = include_non_production

    def _index_fields(self):
        if self.field_writers is not None:
            return
        fw = {}
        for fid, f in self.db.fns.items():
            if non_production(fid) and not self.include_np:
                continue
            if f.impl_trait in ("core::clone::Clone", "serde::de::Visitor", "serde::de::Deserialize"):
                continue
            for b, bb in enumerate(f.bbs):
                if bb["cleanup"]:
                    continue
                for s in bb["s"]:
                    if s["k"] != "a":
                        continue
                    r = s["r"]
                    if r["k"] == "agg" and r.get("ak") == "adt":
                        for n, o in r["f"]:
                            fw.setdefault((r["adt"], n), []).append((f, b, o, s["sp"]))
                    d = s["d"]
                    if d[1]:
                        last = d[1][-1]
                        if isinstance(last, dict) and "f" in last and last.get("a"):
                            ops = []
                            if r["k"] in ("use", "cast", "un"):
                                ops.append(r["o"])
                            fw.setdefault((last["a"], last["n"]), []).append((f, b, ops[0] if ops else None, s["sp"]))
        self.field_writers = fw

    def roots_of_operand(self, fn, o, b=None, depth=0, seen=None):
        """Set of root descriptions: ('const', v, fn, site, cond) / ('call', name, fn, site) / ('unknown', ...)"""
        seen = seen if seen is not None else set()
        out = set()
        if o is None:
            return {("unknown", "complex-assignment", fn.id, "")}
        stop = lambda adt: adt in self.db.adts or adt in self.db.fns
        for x in vf.producers(fn, o, stop_at_fields=stop):
            out |= self._atom(fn, x, b, depth, seen)
        return out

    def _guarding_flags(self, fn, b):
        """Bool locals L (params / user variables) such that block b is reachable
        only through the true-edge of a switch on L."""
        res = []
        for l in range(1, len(fn.locals)):
            if fn.locals[l]["ty"] != "bool":
                continue
            if not (l <= fn.argc or fn.locals[l].get("u")):
                continue
            g = cfg.local_guard(fn, l)
            if g.ok and cfg.must_pass(fn, g.ok, {b})[0]:
                res.append(l)
        return res

    def _atom(self, fn, x, b, depth, seen):
        db = self.db
        key = (fn.id, x)
        if key in seen or depth > 25:
            return set()
        seen.add(key)
        kind = x[0]
        if kind == "const":
            cond = ()
            if str(x[1]) == "1" and b is not None:
                cond = tuple(self._guarding_flags(fn, b))
                if cond:
                    # acceptable iff every guarding flag has only false roots
                    ok = False
                    for l in cond:
                        rs = self.roots_of_operand(fn, {"c": [l, []]}, None, depth + 1, set())
                        if rs and all(r[0] == "const" and str(r[1]) == "0" for r in rs):
                            ok = True
                    if ok:
                        return {("const", "1-under-false-flag", fn.id, "")}
            return {("const", str(x[1]), fn.id, "")}
        if kind == "arg":
            i = x[1]
            if fn.dk == "Closure" and i == 1:
                return set()
            out = set()
            callers = vf.callers_of(self.ctx, fn.id) if not self.include_np else vf.callers_of(self.ctx, fn.id)
            if not callers:
                return {("entry-param", "%s#%d" % (fn.id, i), fn.id, fn.loc())}
            for f, cb, t in callers:
                if i - 1 < len(t["a"]):
                    out |= self.roots_of_operand(f, t["a"][i - 1], cb, depth + 1, seen)
            return out
        if kind == "field":
            adt, name = x[1], x[2]
            # closure / coroutine capture
            if adt == fn.id and fn.parent in db.fns and name.isdigit():
                par = db.fns[fn.parent]
                out = set()
                for pb, pbb in enumerate(par.bbs):
                    for s in pbb["s"]:
                        if s["k"] == "a" and s["r"]["k"] == "agg" and s["r"].get("adt") == fn.id:
                            ops = s["r"]["f"]
                            if int(name) < len(ops):
                                out |= self.roots_of_operand(par, ops[int(name)][1], pb, depth + 1, seen)
                return out or {("unknown", "capture %s" % name, fn.id, "")}
            if adt in ("()", "") or adt.startswith("core::") or adt.startswith("alloc::"):
                return set()
            self._index_fields()
            ws = self.field_writers.get((adt, name))
            if ws is None:
                if adt.split("::")[0].startswith("grin_wallet"):
                    return {("unknown", "field %s.%s never written" % (adt, name), fn.id, "")}
                return set()
            out = set()
            for f, wb, o, sp in ws:
                out |= self.roots_of_operand(f, o, wb, depth + 1, seen)
            return out
        if kind == "call":
            return {("call", x[1], fn.id, vf_site(fn, x[2]))}
        if kind in ("binop", "agg", "fnitem", "mutcall"):
            return {("unknown", str(x[:2]), fn.id, "")}
        return set()


def vf_site(fn, b):
    t = fn.bbs[b]["t"]
    sp = t.get("sp", "")
    p = sp.split(":")
    return "%s:%s" % (p[0], p[1]) if len(p) > 1 else ""
