"""A4 - intraprocedural value flow (derives-from), field-aware, flow-insensitive
per local. A9 helpers (field tables) live here too."""
from . import cfg, pp
from .engine import Finding


def op_place(o):
    return o.get("c") or o.get("m")


def const_of_operand(fn, o, depth=0):
    """Constant value (string) of an operand if it is a literal or a local
    whose only definition is a literal."""
    k = o.get("k")
    if k is not None:
        return k.get("v", k.get("t"))
    p = op_place(o)
    if p is None or p[1] or depth > 6:
        return None
    ds = fn.defs().get(p[0], [])
    if len(ds) != 1 or ds[0][0] != "a":
        return None
    s = ds[0][3]
    if s["d"][1]:
        return None
    r = s["r"]
    if r["k"] == "use":
        return const_of_operand(fn, r["o"], depth + 1)
    if r["k"] == "agg" and r.get("ak") == "adt" and not r["f"]:
        return "%s::%s" % (r["adt"], r["var"])
    return None


class Flow:
    """Per-function origin computation with memoisation."""

    def __init__(self, fn):
        self.fn = fn
        self.memo = {}
        self._mutdefs = None

    def mutcall_defs(self):
        """local L -> calls that receive a &mut to (part of) L."""
        if self._mutdefs is not None:
            return self._mutdefs
        fn = self.fn
        mutref = {}  # temp -> base local
        for b, bb in enumerate(fn.bbs):
            for s in bb["s"]:
                if s["k"] == "a" and not s["d"][1]:
                    r = s["r"]
                    if r["k"] == "ref" and r["mut"]:
                        mutref[s["d"][0]] = r["p"][0]
                    elif r["k"] == "use":
                        p = op_place(r["o"])
                        if p is not None and not p[1]:
                            ty = fn.locals[s["d"][0]]["ty"]
                            if ty.startswith("&mut"):
                                mutref[s["d"][0]] = p[0]
        # resolve chains
        def base(l, seen=()):
            if l in mutref and l not in seen:
                return base(mutref[l], seen + (l,))
            return l

        out = {}
        for b, t in fn.calls():
            for i, a in enumerate(t["a"]):
                p = op_place(a)
                if p is None:
                    continue
                l = p[0]
                ty = fn.locals[l]["ty"]
                if ty.startswith("&mut") or l in mutref:
                    bl = base(l)
                    out.setdefault(bl, []).append((b, t, i))
                    if bl != l:
                        out.setdefault(l, []).append((b, t, i))
        self._mutdefs = out
        return out

    def of_operand(self, o):
        k = o.get("k")
        if k is not None:
            if "fn" in k:
                return {("fnitem", k.get("fnr") or k["fn"])}
            return {("const", k.get("v", k.get("t")))}
        p = op_place(o)
        if p is None:
            return set()
        return self.of_place(p)

    def of_place(self, p):
        out = set()
        for e in p[1]:
            if isinstance(e, dict) and "f" in e and e.get("a"):
                out.add(("field", e["a"], e["n"]))
            elif isinstance(e, dict) and "ix" in e:
                out |= self.of_local(e["ix"])
        out |= self.of_local(p[0])
        return out

    def of_local(self, l):
        if l in self.memo:
            return self.memo[l]
        self.memo[l] = res = set()
        fn = self.fn
        for d in fn.defs().get(l, []):
            if d[0] == "arg":
                res.add(("arg", d[1]))
            elif d[0] == "a":
                res |= self.of_rvalue(d[3]["r"])
            elif d[0] == "call":
                t = d[2]
                res.add(("call", t.get("f") or "<indirect>", d[1]))
                for a in t["a"]:
                    res |= self.of_operand(a)
        for b, t, i in self.mutcall_defs().get(l, []):
            res.add(("mutcall", t.get("f") or "<indirect>", b))
            for j, a in enumerate(t["a"]):
                if j != i:
                    res |= self.of_operand(a)
        # fixpoint for cycles: iterate until stable
        return res

    def of_rvalue(self, r):
        k = r["k"]
        if k in ("use", "cast", "un", "repeat"):
            return self.of_operand(r["o"])
        if k in ("ref", "disc", "rawptr"):
            return self.of_place(r["p"])
        if k == "bin":
            return self.of_operand(r["l"]) | self.of_operand(r["r"])
        if k == "agg":
            out = set()
            if r["ak"] == "adt":
                out.add(("agg", r["adt"], r["var"]))
            elif r["ak"] in ("closure", "coroutine"):
                out.add(("closure", r["adt"]))
            for _n, o in r["f"]:
                out |= self.of_operand(o)
            return out
        return set()


_FLOWS = {}


def get_flow(fn):
    fl = _FLOWS.get(fn.id)
    if fl is None or fl.fn is not fn:
        fl = _FLOWS[fn.id] = FlowFix(fn)
    return fl


class FlowFix:
    """Proper fixed point: origin sets per local computed by iteration."""

    def __init__(self, fn):
        self.fn = fn
        n = len(fn.locals)
        helper = Flow(fn)
        mut = helper.mutcall_defs()
        self.direct = [set() for _ in range(n)]  # atoms
        self.deps = [set() for _ in range(n)]  # locals this local derives from
        for l in range(n):
            for d in fn.defs().get(l, []):
                if d[0] == "arg":
                    self.direct[l].add(("arg", d[1]))
                elif d[0] == "a":
                    self._rv(l, d[3]["r"])
                elif d[0] == "call":
                    t = d[2]
                    self.direct[l].add(("call", t.get("f") or "<indirect>", d[1]))
                    for a in t["a"]:
                        self._op(l, a)
            for b, t, i in mut.get(l, []):
                self.direct[l].add(("mutcall", t.get("f") or "<indirect>", b))
                for j, a in enumerate(t["a"]):
                    if j != i:
                        self._op(l, a)
        self.sets = [set(s) for s in self.direct]
        changed = True
        while changed:
            changed = False
            for l in range(n):
                cur = self.sets[l]
                before = len(cur)
                for d in self.deps[l]:
                    if d != l:
                        cur |= self.sets[d]
                if len(cur) != before:
                    changed = True

    def _pl(self, l, p):
        for e in p[1]:
            if isinstance(e, dict) and "f" in e and e.get("a"):
                self.direct[l].add(("field", e["a"], e["n"]))
            elif isinstance(e, dict) and "ix" in e:
                self.deps[l].add(e["ix"])
        self.deps[l].add(p[0])

    def _op(self, l, o):
        k = o.get("k")
        if k is not None:
            if "fn" in k:
                self.direct[l].add(("fnitem", k.get("fnr") or k["fn"]))
            else:
                self.direct[l].add(("const", k.get("v", k.get("t"))))
            return
        p = op_place(o)
        if p is not None:
            self._pl(l, p)

    def _rv(self, l, r):
        k = r["k"]
        if k in ("use", "cast", "un", "repeat"):
            self._op(l, r["o"])
        elif k in ("ref", "disc", "rawptr"):
            self._pl(l, r["p"])
        elif k == "bin":
            self._op(l, r["l"])
            self._op(l, r["r"])
        elif k == "agg":
            if r["ak"] == "adt":
                self.direct[l].add(("agg", r["adt"], r["var"]))
            elif r["ak"] in ("closure", "coroutine"):
                self.direct[l].add(("closure", r["adt"]))
            for _n, o in r["f"]:
                self._op(l, o)

    def of_local(self, l):
        return self.sets[l]

    def of_place(self, p):
        out = set(self.sets[p[0]])
        for e in p[1]:
            if isinstance(e, dict) and "f" in e and e.get("a"):
                out.add(("field", e["a"], e["n"]))
            elif isinstance(e, dict) and "ix" in e:
                out |= self.sets[e["ix"]]
        return out

    def of_operand(self, o):
        k = o.get("k")
        if k is not None:
            if "fn" in k:
                return {("fnitem", k.get("fnr") or k["fn"])}
            return {("const", k.get("v", k.get("t")))}
        p = op_place(o)
        if p is None:
            return set()
        return self.of_place(p)

    def of_rvalue(self, r):
        k = r["k"]
        if k in ("use", "cast", "un", "repeat"):
            return self.of_operand(r["o"])
        if k in ("ref", "disc", "rawptr"):
            return self.of_place(r["p"])
        if k == "bin":
            return self.of_operand(r["l"]) | self.of_operand(r["r"])
        if k == "agg":
            out = set()
            if r["ak"] == "adt":
                out.add(("agg", r["adt"], r["var"]))
            for _n, o in r["f"]:
                out |= self.of_operand(o)
            return out
        return set()


def origins(fn, o):
    return get_flow(fn).of_operand(o)


def origins_place(fn, p):
    return get_flow(fn).of_place(p)


def has_field(srcs, adt, name):
    return any(s[0] == "field" and s[1].startswith(adt) and s[2] == name for s in srcs)


def has_call(srcs, pat):
    return any(s[0] in ("call", "mutcall") and cfg.match_name(s[1], pat) for s in srcs)


def field_assignments(fn, adt, field):
    """[(bb, stmt)] assigning to <..>.field of adt."""
    out = []
    for b, bb in enumerate(fn.bbs):
        for s in bb["s"]:
            if s["k"] == "a" and s["d"][1]:
                last = s["d"][1][-1]
                if isinstance(last, dict) and last.get("n") == field and last.get("a", "").startswith(adt):
                    out.append((b, s))
    return out


def base_local_of_ref(fn, o, depth=0):
    """Follow a reference operand back to the local it borrows (through
    reborrows and copies)."""
    p = op_place(o)
    if p is None:
        return None
    l = p[0]
    if any(e != "*" for e in p[1]):
        return l
    ds = fn.defs().get(l, [])
    if len(ds) == 1 and ds[0][0] == "a" and depth < 8:
        r = ds[0][3]["r"]
        if r["k"] == "ref":
            q = r["p"]
            if all(e == "*" for e in q[1]):
                inner = {"c": [q[0], []]}
                if q[1]:
                    return base_local_of_ref(fn, inner, depth + 1)
                return q[0]
            return q[0]
        if r["k"] == "use":
            return base_local_of_ref(fn, r["o"], depth + 1)
    return l


def check_field_source(ctx, rid, fn, dest, src_field, what, min_sites=1):
    run = ctx.run
    asg = field_assignments(fn, dest[0], dest[1])
    fl = get_flow(fn)
    good = 0
    for b, s in asg:
        srcs = fl.of_rvalue(s["r"])
        ok = has_field(srcs, src_field[0], src_field[1])
        run.instance(rid, {"fn": pp.short(fn.id), "obligation": what, "site": s["sp"].split(":")[1]}, held=ok)
        if ok:
            good += 1
        else:
            run.finding(
                Finding(
                    rid,
                    fn.id,
                    "%s: assignment does not derive from %s.%s" % (what, pp.short(src_field[0]), src_field[1]),
                    site=":".join(s["sp"].split(":")[:2]),
                    detail="origins: %s" % sorted(str(x) for x in srcs)[:12],
                )
            )
    if len(asg) < min_sites:
        run.error("%s: no assignment to %s.%s in %s (anchor missing)" % (rid, pp.short(dest[0]), dest[1], fn.id))


def check_same_local_stored_and_returned(ctx, rid, fn, callee, arg_index):
    """The local whose reference is passed to `callee` is the local moved into
    every Ok(..) return, and after that call nothing writes its `tx` field or
    takes it by &mut."""
    run = ctx.run
    sites = cfg.find_calls(fn, callee)
    if not sites:
        run.error("%s: %s not called in %s" % (rid, callee, fn.id))
        return
    stored = set()
    for b, t in sites:
        stored.add(base_local_of_ref(fn, t["a"][arg_index]))
    # returned locals
    returned = set()
    for b, bb in enumerate(fn.bbs):
        for s in bb["s"]:
            if s["k"] == "a" and s["d"] == [0, []] and s["r"]["k"] == "agg" and s["r"].get("var") == "Ok":
                for _n, o in s["r"]["f"]:
                    p = op_place(o)
                    if p is not None:
                        returned.add(base_local_of_ref(fn, o))
    held = len(stored) == 1 and stored == returned
    names = lambda ls: sorted(fn.local_name(l) for l in ls if l is not None)
    run.instance(rid, {"fn": pp.short(fn.id), "obligation": "the slate handed to update_stored_tx is the slate returned", "stored": names(stored), "returned": names(returned)}, held=held)
    if not held:
        run.finding(Finding(rid, fn.id, "slate stored by update_stored_tx is not the local returned in Ok(..)", site=fn.loc(), detail="stored=%s returned=%s" % (names(stored), names(returned))))
        return
    S = next(iter(stored))
    # after each call: no write to S.tx / whole S, no &mut S passed to a call
    starts = [t["t"] for _b, t in sites if t["t"] is not None]
    par = cfg.reach(fn, starts=starts)
    bad = []
    mutrefs = set()
    for b in par:
        for s in fn.bbs[b]["s"]:
            if s["k"] != "a":
                continue
            d = s["d"]
            if d[0] == S:
                if not d[1]:
                    bad.append(("whole-assign", s["sp"]))
                else:
                    f0 = d[1][0]
                    if isinstance(f0, dict) and f0.get("n") == "tx":
                        bad.append(("assign .tx", s["sp"]))
            r = s["r"]
            if r["k"] == "ref" and r["mut"] and r["p"][0] == S and not d[1]:
                mutrefs.add(d[0])
    for b in par:
        t = fn.bbs[b]["t"]
        if t["k"] == "call":
            for a in t["a"]:
                p = op_place(a)
                if p is not None and p[0] in mutrefs and fn.locals[p[0]]["ty"].startswith("&mut"):
                    bad.append(("&mut passed to %s" % pp.short(t.get("f") or "?"), t["sp"]))
    held = not bad
    run.instance(rid, {"fn": pp.short(fn.id), "obligation": "between update_stored_tx and return the slate's tx is not written nor lent mutably", "violations": [str(x) for x in bad]}, held=held)
    if not held:
        run.finding(Finding(rid, fn.id, "returned slate may be modified after it was stored", site=":".join(bad[0][1].split(":")[:2]), detail=str(bad)))


# ---------------------------------------------------------------------------
# interprocedural backward slice of a parameter


def callers_of(ctx, fid):
    """[(caller Fn, bb, term)] of production call sites that may invoke fid."""
    from .callgraph import non_production

    out = []
    for caller in ctx.cg.callers(fid):
        if non_production(caller):
            continue
        f = ctx.db.fns[caller]
        for b, t in f.calls():
            if any(c == fid for c, _k in ctx.cg.targets_of_call(t)):
                out.append((f, b, t))
    return out


def backward_param_slice(ctx, fid, param, max_depth=8, type_filter=None):
    """Follow parameter `param` (1-based local index) of function fid back
    through production call sites (and closure captures). Yields (chain,
    fn, bb, site_span, origins) for every site reached; chain is the list of
    (function id, param) from the sink upward. type_filter(type string)
    restricts which caller parameters are followed further."""
    seen = set()
    work = [((fid, param), [(fid, param)])]
    db = ctx.db

    def follow(f, o, chain):
        for x in o:
            if x[0] == "arg":
                ty = f.locals[x[1]]["ty"]
                if type_filter is None or type_filter(ty):
                    work.append(((f.id, x[1]), chain + [(f.id, x[1])]))

    while work:
        (g, p), chain = work.pop()
        if (g, p) in seen or len(chain) > max_depth:
            continue
        seen.add((g, p))
        for f, b, t in callers_of(ctx, g):
            if p - 1 >= len(t["a"]):
                continue
            o = origins(f, t["a"][p - 1])
            yield chain, f, b, t["sp"], o
            follow(f, o, chain)
            # closure captures: continue in the creating function
            for x in o:
                if x[0] == "field" and x[1] == f.id and f.parent in db.fns and x[2].isdigit():
                    par = db.fns[f.parent]
                    for pb, pbb in enumerate(par.bbs):
                        for s in pbb["s"]:
                            if s["k"] == "a" and s["r"]["k"] == "agg" and s["r"].get("adt") == f.id:
                                ops = s["r"]["f"]
                                i = int(x[2])
                                if i < len(ops):
                                    po = origins(par, ops[i][1])
                                    yield chain + [(f.id, "capture %s" % x[2])], par, pb, s["sp"], po
                                    follow(par, po, chain + [(f.id, 0)])


def strip_clones(fn, o, depth=0):
    """Operand -> base local, looking through copies, references and
    Clone::clone / to_owned calls of single-definition temporaries."""
    p = op_place(o)
    if p is None:
        return None
    l = p[0]
    if any(e != "*" for e in p[1]):
        return l
    ds = fn.defs().get(l, [])
    if len(ds) == 1 and depth < 12:
        d = ds[0]
        if d[0] == "a" and not d[3]["d"][1]:
            r = d[3]["r"]
            if r["k"] == "ref":
                q = r["p"]
                if all(e == "*" for e in q[1]):
                    return strip_clones(fn, {"c": [q[0], []]}, depth + 1)
                return q[0]
            if r["k"] == "use" and op_place(r["o"]) is not None and all(e == "*" for e in op_place(r["o"])[1]):
                return strip_clones(fn, r["o"], depth + 1)
            if r["k"] == "cast" and r["ck"].startswith("Coerce") and op_place(r["o"]) is not None:
                return strip_clones(fn, r["o"], depth + 1)
        elif d[0] == "call":
            t = d[2]
            if t.get("f") in ("core::clone::Clone::clone", "alloc::borrow::ToOwned::to_owned", "core::ops::deref::Deref::deref", "core::ops::deref::DerefMut::deref_mut", "core::convert::AsRef::as_ref", "alloc::vec::Vec::<T, A>::as_slice") and t["a"]:
                return strip_clones(fn, t["a"][0], depth + 1)
    return l


def struct_literals(fn, adt):
    """[(bb, stmt)] of aggregate assignments constructing `adt`."""
    out = []
    for b, bb in enumerate(fn.bbs):
        for s in bb["s"]:
            if s["k"] == "a" and s["r"]["k"] == "agg" and s["r"].get("adt") == adt:
                out.append((b, s))
    return out


def literal_field(stmt, name):
    for n, o in stmt["r"]["f"]:
        if n == name:
            return o
    return None


TRANSPARENT_CALLS = {
    "core::ops::try_trait::Try::branch",
    "core::clone::Clone::clone",
    "alloc::borrow::ToOwned::to_owned",
    "core::convert::Into::into",
    "core::convert::From::from",
    "core::ops::deref::Deref::deref",
    "core::ops::deref::DerefMut::deref_mut",
    "core::convert::AsRef::as_ref",
    "core::borrow::Borrow::borrow",
    "core::option::Option::<T>::unwrap",
    "core::option::Option::<T>::expect",
    "core::option::Option::<T>::as_ref",
    "core::option::Option::<T>::as_mut",
    "core::option::Option::<T>::cloned",
    "core::option::Option::<T>::copied",
    "core::option::Option::<T>::ok_or",
    "core::option::Option::<T>::ok_or_else",
    "core::option::Option::<T>::take",
    "core::result::Result::<T, E>::unwrap",
    "core::result::Result::<T, E>::expect",
    "core::result::Result::<T, E>::map_err",
    "core::result::Result::<T, E>::ok",
    "core::result::Result::<T, E>::as_ref",
    "alloc::boxed::Box::<T>::new",
    "alloc::string::ToString::to_string",
}


def producers(fn, o, _seen=None, _depth=0, stop_at_fields=None):
    """Who produced this value: walk back through copies, references, field
    projections and 'transparent' calls (?, clone, into, unwrap ...) to the
    first producing calls / parameters / constants / aggregates. Unlike
    origins() this does not include the arguments of the producing call."""
    seen = _seen if _seen is not None else set()
    out = set()
    k = o.get("k") if isinstance(o, dict) else None
    if k is not None:
        if "fn" in k:
            return {("fnitem", k.get("fnr") or k["fn"])}
        return {("const", k.get("v", k.get("t")))}
    p = op_place(o) if isinstance(o, dict) else o
    if p is None:
        return out
    last_field = None
    for e in p[1]:
        if isinstance(e, dict) and "f" in e and e.get("a"):
            out.add(("field", e["a"], e["n"]))
            if stop_at_fields is not None and stop_at_fields(e["a"]):
                last_field = ("field", e["a"], e["n"])
    if last_field is not None:
        return {last_field}
    l = p[0]
    if l in seen or _depth > 40:
        return out
    seen.add(l)
    for d in fn.defs().get(l, []):
        if d[0] == "arg":
            out.add(("arg", d[1]))
        elif d[0] == "a":
            r = d[3]["r"]
            kk = r["k"]
            if kk in ("use", "cast", "un", "repeat"):
                out |= producers(fn, r["o"], seen, _depth + 1, stop_at_fields)
            elif kk in ("ref", "disc", "rawptr"):
                out |= producers(fn, r["p"], seen, _depth + 1, stop_at_fields)
            elif kk == "bin":
                out.add(("binop", r["op"]))
            elif kk == "agg":
                if r["ak"] == "adt":
                    out.add(("agg", r["adt"], r["var"]))
                    if r["adt"] in ("core::option::Option", "core::result::Result"):
                        for _n, oo in r["f"]:
                            out |= producers(fn, oo, seen, _depth + 1, stop_at_fields)
                elif r["ak"] == "tuple":
                    for _n, oo in r["f"]:
                        out |= producers(fn, oo, seen, _depth + 1, stop_at_fields)
                else:
                    out.add(("agg", r["ak"], ""))
        elif d[0] == "call":
            t = d[2]
            f = t.get("f") or "<indirect>"
            if f in TRANSPARENT_CALLS and t["a"]:
                out |= producers(fn, t["a"][0], seen, _depth + 1, stop_at_fields)
            else:
                out.add(("call", f, d[1]))
    return out
