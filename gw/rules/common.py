"""Shared helpers for rule modules."""
from .. import callgraph, cfg, facts, pp
from ..engine import Finding

LW = "grin_wallet_libwallet::"
IMPLS = "grin_wallet_impls::"
API = "grin_wallet_api::"
CTL = "grin_wallet_controller::"
UTIL = "grin_wallet_util::"
WOB = callgraph.WOB
WB = callgraph.WB


class Ctx:
    _cache = {}

    def __init__(self, run, repo=None, all_targets=False):
        self.run = run
        repo = repo or facts.REPO
        self.db = facts.load(repo, all_targets=all_targets)
        key = (self.db.dir,)
        if key not in Ctx._cache:
            cg = callgraph.CallGraph(self.db)
            eff = callgraph.Effects(self.db, cg)
            Ctx._cache[key] = (cg, eff)
        self.cg, self.eff = Ctx._cache[key]
        run.extra["facts_dir"] = self.db.dir
        run.extra["functions_in_facts"] = len(self.db.fns)

    def fn(self, fid):
        f = self.db.fns.get(fid)
        if f is None:
            self.run.error("anchor function missing from facts: %s" % fid)
        return f


def site_of(fn, b):
    t = fn.bbs[b]["t"]
    sp = t.get("sp")
    if sp:
        p = sp.split(":")
        return "%s:%s" % (p[0], p[1])
    for s in fn.bbs[b]["s"]:
        if s.get("sp"):
            p = s["sp"].split(":")
            return "%s:%s" % (p[0], p[1])
    return fn.loc()


_WRAP = {}


def ok_wrappers(ctx, pats):
    """Workspace functions W returning Result such that every non-error return of W takes the
    Ok-edge of a call matching `pats` (or of another such wrapper): a call of W whose result is
    Ok implies the guard ran and returned Ok.  (Min et al.: treat a wrapper as the check itself.)"""
    if isinstance(pats, str) or callable(pats):
        pats = [pats]
    key = (ctx.db.dir, tuple(p if isinstance(p, str) else id(p) for p in pats))
    if key in _WRAP:
        return _WRAP[key]
    S = set()
    cands = []
    for f in ctx.db.fns.values():
        if callgraph.non_production(f.id) or not f.locals or not f.locals[0]["ty"].startswith("core::result::Result<"):
            continue
        if f.dk not in ("Fn", "AssocFn"):
            continue
        cands.append(f)
    changed = True
    rounds = 0
    while changed and rounds < 6:
        changed = False
        rounds += 1
        allp = list(pats) + sorted(S)
        for f in cands:
            if f.id in S:
                continue
            sites = cfg.find_calls(f, allp)
            if not sites:
                continue
            edges = set()
            for b, _t in sites:
                edges |= cfg.call_guard(f, b).ok
            if not edges:
                continue
            err = cfg.error_return_blocks(f)
            rets = cfg.return_blocks(f)
            holds, _p = cfg.must_pass(f, edges, rets, cut_nodes=err)
            if holds:
                S.add(f.id)
                changed = True
    _WRAP[key] = S
    return S


def guard_edges(ctx, fn, pats, rid, allow_missing=False, which="ok", wrappers=True):
    """Union of ok-edges of all calls in fn matching pats (or an Ok-wrapper of pats)."""
    if wrappers and which == "ok":
        ps = [pats] if (isinstance(pats, str) or callable(pats)) else list(pats)
        w = ok_wrappers(ctx, ps) - {fn.id}
        if w:
            pats = ps + sorted(w)
    sites = cfg.find_calls(fn, pats)
    if not sites:
        if not allow_missing:
            ctx.run.error("%s: guard call %s not found in %s (anchor missing)" % (rid, _patstr(pats), fn.id))
        return set(), 0
    edges = set()
    for b, _t in sites:
        g = cfg.call_guard(fn, b)
        es = g.ok if which == "ok" else g.fail
        if not g.ok and not g.fail:
            ctx.run.error(
                "%s: result of guard call %s at %s is not branched on by a recognised idiom (fail closed)"
                % (rid, _patstr(pats), site_of(fn, b))
            )
        edges |= es
    return edges, len(sites)


def _patstr(pats):
    if isinstance(pats, str):
        pats = [pats]
    return "|".join(pp.short(p) if isinstance(p, str) else getattr(p, "__name__", "pred") for p in pats)


_REACH = {}


def _may_reach(ctx, pats):
    """Production workspace functions from which a call matching `pats` is reachable (reverse BFS)."""
    if isinstance(pats, str) or callable(pats):
        pats = [pats]
    key = (ctx.db.dir, tuple(p if isinstance(p, str) else id(p) for p in pats))
    if key in _REACH:
        return _REACH[key]
    direct = set()
    for fid, f in ctx.db.fns.items():
        if callgraph.non_production(fid):
            continue
        if cfg.find_calls(f, pats):
            direct.add(fid)
    seen = set(direct)
    stack = list(direct)
    while stack:
        x = stack.pop()
        for cal in ctx.cg.callers(x):
            if cal not in seen and not callgraph.non_production(cal):
                seen.add(cal)
                stack.append(cal)
    _REACH[key] = seen
    return seen


def sink_blocks(ctx, fn, sink, rid):
    kind = sink[0]
    if kind == "call":
        bs = {b for b, _t in cfg.find_calls(fn, sink[1])}
        name = "call " + _patstr(sink[1])
        if not bs:
            # the sink call may have been moved into a helper: fall back to the calls of workspace
            # functions from which the sink is reachable in the call graph (over-approximation)
            reach = _may_reach(ctx, sink[1])
            bs = {b for b, t in fn.calls() if any(cal in reach for cal, _k in ctx.cg.targets_of_call(t))}
            if bs:
                name += " (through a helper)"
    elif kind == "okret":
        bs = cfg.return_blocks(fn)
        name = "Ok return"
    elif kind == "field":
        bs = cfg.assign_field_blocks(fn, sink[1], sink[2])
        name = "assignment to %s.%s" % (pp.short(sink[1]), sink[2])
    elif kind == "effects":
        wanted = sink[1] if len(sink) > 1 else None
        eb = ctx.eff.effect_blocks(fn, wanted)
        bs = set(eb)
        name = "effects{%s}" % ",".join(sorted(set().union(*eb.values()))) if eb else "effects"
    elif kind == "blocks":
        bs = set(sink[1])
        name = sink[2] if len(sink) > 2 else "blocks"
    else:
        raise ValueError(kind)
    if not bs:
        ctx.run.error("%s: sink %s not found in %s (anchor missing)" % (rid, name, fn.id))
    return bs, name


def require_pass(ctx, rid, fid, guards, sink, what=None, extra_cut_nodes=frozenset(), exclude_blocks=frozenset()):
    """Obligation: in function fid every path from entry to `sink` takes the
    Ok-edge of (one of) the guard call(s) `guards`.
    guards: pattern(s) or a precomputed ('edges', set, description)."""
    run = ctx.run
    fn = ctx.fn(fid)
    if fn is None:
        return False
    if isinstance(guards, tuple) and guards and guards[0] == "edges":
        edges, gname, nsites = guards[1], guards[2], 1
        if not edges:
            run.error("%s: guard %s has no edges in %s (anchor missing)" % (rid, gname, fid))
            return False
    else:
        edges, nsites = guard_edges(ctx, fn, guards, rid)
        gname = "Ok-edge of " + _patstr(guards)
        if not nsites:
            return False
    bs, sname = sink_blocks(ctx, fn, sink, rid)
    if not bs:
        return False
    bs = bs - set(exclude_blocks)
    cut_nodes = set(extra_cut_nodes)
    if sink[0] == "okret":
        cut_nodes |= cfg.error_return_blocks(fn)
    holds, path = cfg.must_pass(fn, edges, bs, cut_nodes=cut_nodes)
    desc = what or ("%s requires %s" % (sname, gname))
    run.instance(rid, {"fn": pp.short(fid), "obligation": desc, "guard_sites": nsites, "sink_blocks": len(bs)}, held=holds)
    if not holds:
        wit = cfg.describe_path(fn, path)
        run.finding(
            Finding(
                rid,
                fid,
                desc,
                site=site_of(fn, path[-1]),
                detail="%s is reachable from entry without taking %s; path: %s" % (sname, gname, wit),
                witness={"blocks": path, "calls": wit},
            )
        )
    return holds


def require_order(ctx, rid, fid, first, then, what=None):
    """call `then` is unreachable without the Ok-edge (or plain return edge) of call `first`."""
    return require_pass(ctx, rid, fid, first, ("call", then), what)


def after_call_edges(fn, pats):
    """Edges (call block -> return target) of matching calls: 'the call happened and returned'."""
    out = set()
    for b, t in cfg.find_calls(fn, pats):
        if t["t"] is not None:
            out.add((b, t["t"]))
    return out


def require_after(ctx, rid, fid, first, sink, what=None, exclude_first=True):
    """Every path to `sink` passes through a (returning) call of `first`."""
    fn = ctx.fn(fid)
    if fn is None:
        return False
    e = after_call_edges(fn, first)
    if not e:
        ctx.run.error("%s: call %s not found in %s (anchor missing)" % (rid, _patstr(first), fid))
        return False
    ex = {b for b, _t in cfg.find_calls(fn, first)} if exclude_first else frozenset()
    return require_pass(ctx, rid, fid, ("edges", e, "call of " + _patstr(first)), sink, what, exclude_blocks=ex)


def param(f, name, ty=None, nth=0):
    """Local index of a parameter: by its name, else (after a rename) by type substring, taking the
    nth parameter of that type."""
    byname = [pl[0] for n, pl, a in f.vars if n == name and a > 0 and not pl[1]]
    if byname:
        return byname[0]
    if ty is None:
        return None
    cands = [i for i in range(1, f.argc + 1) if ty in f.locals[i]["ty"]]
    if len(cands) > nth:
        return cands[nth]
    return None
