"""Rules shared by several properties."""
from . import common as c
from .. import cfg, pp, valueflow as vf
from ..engine import Finding

BATCH_WRITES = {
    "save_output", "delete_output", "lock_output", "save_tx_log_entry", "next_tx_log_id",
    "save_private_context", "delete_private_context", "save_child_index",
    "save_last_confirmed_height", "save_last_scanned_block", "save_init_status", "save_acct_path",
}


def single_batch(ctx, rid, fn, allow_after_commit=("store_tx",), group=None):
    """Typestate: exactly one batch() creation and one commit() call site; every
    batch write is reachable only after batch() Ok and cannot be reached after
    commit(); Ok return requires commit Ok."""
    run = ctx.run
    batches = cfg.find_calls(fn, [c.WB + "batch", c.WB + "batch_no_mask"])
    commits = cfg.find_calls(fn, c.WOB + "commit")
    held = len(batches) == 1 and len(commits) == 1
    run.instance(rid, {"fn": pp.short(fn.id), "obligation": "one batch() and one commit() call site", "batch": len(batches), "commit": len(commits)}, held=held)
    if not held:
        run.finding(Finding(rid, fn.id, "atomic group split: %d batch() and %d commit() call sites" % (len(batches), len(commits)), site=fn.loc()))
        return False
    cb, ct = commits[0]
    eb = ctx.eff.effect_blocks(fn, BATCH_WRITES)
    # writes after commit
    after = cfg.reach(fn, starts=[ct["t"]]) if ct["t"] is not None else {}
    late = [b for b in eb if b in after and b != cb]
    # in a loop the commit may reach earlier writes only through a back edge to before batch()
    bb0 = batches[0][0]
    late = [b for b in late if bb0 not in cfg.reach(fn, starts=[ct["t"]], cut_nodes={b})] if late else late
    held2 = not late
    run.instance(rid, {"fn": pp.short(fn.id), "obligation": "no batch write after commit()", "writes": len(eb)}, held=held2)
    if not held2:
        run.finding(Finding(rid, fn.id, "batch write reachable after commit()", site=c.site_of(fn, late[0]), detail=str(sorted(eb[late[0]]))))
    # once the batch exists, Ok is returned only after commit Ok (an early Ok return before any batch is fine)
    ce, _n = c.guard_edges(ctx, fn, c.WOB + "commit", rid)
    bt = batches[0][1]["t"]
    par = cfg.reach(fn, starts=[bt] if bt is not None else [], cut_edges=ce, cut_nodes=cfg.error_return_blocks(fn))
    bad = [b for b in cfg.return_blocks(fn) if b in par]
    ok3 = not bad and bool(ce)
    run.instance(rid, {"fn": pp.short(fn.id), "obligation": "after batch() the function returns Ok only through commit Ok"}, held=ok3)
    if not ok3:
        run.finding(Finding(rid, fn.id, "Ok return after batch() without commit Ok", site=fn.loc()))
    return held and held2 and ok3


def duplicate_lookup_complete(ctx, rid, f, call_b, call_t):
    """The look-up that detects a replayed slate must see every log entry of that slate id:
    no log-id restriction and outstanding_only == false on every production root."""
    from ..flags import FlagRoots

    run = ctx.run
    a = call_t["a"]
    # arg1 = tx_id must be None
    p1 = vf.producers(f, a[1])
    none_id = ("agg", "core::option::Option", "None") in p1 and not any(x[0] == "agg" and x[2] == "Some" for x in p1)
    roots = FlagRoots(ctx).roots_of_operand(f, a[5], call_b)
    all_false = bool(roots) and all(r[0] == "const" and str(r[1]) in ("0", "1-under-false-flag") for r in roots)
    held = none_id and all_false
    run.instance(rid, {"fn": pp.short(f.id), "obligation": "duplicate look-up covers all entries of the slate id (tx_id = None, outstanding_only false on every production root)", "outstanding_only_roots": sorted("%s %s" % (r[0], r[1]) for r in roots)}, held=held)
    if not held:
        run.finding(Finding(rid, f.id, "duplicate look-up does not see every entry of the slate id (restricted by log id or to outstanding entries)", site=c.site_of(f, call_b),
                            detail="outstanding_only roots: %s" % sorted("%s %s" % (r[0], r[1]) for r in roots)))
    return held
