"""Rules shared by several properties."""
from . import common as c
from .. import cfg, pp, valueflow as vf
from ..engine import Finding

BATCH_WRITES = {
    "save_output", "delete_output", "lock_output", "save_tx_log_entry", "next_tx_log_id",
    "save_private_context", "delete_private_context", "save_child_index",
    "save_last_confirmed_height", "save_last_scanned_block", "save_init_status", "save_acct_path",
}


def single_batch(ctx, rid, fn, allow_after_commit=("store_tx",), group=None):
    """Typestate: exactly one batch() creation and one commit() call site; every
    batch write is reachable only after batch() Ok and cannot be reached after
    commit(); Ok return requires commit Ok."""
    run = ctx.run
    batches = cfg.find_calls(fn, [c.WB + "batch", c.WB + "batch_no_mask"])
    commits = cfg.find_calls(fn, c.WOB + "commit")
    held = len(batches) == 1 and len(commits) == 1
    run.instance(rid, {"fn": pp.short(fn.id), "obligation": "one batch() and one commit() call site", "batch": len(batches), "commit": len(commits)}, held=held)
    if not held:
        run.finding(Finding(rid, fn.id, "atomic group split: %d batch() and %d commit() call sites" % (len(batches), len(commits)), site=fn.loc()))
        return False
    cb, ct = commits[0]
    eb = ctx.eff.effect_blocks(fn, BATCH_WRITES)
    # writes after commit
    after = cfg.reach(fn, starts=[ct["t"]]) if ct["t"] is not None else {}
    late = [b for b in eb if b in after and b != cb]
    # in a loop the commit may reach earlier writes only through a back edge to before batch()
    bb0 = batches[0][0]
    late = [b for b in late if bb0 not in cfg.reach(fn, starts=[ct["t"]], cut_nodes={b})] if late else late
    held2 = not late
    run.instance(rid, {"fn": pp.short(fn.id), "obligation": "no batch write after commit()", "writes": len(eb)}, held=held2)
    if not held2:
        run.finding(Finding(rid, fn.id, "batch write reachable after commit()", site=c.site_of(fn, late[0]), detail=str(sorted(eb[late[0]]))))
    # once the batch exists, Ok is returned only after commit Ok (an early Ok return before any batch is fine)
    ce, _n = c.guard_edges(ctx, fn, c.WOB + "commit", rid)
    bt = batches[0][1]["t"]
    par = cfg.reach(fn, starts=[bt] if bt is not None else [], cut_edges=ce, cut_nodes=cfg.error_return_blocks(fn))
    bad = [b for b in cfg.return_blocks(fn) if b in par]
    ok3 = not bad and bool(ce)
    run.instance(rid, {"fn": pp.short(fn.id), "obligation": "after batch() the function returns Ok only through commit Ok"}, held=ok3)
    if not ok3:
        run.finding(Finding(rid, fn.id, "Ok return after batch() without commit Ok", site=fn.loc()))
    return held and held2 and ok3


def duplicate_lookup_complete(ctx, rid, f, call_b, call_t, all_accounts=False, account_from_context=False):
    """The look-up that detects a replayed slate must see every log entry of that slate id:
    no log-id restriction and outstanding_only == false on every production root."""
    from ..flags import FlagRoots

    run = ctx.run
    a = call_t["a"]
    # arg1 = tx_id must be None
    p1 = vf.producers(f, a[1])
    none_id = ("agg", "core::option::Option", "None") in p1 and not any(x[0] == "agg" and x[2] == "Some" for x in p1)
    roots = FlagRoots(ctx).roots_of_operand(f, a[5], call_b)
    all_false = bool(roots) and all(r[0] == "const" and str(r[1]) in ("0", "1-under-false-flag") for r in roots)
    held = none_id and all_false
    run.instance(rid, {"fn": pp.short(f.id), "obligation": "duplicate look-up covers all entries of the slate id (tx_id = None, outstanding_only false on every production root)", "outstanding_only_roots": sorted("%s %s" % (r[0], r[1]) for r in roots)}, held=held)
    if not held:
        run.finding(Finding(rid, f.id, "duplicate look-up does not see every entry of the slate id (restricted by log id or to outstanding entries)", site=c.site_of(f, call_b),
                            detail="outstanding_only roots: %s" % sorted("%s %s" % (r[0], r[1]) for r in roots)))
    if account_from_context:
        # the account of the look-up is the transaction's own (Context.parent_key_id), not whichever is active
        p4 = vf.producers(f, a[4]) | vf.origins(f, a[4])
        h3 = vf.has_field(p4, c.LW + "types::Context", "parent_key_id") and not vf.has_call(vf.producers(f, a[4]), c.WB + "parent_key_id")
        run.instance(rid, {"fn": pp.short(f.id), "obligation": "duplicate look-up in the account the send was initiated from (the context's), not the active one"}, held=h3)
        if not h3:
            run.finding(Finding(rid, f.id, "the duplicate look-up uses the active account instead of the account recorded in the transaction's context: for a send from a non-active account the guard sees nothing", site=c.site_of(f, call_b)))
        held = held and h3
    if all_accounts:
        # the party that delivers the slate also names the destination account: a replay must be recognised
        # whichever account it names, so the look-up may not be restricted to one account
        p4 = vf.producers(f, a[4])
        h2 = ("agg", "core::option::Option", "None") in p4 and not any(x[0] == "agg" and x[2] == "Some" for x in p4)
        run.instance(rid, {"fn": pp.short(f.id), "obligation": "duplicate look-up covers every account (the deliverer chooses the destination account)"}, held=h2)
        if not h2:
            if f.id.endswith("api_impl::foreign::receive_tx"):
                msg = "duplicate look-up is restricted to the destination account, which the deliverer of the slate chooses: the same slate delivered again under another account name is received a second time (second log entry, second output)"
            else:
                msg = "duplicate look-up is restricted to the account named for this call: the same invoice paid again from another account passes the guard (a second TxSent entry and a second reservation for one slate id)"
            run.finding(Finding(rid, f.id, msg, site=c.site_of(f, call_b)))
        held = held and h2
    return held


class _EdgeCmp:
    """stand-in for a comparison: the edges on which 'a duplicate exists' holds"""

    def __init__(self, edges, site):
        self.op = "Eq"
        self.true_edges = edges
        self.false_edges = set()
        self._site = site

    def site(self):
        return self._site


def replay_guard(ctx, rid, f, ty, depth=0, root=None):
    """Does step function f refuse a replay - an existing log entry of type `ty` for the slate id leads to
    Err before any effect?  The test may sit in f itself or in a Result-returning helper that f calls and
    whose Ok-edge guards every effect of f.  Returns (held, info)."""
    from ..callgraph import non_production

    LW = c.LW
    UPD = LW + "internal::updater::"
    TLT = LW + "types::TxLogEntryType"
    fl = vf.get_flow(f)
    rt = cfg.find_calls(f, UPD + "retrieve_txs")
    keyed = [(b, t) for b, t in rt if vf.has_field(vf.origins(f, t["a"][2]), LW + "slate::Slate", "id")]
    dup = []
    for x in cfg.comparisons(f):
        if x.op in ("Eq", "Ne"):
            lo, ro = fl.of_operand(x.l), fl.of_operand(x.r)
            for a, b_ in ((lo, ro), (ro, lo)):
                if vf.has_field(a, LW + "types::TxLogEntry", "tx_type") and ("agg", TLT, ty) in b_ and vf.has_call(a, UPD + "retrieve_txs"):
                    dup.append(x)
    info = {"lookups_by_slate_id": len(keyed), "duplicate_tests": len(dup), "in": pp.short(f.id)}
    if keyed and not dup:
        # `if txs.iter().any(|t| t.tx_type == <ty>) { return Err(..) }`: the comparison sits in a closure handed to
        # an iterator predicate over the look-up's result; the "is a duplicate" edge is the true edge of that call
        for b, t in f.calls():
            fn_ = t.get("f") or ""
            if not (fn_.endswith("Iterator::any") or fn_.endswith("Iterator::find") or fn_.endswith("Iterator::position")) or not t["a"]:
                continue
            if not vf.has_call(vf.origins(f, t["a"][0]), UPD + "retrieve_txs"):
                continue
            for a in t["a"][1:]:
                pl = vf.op_place(a)
                if pl is None or pl[1]:
                    continue
                for bb in f.bbs:
                    for st in bb["s"]:
                        if st["k"] == "a" and st["d"] == [pl[0], []] and st["r"]["k"] == "agg" and st["r"].get("ak") == "closure":
                            g = ctx.db.fns.get(st["r"]["adt"])
                            if g is None:
                                continue
                            for x in cfg.comparisons(g):
                                if x.op != "Eq":
                                    continue
                                pl_, pr_ = vf.producers(g, x.l) | vf.get_flow(g).of_operand(x.l), vf.producers(g, x.r) | vf.get_flow(g).of_operand(x.r)
                                for aa, bb_ in ((pl_, pr_), (pr_, pl_)):
                                    if vf.has_field(aa, LW + "types::TxLogEntry", "tx_type") and ("agg", TLT, ty) in bb_:
                                        gd = cfg.call_guard(f, b)
                                        if gd.ok:
                                            dup.append(_EdgeCmp(gd.ok, c.site_of(f, b)))
        info["duplicate_tests"] = len(dup)
    if keyed and dup:
        duplicate_lookup_complete(ctx, rid, f, keyed[0][0], keyed[0][1], all_accounts=(rid.startswith("C03") and ((ty == "TxReceived" and (root or f.id).endswith("api_impl::foreign::receive_tx")) or (ty == "TxSent" and (root or f.id).endswith("api_impl::owner::process_invoice_tx")))), account_from_context=(ty == "TxSent" and (root or f.id).endswith("api_impl::owner::tx_lock_outputs")))  # C07 speaks of a second delivery "to that account" only
        x = dup[0]
        same = x.true_edges if x.op == "Eq" else x.false_edges
        starts = [d for (_s, d) in same]
        eb = set(ctx.eff.effect_blocks(f))
        par = cfg.reach(f, starts=starts)
        par2 = cfg.reach(f, starts=starts, cut_nodes=cfg.error_return_blocks(f))
        held = bool(starts) and not any(b in par for b in eb) and not any(b in par2 for b in cfg.return_blocks(f))
        e = c.after_call_edges(f, UPD + "retrieve_txs")
        pre = cfg.reach(f, cut_edges=e)
        held = held and not any(b in pre for b in eb)
        info["site"] = x.site()
        return held, info
    if depth >= 2:
        return False, info
    # helper mode
    for b, t in f.calls():
        w = ctx.db.fns.get(t.get("f") or "")
        if w is None or non_production(w.id) or not w.locals[0]["ty"].startswith("core::result::Result<"):
            continue
        if not (cfg.find_calls(w, UPD + "retrieve_txs") or depth == 0):
            continue
        if not cfg.find_calls(w, UPD + "retrieve_txs"):
            continue
        if ctx.eff.effect_blocks(w):
            continue
        h, winfo = replay_guard(ctx, rid, w, ty, depth + 1, root=root or f.id)
        if not (winfo["lookups_by_slate_id"] and winfo["duplicate_tests"]):
            continue
        # the helper is given this step's slate
        if not any(vf.has_field(vf.origins(f, a), LW + "slate::Slate", "id") or "slate::Slate" in (f.locals[vf.op_place(a)[0]]["ty"] if vf.op_place(a) else "") for a in t["a"]):
            continue
        g = cfg.call_guard(f, b)
        eb = set(ctx.eff.effect_blocks(f))
        held = h and bool(g.ok) and cfg.must_pass(f, g.ok, eb)[0]
        winfo["via_helper"] = pp.short(w.id)
        return held, winfo
    return False, info


def rollback_scope(ctx, rid, fn, fid):
    """tx::cancel_tx hands exactly this transaction's outputs of this account to the rollback
    (C05.R2; also a clause of C03: cancelling one transaction must not release another's reservation)."""
    run = ctx.run
    UPD = c.LW + "internal::updater::"
    ro = cfg.find_calls(fn, UPD + "retrieve_outputs")
    held = False
    detail = ""
    if len(ro) == 1:
        b, t = ro[0]
        o_txid = vf.origins(fn, t["a"][3])
        o_acct = vf.origins(fn, t["a"][4])
        held_id = vf.has_field(o_txid, c.LW + "types::TxLogEntry", "id") and ("agg", "core::option::Option", "Some") in o_txid
        held_acct = ("arg", 3) in o_acct and ("agg", "core::option::Option", "Some") in o_acct
        run.instance(rid, {"fn": "tx::cancel_tx", "obligation": "retrieve_outputs(tx_id = Some(tx.id) of the retrieved entry)"}, held=held_id)
        run.instance(rid, {"fn": "tx::cancel_tx", "obligation": "retrieve_outputs(parent_key_id = Some(the account parameter))"}, held=held_acct)
        if not held_id:
            run.finding(Finding(rid, fid, "retrieve_outputs tx_id argument is not Some(tx.id)", site=c.site_of(fn, b), detail=str(sorted(map(str, o_txid)))[:300]))
        if not held_acct:
            run.finding(Finding(rid, fid, "retrieve_outputs account argument is not the parent_key_id parameter", site=c.site_of(fn, b)))
        # outputs passed derive from that call
        for cb, ct in cfg.find_calls(fn, UPD + "cancel_tx_and_outputs"):
            oo = vf.origins(fn, ct["a"][3])
            h = vf.has_call(oo, UPD + "retrieve_outputs") and not vf.has_call(oo, c.WB + "iter")
            run.instance(rid, {"fn": "tx::cancel_tx", "obligation": "outputs handed to cancel_tx_and_outputs derive from that retrieve_outputs call"}, held=h)
            if not h:
                run.finding(Finding(rid, fid, "outputs handed to cancel_tx_and_outputs do not derive from retrieve_outputs(Some(tx.id))", site=c.site_of(fn, cb)))
            ot = vf.origins(fn, ct["a"][2])
            h = vf.has_call(ot, UPD + "retrieve_txs")
            run.instance(rid, {"fn": "tx::cancel_tx", "obligation": "the log entry handed on is the one retrieved"}, held=h)
            if not h:
                run.finding(Finding(rid, fid, "log entry handed to cancel_tx_and_outputs is not the retrieved one", site=c.site_of(fn, cb)))
    else:
        run.error("%s: expected exactly one retrieve_outputs call in cancel_tx, found %d" % (rid, len(ro)))



def amount_restored(ctx, rid):
    """repopulate_tx overwrites the counterparty's slate.amount with the wallet's own context.amount on every
    path to Ok, and the send arm of finalize_tx runs it before complete_tx (C02.R3; also C11: the payment-proof
    message is built from slate.amount)."""
    run = ctx.run
    SEL = c.LW + "internal::selection::"
    rp = ctx.fn(SEL + "repopulate_tx")
    if not rp:
        return
    asg = [(b, s_) for b, s_ in vf.field_assignments(rp, c.LW + "slate::Slate", "amount")
           if s_["r"]["k"] == "use" and vf.has_field(vf.producers(rp, s_["r"]["o"]), c.LW + "types::Context", "amount")]
    e = {(b, x) for b, _s in asg for x in rp.succ(b)}
    h = bool(e) and cfg.must_pass(rp, e, cfg.return_blocks(rp), cut_nodes=cfg.error_return_blocks(rp))[0]
    run.instance(rid, {"fn": "repopulate_tx", "obligation": "slate.amount := context.amount on every path to Ok (not only for some incoming amounts)"}, held=h)
    if not h:
        run.finding(Finding(rid, rp.id, "repopulate_tx can return Ok without restoring slate.amount from the context", site=rp.loc()))


def writes_committed(ctx, rid, only_fns=None, only_effects=None):
    """No write is silently lost: every write placed on a batch the function itself opened is followed by that
    batch's commit() Ok on every path to an Ok return (an uncommitted LMDB batch is aborted when dropped)."""
    from ..callgraph import WOB, EFFECTS, non_production

    run = ctx.run
    W = [k for k in EFFECTS if k.startswith(WOB) and not k.endswith("::commit") and not k.endswith("::next_tx_log_id")]
    n = 0
    for fid, f in sorted(ctx.db.fns.items()):
        if non_production(fid) or (only_fns and fid not in only_fns):
            continue
        effs = [(b, t) for b, t in f.calls() if t.get("f") in W and (not only_effects or t["f"].split("::")[-1] in only_effects)]
        if not effs:
            continue
        ce = set()
        for b, _t in cfg.find_calls(f, WOB + "commit"):
            ce |= cfg.call_guard(f, b).ok
        okr = cfg.return_blocks(f)
        err = cfg.error_return_blocks(f)
        for b, t in effs:
            pr = vf.producers(f, t["a"][0])
            if any(x[0] == "arg" for x in pr) and not any(x[0] == "call" and x[1].endswith("::batch") for x in pr):
                continue  # the batch belongs to the caller, who commits it
            par = cfg.reach(f, starts=[t["t"]], cut_edges=ce, cut_nodes=err)
            held = not any(r in par for r in okr)
            n += 1
            run.instance(rid, {"fn": pp.short(fid), "write": t["f"].split("::")[-1], "site": c.site_of(f, b), "obligation": "followed by commit() Ok before any Ok return"}, held=held)
            if not held:
                run.finding(Finding(rid, fid, "%s is written to a batch that can be dropped without commit() before Ok is returned (the write is lost)" % t["f"].split("::")[-1], site=c.site_of(f, b)))
    return n


def refresh_transitions(ctx, rid):
    """apply_api_outputs moves an output to Unspent exactly when the node still reports it and to Spent / Reverted
    exactly when it does not, and saves the record afterwards."""
    run = ctx.run
    UPD = c.LW + "internal::updater::"
    OD = c.LW + "types::OutputData"
    ap = ctx.fn(UPD + "apply_api_outputs")
    if not ap:
        return
    mr = cfg.find_calls(ap, OD + "::mark_reverted")
    ms = cfg.find_calls(ap, OD + "::mark_spent")
    mu = cfg.find_calls(ap, OD + "::mark_unspent")
    if len(mr) != 1 or len(ms) != 1 or len(mu) != 1:
        run.error("%s: expected exactly one mark_reverted / mark_spent / mark_unspent call in apply_api_outputs" % rid)
        return
    g_api = None
    api_p = c.param(ap, "api_outputs", "(alloc::string::String, u64, u64)")
    for b, t in ap.calls():
        if "HashMap::" in (t.get("f") or "") and (t.get("f") or "").endswith("::get"):
            if any(x[0] == "arg" and x[1] == api_p for x in vf.producers(ap, t["a"][0])):
                g_api = cfg.call_guard(ap, b)
    held = g_api is not None and bool(g_api.ok) and bool(g_api.fail)
    if held:
        held = cfg.must_pass(ap, g_api.ok, {mu[0][0]})[0] and cfg.must_pass(ap, g_api.fail, {ms[0][0], mr[0][0]})[0]
        # and on each edge one of the transitions is always taken before the record is saved
        sv = {b for b, _t in cfg.find_calls(ap, c.WOB + "save")}
        for edges, marks in ((g_api.ok, {mu[0][0]}), (g_api.fail, {ms[0][0], mr[0][0]})):
            par = cfg.reach(ap, starts=[d for (_s, d) in edges], cut_nodes=marks | cfg.error_return_blocks(ap))
            if any(b in par for b in sv):
                held = False
    run.instance(rid, {"fn": "apply_api_outputs", "obligation": "reported by the node => mark_unspent; absent => mark_spent or mark_reverted; then saved"}, held=held)
    if not held:
        run.finding(Finding(rid, ap.id, "refresh does not move outputs to Unspent / Spent according to the node's answer", site=ap.loc()))
    # the height the node reports is taken over on every reported record (a re-mined output changes height
    # without ever being seen missing)
    if g_api is not None and g_api.ok:
        hb = {b for b, _st in vf.field_assignments(ap, OD, "height")}
        sv = {b for b, _t in cfg.find_calls(ap, c.WOB + "save")}
        par = cfg.reach(ap, starts=[d for (_s, d) in g_api.ok], cut_nodes=hb | cfg.error_return_blocks(ap))
        h2 = bool(hb) and not any(b in par for b in sv)
        run.instance(rid, {"fn": "apply_api_outputs", "obligation": "a record the node reports takes the reported height before it is saved"}, held=h2)
        if not h2:
            run.finding(Finding(rid, ap.id, "a record reported by the node can be saved without taking the reported height (a re-mined output keeps its old height, its confirmations are miscounted)", site=ap.loc()))


def refresh_not_skipped(ctx, rid):
    """apply_api_outputs gives up (without writing) exactly when the node is *behind* the wallet
    (height < last_confirmed_height): not when it is merely level - a refresh at an unchanged tip must still
    apply what the node reports (e.g. a reorganisation at equal height) - and never when it is ahead."""
    run = ctx.run
    ap = ctx.fn(c.LW + "internal::updater::apply_api_outputs")
    if not ap:
        return
    fl = vf.get_flow(ap)
    hc = [x for x in cfg.comparisons(ap) if x.op in ("Lt", "Ge", "Gt", "Le") and vf.has_call(vf.producers(ap, x.l) | vf.producers(ap, x.r), c.WB + "last_confirmed_height")]
    held = len(hc) == 1
    why = "comparison with last_confirmed_height not found"
    if held:
        x = hc[0]
        op = x.normalized(lambda o: any(a[0] == "arg" for a in o) and not vf.has_call(o, c.WB + "last_confirmed_height"), lambda o: vf.has_call(o, c.WB + "last_confirmed_height"), fl)
        plain = all(not any(y[0] == "binop" for y in vf.producers(ap, side)) for side in (x.l, x.r))
        if not plain:
            op = None
        behind = x.true_edges if op == "Lt" else (x.false_edges if op == "Ge" else None)
        held = behind is not None
        why = "the early return is taken for `height %s last_confirmed_height` (expected <)" % op
        if held:
            starts = [d for (_s, d) in behind]
            par = cfg.reach(ap, starts=starts)
            eb = ctx.eff.effect_blocks(ap)
            bt = {b for b, _t in cfg.find_calls(ap, c.WB + "batch")}
            held = not any(b in par for b in eb) and not any(b in par for b in bt)
            why = "effects are reachable on the node-is-behind edge"
    run.instance(rid, {"fn": "apply_api_outputs", "obligation": "height < last_confirmed_height (strictly) => return without opening a batch; otherwise the node's answer is applied"}, held=held)
    if not held:
        run.finding(Finding(rid, ap.id, "refresh writes although the node height is below the wallet's confirmed height", site=ap.loc(), detail=why))


def was_unspent_flag(ctx, rid):
    """map_wallet_outputs hands the revert detection a flag that is exactly (status == Unspent): only an output that
    was confirmed-unspent and has vanished from the node can make its transaction a revert candidate."""
    run = ctx.run
    OD = c.LW + "types::OutputData"
    mw = ctx.fn(c.LW + "internal::updater::map_wallet_outputs")
    if not mw:
        return
    tl = [st for bb in mw.bbs for st in bb["s"] if st["k"] == "a" and st["r"]["k"] == "agg" and st["r"].get("ak") == "tuple" and len(st["r"]["f"]) == 4]
    h = False
    if len(tl) == 1:
        o4 = tl[0]["r"]["f"][3][1]
        l4 = vf.strip_clones(mw, o4)
        for x in cfg.comparisons(mw):
            if x.dest == l4 or (x.is_call and vf.strip_clones(mw, {"c": [x.dest, []]}) == l4):
                pl, pr = vf.producers(mw, x.l), vf.producers(mw, x.r)
                for a, b_ in ((pl, pr), (pr, pl)):
                    if x.op == "Eq" and vf.has_field(a, OD, "status") and ("agg", c.LW + "types::OutputStatus", "Unspent") in b_:
                        h = True
    run.instance(rid, {"fn": "map_wallet_outputs", "obligation": "the 'was unspent' flag handed to the revert detection is (status == Unspent)"}, held=h)
    if not h:
        run.finding(Finding(rid, mw.id, "the 'was unspent' flag of the refresh map is not (status == Unspent)", site=mw.loc()))


def fresh_random(f, o):
    """operand o is (only) the result of rand::Rng::gen() on thread_rng()"""
    pn = vf.producers(f, o)
    gens = [y for y in pn if y[0] == "call" and y[1] == "rand::Rng::gen"]
    if len(gens) != 1 or len(pn) != 1:
        return False
    gt = f.bbs[gens[0][2]]["t"]
    pg = vf.producers(f, gt["a"][0])
    return bool(pg) and all(y[0] == "call" and y[1] == "rand::rngs::thread::thread_rng" for y in pg)


def flow_tied_entry(ctx, rid):
    """update_stored_tx(is_invoiced) picks a TxSent entry iff !is_invoiced, a TxReceived entry iff is_invoiced, and fails without one."""
    run = ctx.run
    us = ctx.fn(c.LW + "internal::tx::update_stored_tx")
    if us:
        TLT_ = c.LW + "types::TxLogEntryType"
        ip = c.param(us, "is_invoiced", "bool")
        gi = cfg.local_guard(us, ip) if ip is not None else None
        cmpx = {}
        for x in cfg.comparisons(us):
            if x.op != "Eq":
                continue
            pl, pr = vf.producers(us, x.l), vf.producers(us, x.r)
            for a, b_ in ((pl, pr), (pr, pl)):
                if vf.has_field(a, c.LW + "types::TxLogEntry", "tx_type"):
                    for lit in ("TxSent", "TxReceived"):
                        if ("agg", TLT_, lit) in b_:
                            cmpx[lit] = x
        picks = [b for b, bb in enumerate(us.bbs) if not bb["cleanup"] for st in bb["s"] if st["k"] == "a" and st["r"]["k"] == "agg" and st["r"].get("adt") == "core::option::Option" and st["r"].get("var") == "Some" and us.locals[st["d"][0]]["ty"].startswith("core::option::Option<" + c.LW + "types::TxLogEntry")]
        if picks and "TxSent" not in cmpx:
            run.instance(rid, {"fn": "update_stored_tx", "obligation": "the sender's entry is selected by an equality test with TxSent"}, held=False)
            run.finding(Finding(rid, us.id, "the sender's log entry is no longer selected by `tx_type == TxSent`: an entry of another type - a cancelled send (TxSentCancelled), whose context cancel_tx leaves in the store - is finalized by a late reply, although its inputs were released and may be reserved by another live send", site=us.loc()))
        elif gi is None or not gi.ok or not gi.fail or len(cmpx) != 2 or not picks:
            run.error("%s: update_stored_tx anchors not found (is_invoiced switch %s, type comparisons %s, selections %d)" % (rid, bool(gi and gi.ok), sorted(cmpx), len(picks)))
        else:
            for b in picks:
                sent = cfg.must_pass(us, cmpx["TxSent"].true_edges, {b})[0] and cfg.must_pass(us, gi.fail, {b})[0]
                recv = cfg.must_pass(us, cmpx["TxReceived"].true_edges, {b})[0] and cfg.must_pass(us, gi.ok, {b})[0]
                h = sent != recv
                run.instance(rid, {"fn": "update_stored_tx", "obligation": "entry selected only as (TxSent and !is_invoiced) or (TxReceived and is_invoiced)", "site": c.site_of(us, b), "as": "send" if sent else ("invoice" if recv else "?")}, held=h)
                if not h:
                    run.finding(Finding(rid, us.id, "the log entry to finalize is selected without tying its type to the flow (a reply re-labelled Standard2 <-> Invoice2 would be finalized in the other flow)", site=c.site_of(us, b)))
        # and no entry => error
        h = False
        for l in range(us.argc + 1, len(us.locals)):
            if us.locals[l].get("u") and us.locals[l]["ty"].startswith("core::option::Option<" + c.LW + "types::TxLogEntry"):
                go = cfg.local_guard(us, l, kind="option")
                if go.ok and cfg.must_pass(us, go.ok, cfg.return_blocks(us), cut_nodes=cfg.error_return_blocks(us))[0]:
                    h = True
        run.instance(rid, {"fn": "update_stored_tx", "obligation": "Ok only if an entry was selected"}, held=h)
        if not h:
            run.finding(Finding(rid, us.id, "update_stored_tx can return Ok without having found the entry of this flow", site=us.loc()))

def reservation_recheck(ctx, rid):
    """lock_tx_context re-reads every input and reserves it only if it is neither Locked, Spent nor Reverted."""
    run = ctx.run
    SEL = c.LW + "internal::selection::"
    OD = c.LW + "types::OutputData"
    OS = c.LW + "types::OutputStatus"
    lk = ctx.fn(SEL + "lock_tx_context")
    if lk:
        fl = vf.get_flow(lk)
        locks = cfg.find_calls(lk, c.WOB + "lock_output")
        if not locks:
            run.error("%s: lock_output not called in lock_tx_context" % rid)
        for b, t in locks:
            coin = vf.strip_clones(lk, t["a"][1])
            # guards: comparisons / eligible_to_spend calls over the coin's status that dominate the lock
            edges_ok = set()
            needed = {"Locked": False, "Spent": False, "Reverted": False}
            for x in cfg.comparisons(lk):
                if x.op not in ("Eq", "Ne"):
                    continue
                lo, ro = fl.of_operand(x.l), fl.of_operand(x.r)
                for a, bb_ in ((x.l, ro), (x.r, lo)):
                    pa = vf.producers(lk, a)
                    base_ok = vf.has_field(pa, OD, "status") and vf.has_call(pa | fl.of_operand(a), c.WOB + "get")
                    if not base_ok:
                        continue
                    for st in list(needed):
                        if ("agg", OS, st) in bb_:
                            ne = x.false_edges if x.op == "Eq" else x.true_edges
                            if ne and cfg.must_pass(lk, ne, {b})[0]:
                                needed[st] = True
            el = [(eb, et) for eb, et in cfg.find_calls(lk, OD + "::eligible_to_spend")]
            for eb, et in el:
                g = cfg.call_guard(lk, eb)
                if g.ok and cfg.must_pass(lk, g.ok, {b})[0] and vf.has_call(vf.origins(lk, et["a"][0]), c.WOB + "get"):
                    needed = {k: True for k in needed}
            # white-list form: the lock is reached only on `status == Unspent` / `status == Unconfirmed` edges
            wl = set()
            for x in cfg.comparisons(lk):
                if x.op not in ("Eq", "Ne"):
                    continue
                lo, ro = fl.of_operand(x.l), fl.of_operand(x.r)
                for a, bb_ in ((x.l, ro), (x.r, lo)):
                    pa = vf.producers(lk, a)
                    if vf.has_field(pa, OD, "status") and vf.has_call(pa | fl.of_operand(a), c.WOB + "get") and (("agg", OS, "Unspent") in bb_ or ("agg", OS, "Unconfirmed") in bb_):
                        wl |= (x.true_edges if x.op == "Eq" else x.false_edges)
            if wl and cfg.must_pass(lk, wl, {b})[0]:
                needed = {k: True for k in needed}
            held = all(needed.values())
            only_rev = held is False and needed["Locked"] and needed["Spent"] and not needed["Reverted"]
            run.instance(rid, {"fn": "lock_tx_context", "obligation": "lock_output(coin) only for a freshly read coin that is neither Locked, Spent nor Reverted", "guards": needed}, held=held)
            if only_rev:
                run.finding(Finding(rid, lk.id, "an input that a scan has marked Reverted since it was selected is still reserved: the re-check of the freshly read record does not refuse Reverted", site=c.site_of(lk, b)))
            elif not held:
                run.finding(Finding(rid, lk.id, "inputs are locked without re-checking that the freshly read output is still unreserved", site=c.site_of(lk, b),
                                    detail="selection checked eligibility when the context was built; the lock step reads the record again (batch.get) but does not look at its status: %s" % needed))
            # the coin locked is the one read by batch.get for the context's input ids
            o = vf.origins(lk, t["a"][1])
            h = vf.has_call(o, c.WOB + "get") and vf.has_call(o, c.LW + "types::Context::get_inputs")
            run.instance(rid, {"fn": "lock_tx_context", "obligation": "the locked coin is batch.get(id) for id in context.get_inputs()"}, held=h)
            if not h:
                run.finding(Finding(rid, lk.id, "locked coin is not the record read for the context's input ids", site=c.site_of(lk, b)))

def expiry_step_scope(ctx, rid, which):
    """Step 5 of update_wallet_state (TTL expiry) cancels only entries that are unconfirmed and were never confirmed."""
    run = ctx.run
    u3 = ctx.fn(c.LW + "api_impl::owner::update_wallet_state")
    if u3 is None:
        run.error("%s: update_wallet_state not found" % rid)
    else:
        TLE = c.LW + "types::TxLogEntry"
        TLT = c.LW + "types::TxLogEntryType"
        cb3 = {b for b, _t in cfg.find_calls(u3, c.LW + "internal::tx::cancel_tx")}
        # (a) the `confirmed == false` edge
        unconf = set()
        for b, bb in enumerate(u3.bbs):
            t = bb["t"]
            if t["k"] != "sw":
                continue
            ol = vf.op_place(t["o"])
            for st in bb["s"]:
                if st["k"] == "a" and ol and st["d"] == [ol[0], []]:
                    r = st["r"]
                    q = vf.op_place(r["o"]) if r["k"] == "use" else None
                    neg = False
                    if r["k"] == "un" and r["op"] == "Not":
                        q0 = vf.op_place(r["o"])
                        for st2 in bb["s"]:
                            if st2["k"] == "a" and q0 and st2["d"] == [q0[0], []] and st2["r"]["k"] == "use":
                                q = vf.op_place(st2["r"]["o"])
                                neg = True
                    if q and q[1] and isinstance(q[1][-1], dict) and q[1][-1].get("a") == TLE and q[1][-1].get("n") == "confirmed":
                        zero = {tb for v, tb in t["t"] if v == "0"}
                        for s_ in u3.succ(b):
                            if (s_ in zero) != neg:
                                unconf.add((b, s_))
        h1 = "confirmed" not in which or (bool(unconf) and bool(cb3) and cfg.must_pass(u3, unconf, cb3)[0])
        if "confirmed" in which:
            run.instance(rid, {"fn": "update_wallet_state", "obligation": "step-5 cancel only on the `!tx.confirmed` edge (the list carries what the kernel step just confirmed)", "edges": len(unconf)}, held=h1)
        if not h1:
            run.finding(Finding(rid, u3.id, "the expiry step tries to cancel an entry the same refresh has just confirmed: the whole refresh fails with TransactionNotCancellable", site=u3.loc()))
        # (b) not TxReverted
        notrev = set()
        fl3 = vf.get_flow(u3)
        for x in cfg.comparisons(u3):
            if x.op not in ("Eq", "Ne"):
                continue
            lo, ro = fl3.of_operand(x.l) | vf.producers(u3, x.l), fl3.of_operand(x.r) | vf.producers(u3, x.r)
            for a, b_ in ((lo, ro), (ro, lo)):
                if vf.has_field(a, TLE, "tx_type") and ("agg", TLT, "TxReverted") in b_:
                    notrev |= (x.false_edges if x.op == "Eq" else x.true_edges)
        h2 = "reverted" not in which or (bool(notrev) and bool(cb3) and cfg.must_pass(u3, notrev, cb3)[0])
        if "reverted" in which:
            run.instance(rid, {"fn": "update_wallet_state", "obligation": "step-5 cancel only for an entry that is not TxReverted", "edges": len(notrev)}, held=h2)
        if not h2:
            run.finding(Finding(rid, u3.id, "the expiry step cancels a payment that was confirmed once and reorganised away (TxReverted) and deletes its output: when it is mined again the entry stays cancelled", site=u3.loc()))


def log_id_account(ctx, rid, only=None):
    """A log id is drawn from the counter of the account the entry is saved under (entries are keyed by (account, id):
    an id from another account's counter overwrites an existing entry of the destination account)."""
    from ..callgraph import non_production
    run = ctx.run
    n = 0
    for fid, f in sorted(ctx.db.fns.items()):
        if non_production(fid) or (only and fid not in only):
            continue
        nx = cfg.find_calls(f, c.WOB + "next_tx_log_id")
        sv = cfg.find_calls(f, c.WOB + "save_tx_log_entry")
        if not nx or not sv:
            continue
        n += 1
        def acct(o):
            bl = vf.base_local_of_ref(f, o)
            return (bl, frozenset(vf.producers(f, o)))
        ids = {acct(t["a"][1]) for _b, t in nx}
        svs = {acct(t["a"][2]) for _b, t in sv}
        held = len(ids) == 1 and ids == svs
        run.instance(rid, {"fn": pp.short(fid), "obligation": "next_tx_log_id(account) and save_tx_log_entry(.., account) name the same account operand"}, held=held)
        if not held:
            run.finding(Finding(rid, fid, "the log id is drawn from the counter of another account than the one the entry is saved under: with a non-active destination the new entry overwrites an existing entry of that account", site=c.site_of(f, nx[0][0])))
    return n


def released_as_unspent(f, save_block, save_term):
    """The record written by this save was set to Unspent by a plain field assignment that every path to the save passes
    (OutputData::mark_unspent() only acts on Unconfirmed / Reverted records: it leaves a Locked one as it is)."""
    OD = c.LW + "types::OutputData"
    OS = c.LW + "types::OutputStatus"
    rec = vf.strip_clones(f, save_term["a"][1])
    blocks = set()
    for b, st in vf.field_assignments(f, OD, "status"):
        if st["d"][0] != rec:
            continue
        r = st["r"]
        lit = None
        if r["k"] == "agg" and r.get("adt") == OS:
            lit = r.get("var")
        elif r["k"] == "use":
            lits = {y[2] for y in vf.producers(f, r["o"]) if y[0] == "agg" and y[1] == OS}
            lit = next(iter(lits)) if len(lits) == 1 else None
        if lit == "Unspent":
            blocks.add(b)
    if not blocks:
        return False
    par = cfg.reach(f, cut_nodes=frozenset(blocks))
    return save_block not in par



def refreshed_before(f, sinks, refresh_calls, loop_iter_pat=None):
    """True iff every entry->sink path of f passed the Ok edge of one of `refresh_calls` ([(bb, term)]).
    Also accepts the loop form: the refresh sits in a `for` loop (over an iterator matching loop_iter_pat, if given)
    that every path to the sinks goes through, every iteration passes the refresh's Ok edge and its failure
    does not reach the sinks (a wallet has at least one account)."""
    edges = set()
    for b, _t in refresh_calls:
        edges |= cfg.call_guard(f, b).ok
    if not sinks or not edges:
        return False
    if cfg.must_pass(f, edges, sinks)[0]:
        return True
    for h, ht in f.calls():
        if not (ht.get("f") or "").endswith("Iterator::next"):
            continue
        if loop_iter_pat is not None and not vf.has_call(vf.origins(f, ht["a"][0]) | vf.producers(f, ht["a"][0]), loop_iter_pat):
            continue
        if any(s_ in cfg.reach(f, cut_nodes=frozenset({h})) for s_ in sinks):
            continue  # a path to the sinks that never reaches the loop
        body = cfg.reach(f, starts=tuple(f.succ(h)), cut_nodes=frozenset({h}))
        inloop = [(b, t) for b, t in refresh_calls if b in body and h in cfg.reach(f, starts=[b])]
        if not inloop:
            continue
        ok = set()
        for b, _t in inloop:
            ok |= cfg.call_guard(f, b).ok
        # an iteration that comes back to the loop head without the refresh's Ok edge? (the None side leaves the
        # loop and never comes back to the head, so any path back to the head is an iteration)
        skipped = h in cfg.reach(f, starts=tuple(f.succ(h)), cut_edges=ok)
        # a failed refresh that still reaches the sinks?
        leak = any(s_ in cfg.reach(f, starts=[b], cut_edges=ok, cut_nodes=frozenset({h})) for b, _t in inloop for s_ in sinks)
        if not skipped and not leak:
            return True
    return False



def refresh_account_consistency(ctx, rid):
    """update_wallet_state collects the outstanding entries of the account that is active when it starts and
    releases the wallet lock between its steps: the steps that write (the kernel step's save, the expiry step's
    cancel) must name the account the entries belong to - the entry's own parent_key_id, or the same read of the
    active account that collected them - not a second read of w.parent_key_id() (log ids are per account)."""
    run = ctx.run
    OWN = c.LW + "api_impl::owner::"
    PK = c.WB + "parent_key_id"
    TLE = c.LW + "types::TxLogEntry"

    def _reads(f, o):
        org = vf.origins(f, o)
        return {x[2] for x in org if x[0] in ("call", "mutcall") and cfg.match_name(x[1], PK)}, vf.has_field(org, TLE, "parent_key_id")

    uws = ctx.fn(OWN + "update_wallet_state")
    utk = ctx.fn(OWN + "update_txs_via_kernel")
    if uws is None or utk is None:
        run.error("%s: update_wallet_state / update_txs_via_kernel not found" % rid)
        return
    collect = set()
    for b, t in cfg.find_calls(uws, c.LW + "internal::updater::retrieve_txs"):
        collect |= _reads(uws, t["a"][4])[0]
    n = 0
    for f, pat, ai, what in ((uws, c.LW + "internal::tx::cancel_tx", 2, "the expiry step cancels"), (utk, c.WOB + "save_tx_log_entry", 2, "the kernel step saves"), (uws, c.WOB + "save_tx_log_entry", 2, "the refresh saves")):
        for b, t in cfg.find_calls(f, pat):
            n += 1
            reads, from_entry = _reads(f, t["a"][ai])
            allowed = collect if f is uws else set()
            held = reads <= allowed
            run.instance(rid, {"fn": pp.short(f.id), "obligation": "%s under the account the entry was collected from" % what, "site": c.site_of(f, b), "account from the entry": from_entry, "fresh reads of the active account": len(reads - allowed)}, held=held)
            if not held:
                run.finding(Finding(rid, f.id, "%s an entry under a fresh read of the active account, not under the account the entry was collected from: if the active account is switched while a refresh is running (updater thread, second client), the entry with the same id in the other account is hit (log ids are per account)" % what, site=c.site_of(f, b)))
    if n < 2:
        run.error("%s: expected the cancel of the expiry step and the save of the kernel step, found %d sites" % (rid, n))


def stored_record_required_fields(ctx, adt):
    """Fields a stored (JSON) record of type `adt` must carry to decode, read off the derived Deserialize visitor:
    `de::Error::missing_field(name)` (a `with` field without `default`) or the private missing_field helper for a
    type that is not an Option. None if the visitor is not found."""
    db = ctx.db
    ks = [k for k in db.fns if ("for %s>" % adt) in k and k.endswith("::visit_map") and "serde::de::Deserialize" in k]
    if len(ks) != 1:
        return None
    f = db.fns[ks[0]]
    req = set()
    for b, t in f.calls():
        n = t.get("f") or ""
        if not n.endswith("missing_field") or not t["a"] or "k" not in t["a"][0]:
            continue
        name = (t["a"][0]["k"].get("t") or "").strip('"')
        if n == "serde::de::Error::missing_field" or not (t.get("dty") or "").startswith("core::result::Result<core::option::Option<"):
            req.add(name)
    return req


def option_field_none_edges(f, adt, field):
    """CFG edges of f on which `<adt>.<field>` (an Option) is known to be None: the not-Some successors of a
    discriminant switch on it, the false edges of is_some(), the true edges of is_none()."""
    none_edges = set()
    for b, bb in enumerate(f.bbs):
        for st in bb["s"]:
            if st["k"] == "a" and st["r"]["k"] == "disc":
                q = st["r"]["p"]
                if q[1] and isinstance(q[1][-1], dict) and q[1][-1].get("a") == adt and q[1][-1].get("n") == field and not st["d"][1]:
                    t = bb["t"]
                    if t["k"] == "sw" and vf.op_place(t["o"]) and vf.op_place(t["o"])[0] == st["d"][0]:
                        some = {tb for v, tb in t["t"] if v == "1"}
                        for s_ in f.succ(b):
                            if s_ not in some:
                                none_edges.add((b, s_))
    for b, t in f.calls():
        fnm = t.get("f") or ""
        if fnm.endswith(("Option::<T>::is_some", "Option::<T>::is_none")) and vf.has_field(vf.producers(f, t["a"][0]) | vf.origins(f, t["a"][0]), adt, field):
            g_ = cfg.call_guard(f, b)
            none_edges |= (g_.fail if fnm.endswith("is_some") else g_.ok)
    return none_edges


def option_value_none_edges(f, is_src):
    """CFG edges of f on which an Option *value* (a local of type Option<..> whose precise producers - looked through
    `?` and moves, not through calls such as unwrap_or - satisfy is_src) is known to be None: not-Some successors of a discriminant switch on it, false edges of is_some(), true edges of is_none()."""
    none_edges = set()
    for b, bb in enumerate(f.bbs):
        for st in bb["s"]:
            if st["k"] == "a" and st["r"]["k"] == "disc" and not st["d"][1]:
                q = st["r"]["p"]
                if not (f.locals[q[0]]["ty"] or "").startswith("core::option::Option<") or any(e != "*" for e in q[1]):
                    continue
                if not is_src(vf.producers(f, {"c": [q[0], []]})):
                    continue
                t = bb["t"]
                if t["k"] == "sw" and vf.op_place(t["o"]) and vf.op_place(t["o"])[0] == st["d"][0]:
                    some = {tb for v, tb in t["t"] if v == "1"}
                    for s_ in f.succ(b):
                        if s_ not in some:
                            none_edges.add((b, s_))
    for b, t in f.calls():
        fnm = t.get("f") or ""
        if fnm.endswith(("Option::<T>::is_some", "Option::<T>::is_none")) and is_src(vf.producers(f, t["a"][0])):
            g_ = cfg.call_guard(f, b)
            none_edges |= (g_.fail if fnm.endswith("is_some") else g_.ok)
    return none_edges


def next_child_one_account(ctx, rid):
    """LMDBBackend::next_child reads the counter, builds the path and saves the counter for one and the same account
    operand (C15.R2; under C07: a receive into a non-active account must not be keyed by another account's counter -
    it would overwrite an existing record of the destination account)."""
    run = ctx.run
    nc = "<grin_wallet_impls::backends::lmdb::LMDBBackend<'ck, C, K> as grin_wallet_libwallet::types::WalletBackend<'ck, C, K>>::next_child"
    f = ctx.fn(nc)
    if f is None:
        run.error("%s: LMDBBackend::next_child not found" % rid)
        return
    accts = []
    for b, t in f.calls():
        n_ = t.get("f") or ""
        if n_ == "grin_keychain::types::Identifier::to_bytes" or n_ == "grin_keychain::types::Identifier::to_path":
            accts.append((n_.split("::")[-1], frozenset(vf.producers(f, t["a"][0]))))
        elif n_ == c.WOB + "save_child_index":
            accts.append(("save_child_index", frozenset(vf.producers(f, t["a"][1]))))
    kinds = {k for k, _p in accts}
    held = kinds == {"to_bytes", "to_path", "save_child_index"} and len({p_ for _k, p_ in accts}) == 1
    run.instance(rid, {"fn": "LMDBBackend::next_child", "obligation": "counter read, path built and counter saved for one and the same account", "operands": [(k, sorted(map(str, p_))) for k, p_ in accts]}, held=held)
    if not held:
        run.finding(Finding(rid, nc, "next_child reads / derives / bumps under different accounts (the counter of one account, the path of another): a receive into another account is keyed at an index that account has used already and overwrites its record", site=f.loc()))


def cli_id_not_narrowed(ctx, rid, fn_names):
    """The log id the user types is the id the command acts on: in the CLI argument parsers the value parsed as u64
    is not cut down with `as u32` (4294967302 would name entry 6)."""
    run = ctx.run
    n = 0
    for name in fn_names:
        fid = "grin_wallet::cmd::wallet_args::" + name
        f = ctx.fn(fid)
        if f is None:
            run.error("%s: %s not found" % (rid, fid))
            continue
        n += 1
        bad = []
        for b, bb in enumerate(f.bbs):
            for st in bb["s"]:
                if st["k"] != "a" or st["r"]["k"] != "cast" or st["r"].get("ck") != "IntToInt" or st["r"].get("ty") not in ("u32", "u16", "u8"):
                    continue
                pl = vf.op_place(st["r"]["o"])
                if pl is None or f.locals[pl[0]]["ty"] != "u64":
                    continue
                if vf.has_call(vf.origins(f, st["r"]["o"]) | vf.producers(f, st["r"]["o"]), "*wallet_args::parse_u64"):
                    bad.append(b)
        run.instance(rid, {"fn": pp.short(fid), "obligation": "the parsed id is not cut down to 32 bits", "narrowing casts of a parsed u64": len(bad)}, held=not bad)
        if bad:
            run.finding(Finding(rid, fid, "the id typed on the command line is parsed as u64 and cut down with `as u32`: an id that does not exist (4294967296 + n) silently names entry n", site=c.site_of(f, bad[0])))
    return n


def test_rng_roots(ctx, rid, sinks, what):
    """Every value that reaches the use_test_rng parameter of the given sinks is the literal false (or is switched
    by doctest_mode, which the production constructors set to false): the test RNG is a fixed sequence."""
    from ..flags import FlagRoots
    run = ctx.run
    db = ctx.db
    fr = FlagRoots(ctx)
    roots = set()
    for fid, pname in sinks:
        f = db.fns.get(fid)
        if not f:
            run.error("%s: sink %s not found" % (rid, fid))
            continue
        for n, p, a in f.vars:
            if n == pname and a > 0 and not p[1]:
                for r in fr.roots_of_operand(f, {"c": [p[0], []]}):
                    roots.add((fid.split("::")[-1],) + r)
    for sink, kind, val, fid, site in sorted(roots):
        held = kind == "const" and val in ("0", "1-under-false-flag")
        run.instance(rid, {"sink": sink, "root": "%s %s" % (kind, pp.short(str(val))), "in": pp.short(fid)}, held=held)
        if not held:
            run.finding(Finding(rid, fid, "use_test_rng of %s has root %s %s: %s" % (sink, kind, pp.short(str(val)), what), site=site))
    return len(roots)
