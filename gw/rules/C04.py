"""C04 - After refresh the wallet's books equal the chain's truth (structural clauses)."""
from . import common as c
from .. import cfg, dectree, valueflow as vf, pp
from ..callgraph import non_production, STATE_EFFECTS
from ..engine import Finding

UPD = c.LW + "internal::updater::"
SEL = c.LW + "internal::selection::"
OD = c.LW + "types::OutputData"
TLE = c.LW + "types::TxLogEntry"
LM = c.IMPLS + "backends::lmdb::"

# every production consumer of WalletBackend::iter / tx_log_iter (and the batch equivalents)
ITER_CONSUMERS = {
    SEL + "select_coins": ("account", "selection candidates"),
    UPD + "map_wallet_outputs": ("account", "outputs to refresh"),
    UPD + "retrieve_info": ("account", "balance summary"),
    UPD + "retrieve_outputs": ("account-if-given", "listing; filters when an account is passed"),
    UPD + "retrieve_txs": ("account-if-given", "legacy log listing; filters when an account is passed"),
    UPD + "apply_advanced_tx_list_filtering": ("account", "advanced log query (C19.R3)"),
    UPD + "apply_api_outputs": ("account", "log entries touched by a refresh"),
    UPD + "find_reverted_kernels": ("account", "kernels of vanished outputs"),
    UPD + "clean_old_unconfirmed": ("all", "stale unconfirmed coinbase candidates of every account are dropped (height-based, no value moves)"),
    SEL + "repopulate_tx": ("all", "looks records up by the context's own key ids (a key id embeds its account path)"),
    c.LW + "api_impl::owner::get_stored_tx": ("account", "look-up of a log entry by its (per-account) id to find the stored transaction of that entry: ids repeat across accounts"),
    c.LW + "api_impl::owner::update_txs_via_kernel": ("account", "is a change output of this account still waiting for the entry (C04.R9; added with fix /repo owner.rs update_txs_via_kernel)"),
    c.LW + "internal::scan::cancel_tx_log_entry": ("account", "the other reservations of the entry a scan cancels (released with it)"),
    c.LW + "internal::keys::accounts": ("n/a", ""),
}
ITER_FNS = (c.WB + "iter", c.WB + "tx_log_iter", c.WOB + "iter", c.WOB + "tx_log_iter")


def account_comparisons(ctx, f):
    """Eq/Ne comparisons in f or its closures between root_key_id/parent_key_id of a record and something else."""
    db = ctx.db
    out = []
    for g in [f] + [db.fns[k] for k in db.closures_of(f.id)]:
        for x in cfg.comparisons(g):
            if x.op not in ("Eq", "Ne"):
                continue
            pl, pr = vf.producers(g, x.l), vf.producers(g, x.r)
            for a, b in ((pl, pr), (pr, pl)):
                if vf.has_field(a, OD, "root_key_id") or vf.has_field(a, TLE, "parent_key_id"):
                    # the other side: a captured variable / parameter (not a record field)
                    if not (vf.has_field(b, OD, "root_key_id") or vf.has_field(b, TLE, "parent_key_id")):
                        out.append((g, x))
    return out


def closure_args(g, t):
    """Closure ids constructed in g and passed (by value) as arguments of call t."""
    out = []
    for a in t["a"]:
        p = vf.op_place(a)
        if not p or p[1]:
            continue
        for bb in g.bbs:
            for s in bb["s"]:
                if s["k"] == "a" and s["d"] == [p[0], []] and s["r"]["k"] == "agg" and s["r"].get("ak") == "closure":
                    out.append(s["r"]["adt"])
    return out


def iter_chains(g):
    """For every iter()/tx_log_iter() call site in g: the closures attached to the iterator
    adaptors applied to it (followed through filter/map/collect/into_iter chains) and
    whether the records end in a `for` loop of g itself."""
    res = {}
    calls = list(g.calls())

    def origin(o, depth=0):
        out = set()
        for x in vf.producers(g, o):
            if x[0] == "call":
                name, b = x[1], x[2]
                if name in ITER_FNS:
                    out.add(b)
                elif depth < 16 and (name.startswith(("core::iter::", "core::slice::", "alloc::vec::", "alloc::slice::")) or "IntoIterator" in name or name.endswith(("Deref::deref", "DerefMut::deref_mut"))):
                    t = g.bbs[b]["t"]
                    if t["a"]:
                        out |= origin(t["a"][0], depth + 1)
        return out

    for b, t in calls:
        if t.get("f") in ITER_FNS:
            res.setdefault(b, {"closures": [], "loop": False, "adaptors": []})
    for b, t in calls:
        f = t.get("f") or ""
        if f in ITER_FNS or not t["a"] or not f.startswith("core::iter::"):
            continue
        og = origin(t["a"][0])
        if not og:
            continue
        cl = closure_args(g, t)
        for s_ in og:
            r = res.setdefault(s_, {"closures": [], "loop": False, "adaptors": []})
            r["closures"] += cl
            r["adaptors"].append(f.split("::")[-1])
            if f.endswith("Iterator::next"):
                r["loop"] = True
    return res


ROLE_FIELDS = {
    "amount_currently_spendable": "unspent_total",
    "amount_awaiting_confirmation": "unconfirmed_total",
    "amount_immature": "immature_total",
    "amount_locked": "locked_total",
    "amount_reverted": "reverted_total",
    "amount_awaiting_finalization": "awaiting_finalization_total",
}


def accumulator_roles(ri, lit):
    """Balance accumulators of retrieve_info, named by the WalletInfo figure each one feeds alone
    (independent of the local variable names): {local: role}."""
    fl = vf.get_flow(ri)
    cands = set()
    for l in range(1, len(ri.locals)):
        if ri.locals[l]["ty"] != "u64" or not ri.locals[l].get("u"):
            continue
        seen, stack = set(), list(fl.deps[l])
        while stack:
            x = stack.pop()
            if x in seen:
                continue
            seen.add(x)
            stack.extend(fl.deps[x])
        if l in seen:
            cands.add(l)

    def deps_in(o):
        p = vf.op_place(o)
        if p is None:
            return set()
        seen, stack, res = set(), [p[0]], set()
        while stack:
            l = stack.pop()
            if l in seen:
                continue
            seen.add(l)
            if l in cands:
                res.add(l)
                continue
            stack.extend(fl.deps[l])
        return res

    roles, problems = {}, []
    for fld, role in sorted(ROLE_FIELDS.items()):
        got = deps_in(vf.literal_field(lit, fld))
        if len(got) != 1:
            problems.append("WalletInfo.%s is fed by %d accumulators (expected exactly one)" % (fld, len(got)))
            continue
        l = next(iter(got))
        if l in roles:
            problems.append("WalletInfo.%s and another figure are fed by the same accumulator" % fld)
            continue
        roles[l] = role
    return roles, problems, deps_in


def _add_of(f, r):
    """operands [l, r] if rvalue r is (the checked form of) an addition"""
    if r["k"] == "bin" and r["op"].startswith("Add"):
        return [r["l"], r["r"]]
    if r["k"] == "use":
        p = vf.op_place(r["o"])
        if p is not None:
            ds = f.defs().get(p[0], [])
            if len(ds) == 1 and ds[0][0] == "a" and ds[0][3]["r"]["k"] == "bin" and ds[0][3]["r"]["op"].startswith("Add"):
                return [ds[0][3]["r"]["l"], ds[0][3]["r"]["r"]]
    return None


def _sum_terms(f, o, depth=0):
    """Definitions of the accumulator behind operand o: [(kind, producers)] with kind in
    init0 (= 0), add (acc = acc + term), assign (acc = something else), call."""
    acc = vf.strip_clones(f, o)
    if acc is None:
        return []
    terms = []
    for d in f.defs().get(acc, []):
        if d[0] != "a":
            terms.append(("call", frozenset([("call", d[2].get("f") or "?", 0)])))
            continue
        r = d[3]["r"]
        ops = _add_of(f, r)
        if ops:
            selfs = [op for op in ops if vf.strip_clones(f, op) == acc]
            others = [op for op in ops if vf.strip_clones(f, op) != acc]
            if len(selfs) == 1 and len(others) == 1:
                terms.append(("add", frozenset(vf.producers(f, others[0]))))
            else:
                terms.append(("assign", frozenset().union(*[vf.producers(f, op) for op in ops])))
        elif r["k"] == "use" and vf.const_of_operand(f, r["o"]) == "0":
            terms.append(("init0", frozenset()))
        else:
            terms.append(("assign", frozenset(vf.producers(f, r["o"])) if r["k"] == "use" else frozenset([("complex", r["k"], "")])))
    return terms


def _derives_local(f, o, local):
    fl = vf.get_flow(f)
    p = vf.op_place(o)
    if p is None:
        return False
    seen, stack = set(), [p[0]]
    while stack:
        l = stack.pop()
        if l in seen:
            continue
        seen.add(l)
        if l == local:
            return True
        stack.extend(fl.deps[l])
    return False


def closure_true_requires(g, x, db, allow_none=False):
    """In closure g every path that may return true takes the equal-edge of comparison x
    (or, with allow_none, is on the None arm of an Option test: 'filter only if an account is given')."""
    eqe = x.true_edges if x.op == "Eq" else x.false_edges
    pe = dectree.PathEnum(g, db)
    trues = 0
    for p in pe.paths(0):
        v = [e[2] for e in p.events if e[0] == "set" and e[1] == "_0"]
        if not v or v[-1] != "0":
            trues += 1
            direct = x.is_call and x.dest == 0 and x.b in p.blocks
            none_arm = allow_none and any(e[0] == "lit" and ((e[2] == "None" and e[3]) or (isinstance(e[2], tuple) and "Some" in e[2] and not e[3])) for e in p.events)
            if not direct and not none_arm and not any((a, b_) in eqe for a, b_ in zip(p.blocks, p.blocks[1:])):
                return False
    return trues > 0


def sent_entry_figures(ctx, R5, lk):
    """lock_tx_context books the sent entry with the figures of the records it writes (debited = inputs locked,
    credited = change outputs created)."""
    run = ctx.run
    # amount_debited: a sum whose addends are the values of the coins read back from the batch and locked
    asg = vf.field_assignments(lk, TLE, "amount_debited")
    held = False
    if len(asg) == 1 and asg[0][1]["r"]["k"] == "use":
        terms = _sum_terms(lk, asg[0][1]["r"]["o"])
        adds = [p for k, p in terms if k == "add"]
        held = bool(adds) and all(k in ("init0", "add") for k, _p in terms) and all(vf.has_field(p, OD, "value") and vf.has_call(p, c.WOB + "get") for p in adds)
        if held:
            # the addition sits in the loop that locks the coin (same coin local)
            locks = cfg.find_calls(lk, c.WOB + "lock_output")
            held = len(locks) == 1
    run.instance(R5, {"fn": "lock_tx_context", "obligation": "TxLogEntry.amount_debited = sum of OutputData.value of the coins locked"}, held=held)
    if not held:
        run.finding(Finding(R5, lk.id, "amount_debited of the sent entry is not the sum of the locked inputs' values", site=lk.loc()))
    # amount_credited: += the same amount that is written as the change output's value
    lits = vf.struct_literals(lk, OD)
    asg = vf.field_assignments(lk, TLE, "amount_credited")
    held = False
    if len(lits) == 1 and asg:
        vloc = vf.strip_clones(lk, vf.literal_field(lits[0][1], "value"))
        ok = 0
        for b, st in asg:
            r = st["r"]
            ops = _add_of(lk, r)
            if ops and any(vf.strip_clones(lk, o) == vloc for o in ops):
                ok += 1
        held = ok == len(asg)
    run.instance(R5, {"fn": "lock_tx_context", "obligation": "TxLogEntry.amount_credited += the value written to the change output"}, held=held)
    if not held:
        run.finding(Finding(R5, lk.id, "amount_credited of the sent entry is not the sum of the change outputs' values", site=lk.loc()))


def run(ctx):
    run = ctx.run
    db = ctx.db
    R1 = "C04.R1"
    run.rule(R1, "account isolation: every consumer of iter()/tx_log_iter() filters on the account (or is tabled with a reason)", floor=10)
    users = {}
    for fid, f in db.fns.items():
        if non_production(fid) or fid.startswith("<" + LM) or fid.startswith(LM):
            continue
        for b, t in f.calls():
            if t.get("f") in ITER_FNS:
                users.setdefault(f.root_fn(db), []).append((f, b))
    for fid in sorted(users):
        ent = ITER_CONSUMERS.get(fid)
        if ent is None:
            run.instance(R1, {"fn": pp.short(fid), "obligation": "consumer of iter()/tx_log_iter() is in the table"}, held=False)
            run.finding(Finding(R1, fid, "new consumer of iter()/tx_log_iter() without an account filter classification", site=db.fns[fid].loc()))
            continue
        kind, why = ent
        if kind in ("all", "n/a"):
            run.instance(R1, {"fn": pp.short(fid), "kind": kind, "reason": why, "iter_sites": len(users[fid])}, held=True)
            continue
        f = db.fns[fid]
        cmps = account_comparisons(ctx, f)
        n_sites = len(users[fid])
        held = len(cmps) >= 1
        detail = []
        for g, x in cmps:
            if g.dk == "Closure":
                ok = closure_true_requires(g, x, db, allow_none=(kind == "account-if-given" or fid == UPD + "apply_advanced_tx_list_filtering"))
                detail.append((pp.short(g.id).split("::")[-1], x.site().split(":")[-1], ok))
                if not ok and kind == "account":
                    held = False
        # per iter site: one of the closures attached to *that* iterator chain restricts to the account,
        # or the records end in a loop of the function that compares the account itself
        own_cmp = any(g.id == f.id or g.dk != "Closure" for g, _x in cmps)
        good_closures = {g.id for g, x in cmps if g.dk == "Closure" and closure_true_requires(g, x, db, allow_none=(kind == "account-if-given" or fid == UPD + "apply_advanced_tx_list_filtering"))}
        for g in [f] + [db.fns[k] for k in db.closures_of(fid)]:
            for sb, ch in sorted(iter_chains(g).items()):
                site_ok = bool(set(ch["closures"]) & good_closures) or (ch["loop"] and any(gg.id == g.id for gg, _x in cmps))
                detail.append(("site", c.site_of(g, sb).split(":")[-1], ch["adaptors"][:4], site_ok))
                if not site_ok:
                    held = False
        # retrieve_txs / retrieve_outputs filter only when an account is given: the comparison must exist
        run.instance(R1, {"fn": pp.short(fid), "kind": kind, "iter_sites": n_sites, "account_comparisons": len(cmps), "closures": detail}, held=held)
        if not held:
            run.finding(Finding(R1, fid, "records are consumed without restricting to the account parameter", site=f.loc(), detail=str(detail)))
    for fid in ITER_CONSUMERS:
        if fid not in users and ITER_CONSUMERS[fid][0] != "n/a":
            run.error("C04.R1: tabled consumer %s no longer iterates records (table out of date)" % fid)
    # apply_api_outputs: the TxReverted loop writes only entries of this account
    ap = ctx.fn(UPD + "apply_api_outputs")
    if ap:
        cm = [x for g, x in account_comparisons(ctx, ap) if g.id == ap.id]
        st = [b for b, t in cfg.find_calls(ap, c.WOB + "save_tx_log_entry")]
        held = False
        for x in cm:
            eqe = x.true_edges if x.op == "Eq" else x.false_edges
            for b in st:
                if cfg.must_pass(ap, eqe, {b})[0]:
                    held = True
        run.instance(R1, {"fn": "apply_api_outputs", "obligation": "the reverted-entry write is dominated by tx.parent_key_id == account"}, held=held)
        if not held:
            run.finding(Finding(R1, ap.id, "refresh rewrites log entries of other accounts", site=ap.loc()))

    R2 = "C04.R2"
    run.rule(R2, "partition: per output status at most one balance accumulator is incremented (path enumeration)", floor=5)
    ri = ctx.fn(UPD + "retrieve_info")
    EXPECT = {
        "Unspent": {"immature_total", "unconfirmed_total", "unspent_total"},
        "Unconfirmed": {"unconfirmed_total", "awaiting_finalization_total"},
        "Locked": {"locked_total"},
        "Reverted": {"reverted_total"},
        "Spent": set(),
    }
    if ri:
        nx = [b for b, t in cfg.find_calls(ri, "core::iter::traits::iterator::Iterator::next")]
        wl = vf.struct_literals(ri, c.LW + "types::WalletInfo")
        accs, role_problems, _d = accumulator_roles(ri, wl[0][1]) if len(wl) == 1 else ({}, ["WalletInfo literal not found"], None)
        if len(nx) != 1 or len(accs) < 6:
            run.error("C04.R2: loop / accumulators not found in retrieve_info (%d loops, %d accumulators)" % (len(nx), len(accs)))
        else:
            head = nx[0]
            body = ri.bbs[head]["t"]["t"]
            pe = dectree.PathEnum(ri, db)
            try:
                paths = [p for p in pe.paths(body, stops={head}) if p.end == head]
            except dectree.TooManyPaths as e:
                run.error("C04.R2: %s" % e)
                paths = []
            # loop variable status key: any lit on *.status
            for st, exp in sorted(EXPECT.items()):
                seen = set()
                multi = False
                feasible = 0
                for p in paths:
                    ok = True
                    has_lit = False
                    for e in p.events:
                        if e[0] == "lit" and e[1].endswith(".status"):
                            has_lit = True
                            ns = {e[2]} if isinstance(e[2], str) else set(e[2])
                            if (st in ns) != e[3]:
                                ok = False
                    if not ok or not has_lit:
                        continue
                    feasible += 1
                    incs = {accs[int(e[1][1:])] for e in p.events if e[0] == "set" and e[1].startswith("_") and e[1][1:].isdigit() and int(e[1][1:]) in accs}
                    if len(incs) > 1:
                        multi = True
                    seen |= incs
                held = seen == exp and not multi and feasible > 0
                run.instance(R2, {"status": st, "accumulators": sorted(seen), "expected": sorted(exp), "feasible_paths": feasible, "more_than_one_per_path": multi}, held=held)
                if not held:
                    run.finding(Finding(R2, ri.id, "status %s feeds %s (expected %s)%s" % (st, sorted(seen), sorted(exp), ", several at once" if multi else ""), site=ri.loc()))
            # unconfirmed coinbase counts nowhere: on Unconfirmed paths with is_coinbase true nothing is incremented
            bad = False
            for p in paths:
                lits = [e for e in p.events if e[0] == "lit" and e[1].endswith(".status") and e[3] and (e[2] == "Unconfirmed" or (not isinstance(e[2], str) and "Unconfirmed" in e[2]))]
                cb = [e for e in p.events if e[0] == "atom" and e[1].endswith(".is_coinbase") and e[2] is True]
                if lits and cb:
                    incs = [e for e in p.events if e[0] == "set" and e[1][1:].isdigit() and int(e[1][1:]) in accs]
                    if incs:
                        bad = True
            run.instance(R2, {"obligation": "an unconfirmed coinbase candidate increments nothing"}, held=not bad)
            if bad:
                run.finding(Finding(R2, ri.id, "unconfirmed coinbase counted in a balance figure", site=ri.loc()))

    R3 = "C04.R3"
    run.rule(R3, "reported figures: WalletInfo fields are fed by exactly the right accumulators", floor=6)
    if ri:
        lits = vf.struct_literals(ri, c.LW + "types::WalletInfo")
        if len(lits) != 1:
            run.error("C04.R3: WalletInfo literal not found")
        else:
            accs, role_problems, deps_in = accumulator_roles(ri, lits[0][1])
            for pr in role_problems:
                run.finding(Finding(R3, ri.id, pr, site=ri.loc()))

            def acc_deps(o):
                return {accs.get(l, "local _%d" % l) for l in deps_in(o)}

            EXP = {
                "total": {"unspent_total", "unconfirmed_total", "immature_total"},
                "amount_awaiting_finalization": {"awaiting_finalization_total"},
                "amount_awaiting_confirmation": {"unconfirmed_total"},
                "amount_immature": {"immature_total"},
                "amount_locked": {"locked_total"},
                "amount_currently_spendable": {"unspent_total"},
                "amount_reverted": {"reverted_total"},
            }
            for fld, exp in sorted(EXP.items()):
                got = acc_deps(vf.literal_field(lits[0][1], fld))
                held = got == exp
                run.instance(R3, {"field": "WalletInfo." + fld, "fed_by": sorted(got), "expected": sorted(exp)}, held=held)
                if not held:
                    run.finding(Finding(R3, ri.id, "WalletInfo.%s is fed by %s, expected %s" % (fld, sorted(got), sorted(exp)), site=ri.loc()))

    R4 = "C04.R4"
    run.rule(R4, "one refresh = one batch; nothing is written when the node is behind the wallet", floor=3)
    if ap:
        from .shared import single_batch
        single_batch(ctx, R4, ap)
        from .shared import refresh_not_skipped
        refresh_not_skipped(ctx, R4)
    R5 = "C04.R5"
    run.rule(R5, "log entries are written with the figures of the outputs they account for (debited = value of the inputs locked, credited = value of the outputs created)", floor=6)
    lk = ctx.fn(SEL + "lock_tx_context")
    if lk:
        sent_entry_figures(ctx, R5, lk)
        for fld, src in (("tx_slate_id", (c.LW + "slate::Slate", "id")), ("fee", (c.LW + "types::Context", "fee"))):
            vf.check_field_source(ctx, R5, lk, dest=(TLE, fld), src_field=src, what="TxLogEntry.%s := %s.%s" % (fld, src[0].split("::")[-1], src[1]))
    bro = ctx.fn(SEL + "build_recipient_output")
    if bro:
        lits = vf.struct_literals(bro, OD)
        asg = vf.field_assignments(bro, TLE, "amount_credited")
        held = False
        if len(lits) == 1 and len(asg) == 1 and asg[0][1]["r"]["k"] == "use":
            pv = vf.producers(bro, vf.literal_field(lits[0][1], "value"))
            pc = vf.producers(bro, asg[0][1]["r"]["o"])
            held = pv == pc and vf.has_field(pc, c.LW + "slate::Slate", "amount")
        run.instance(R5, {"fn": "build_recipient_output", "obligation": "TxLogEntry.amount_credited = OutputData.value = slate.amount"}, held=held)
        if not held:
            run.finding(Finding(R5, bro.id, "amount_credited of the receive entry differs from the value of the output created", site=bro.loc()))
        vf.check_field_source(ctx, R5, bro, dest=(TLE, "tx_slate_id"), src_field=(c.LW + "slate::Slate", "id"), what="TxLogEntry.tx_slate_id := slate.id")
    R6 = "C04.R6"
    run.rule(R6, "refresh transitions follow the node's answer (present => Unspent, absent => Spent / Reverted)", floor=1)
    from .shared import refresh_transitions
    refresh_transitions(ctx, R6)
    R7 = "C04.R7"
    run.rule(R7, "the only records a refresh drops on age are unconfirmed coinbase candidates", floor=2)
    co = ctx.fn(UPD + "clean_old_unconfirmed")
    if co:
        # the age-based clean-up is wallet-wide while outputs are confirmed per account: a candidate of an account that
        # has not refreshed is dropped although it was mined, and what brings it back is the look-back scan of the same
        # refresh - whose reach (blocks before the last scanned height) must not be shorter than the clean-up age
        uws7 = ctx.fn(c.LW + "api_impl::owner::update_wallet_state")
        ages = set()
        for bb in co.bbs:
            for st in bb["s"]:
                if st["k"] == "a" and st["r"]["k"] == "bin" and st["r"]["op"].startswith("Sub"):
                    kv = vf.const_of_operand(co, st["r"]["r"])
                    if kv is not None and kv.isdigit() and int(kv) > 1:
                        ages.add(int(kv))
        reach_ = set()
        if uws7:
            for b, t in uws7.calls():
                if (t.get("f") or "").endswith("::saturating_sub") and vf.has_call(vf.origins(uws7, t["a"][0]), c.WB + "last_scanned_block"):
                    kv = vf.const_of_operand(uws7, t["a"][1])
                    if kv is not None and kv.isdigit():
                        reach_.add(int(kv))
        h7 = len(ages) == 1 and len(reach_) == 1 and min(reach_) >= max(ages)
        run.instance(R7, {"fn": "update_wallet_state / clean_old_unconfirmed", "obligation": "look-back of the refresh-time scan >= age at which unconfirmed coinbase candidates are dropped", "look-back": sorted(reach_), "clean-up age": sorted(ages)}, held=h7)
        if not h7:
            run.finding(Finding(R7, uws7.id if uws7 else co.id, "the refresh-time scan reaches back fewer blocks (%s) than the age at which mined-but-unrefreshed coinbase candidates of other accounts are dropped (%s): they are deleted and not restored" % (sorted(reach_), sorted(ages)), site=(uws7 or co).loc()))
        pushes = cfg.find_calls(co, "alloc::vec::Vec::<T, A>::push")
        dels = cfg.find_calls(co, c.WOB + "delete")
        held = len(pushes) == 1 and len(dels) == 1
        if held:
            pb = {pushes[0][0]}
            # the selection is dominated by: status == Unconfirmed (true edge) and is_coinbase (true edge)
            st_ok = False
            for x in cfg.comparisons(co):
                if x.op == "Eq":
                    pl, pr = vf.producers(co, x.l), vf.producers(co, x.r)
                    for a, b_ in ((pl, pr), (pr, pl)):
                        if vf.has_field(a, OD, "status") and ("agg", c.LW + "types::OutputStatus", "Unconfirmed") in b_:
                            if x.true_edges and cfg.must_pass(co, x.true_edges, pb)[0]:
                                st_ok = True
            cb_ok = False
            for l in range(1, len(co.locals)):
                if co.locals[l]["ty"] != "bool":
                    continue
                if vf.has_field(vf.producers(co, {"c": [l, []]}), OD, "is_coinbase"):
                    g_ = cfg.local_guard(co, l)
                    if g_.ok and cfg.must_pass(co, g_.ok, pb)[0]:
                        cb_ok = True
            # what is deleted is what was selected
            sel = vf.strip_clones(co, pushes[0][1]["a"][0])
            dd = vf.origins(co, dels[0][1]["a"][1])
            from_sel = sel is not None and _derives_local(co, dels[0][1]["a"][1], sel)
            held = st_ok and cb_ok and from_sel
            run.instance(R7, {"fn": "clean_old_unconfirmed", "obligation": "selected for deletion only if status == Unconfirmed and is_coinbase", "status_guard": st_ok, "coinbase_guard": cb_ok, "deletes_selection": from_sel}, held=held)
        else:
            run.instance(R7, {"fn": "clean_old_unconfirmed", "obligation": "one selection (push) and one delete", "pushes": len(pushes), "deletes": len(dels)}, held=False)
        if not held:
            run.finding(Finding(R7, co.id, "the age-based clean-up can delete records other than unconfirmed coinbase candidates (pending change / received outputs would vanish)", site=co.loc()))
        # no value-bearing effect other than delete
        eb = ctx.eff.effect_blocks(co)
        kinds = set().union(*eb.values()) if eb else set()
        h = kinds <= {"delete_output"}
        run.instance(R7, {"fn": "clean_old_unconfirmed", "obligation": "the clean-up only deletes", "effects": sorted(kinds)}, held=h)
        if not h:
            run.finding(Finding(R7, co.id, "the age-based clean-up has effects other than deleting the selected candidates: %s" % sorted(kinds), site=co.loc()))
    R8 = "C04.R8"
    run.rule(R8, "which outputs a refresh asks the node about: every non-spent output of the account that belongs to an outstanding transaction or to none", floor=3)
    mw = ctx.fn(UPD + "map_wallet_outputs")
    if mw:
        # (a) the narrowing filter (update_all = false): an output without a log entry is always kept
        narrowing = None
        for k in db.closures_of(mw.id, recursive=False):
            g = db.fns[k]
            reads = set()
            for bb in g.bbs:
                for st in bb["s"]:
                    if st["k"] == "a":
                        for key in ("o", "p"):
                            o_ = st["r"].get(key)
                            pl = o_ if key == "p" else (vf.op_place(o_) if isinstance(o_, dict) else None)
                            if pl and pl[1]:
                                for e in pl[1]:
                                    if isinstance(e, dict) and e.get("a") == OD:
                                        reads.add(e["n"])
            if "tx_log_entry" in reads:
                narrowing = g
        held = narrowing is not None
        if held:
            pe = dectree.PathEnum(narrowing, db)
            none_paths, bad = 0, 0
            for p in pe.paths(0):
                lits = [e for e in p.events if e[0] == "lit" and (e[2] == "None" or (isinstance(e[2], tuple) and "Some" in e[2]))]
                is_none = any((e[2] == "None" and e[3]) or (isinstance(e[2], tuple) and "Some" in e[2] and not e[3]) for e in lits)
                if is_none:
                    none_paths += 1
                    v = [e[2] for e in p.events if e[0] == "set" and e[1] == "_0"]
                    if not v or v[-1] != "1":
                        bad += 1
            held = none_paths > 0 and bad == 0
        run.instance(R8, {"fn": "map_wallet_outputs", "obligation": "an output that belongs to no log entry (e.g. a coinbase candidate) is always refreshed"}, held=held)
        if not held:
            run.finding(Finding(R8, mw.id, "outputs without a log entry are no longer refreshed", site=mw.loc()))
        # (b) the narrowing is applied only when update_all is false
        ua = c.param(mw, "update_all", "bool")
        g_ua = cfg.local_guard(mw, ua) if ua is not None else None
        flt = [b for b, t in mw.calls() if (t.get("f") or "").endswith("Iterator::filter")]
        h = g_ua is not None and bool(g_ua.fail) and len(flt) == 2 and sum(1 for b in flt if cfg.must_pass(mw, g_ua.fail, {b})[0]) == 1
        run.instance(R8, {"fn": "map_wallet_outputs", "obligation": "update_all = true asks about every non-spent output of the account (the narrowing filter sits on the false edge only)"}, held=h)
        if not h:
            run.finding(Finding(R8, mw.id, "the update_all switch no longer selects between all non-spent outputs and the outstanding ones", site=mw.loc()))
        from .shared import was_unspent_flag
        was_unspent_flag(ctx, R8)
    R9 = "C04.R9"
    run.rule(R9, "which outstanding entries the refresh confirms through their kernel: all but those that are confirmed already, carry no kernel excess, or still have an unconfirmed output that refers to them (through which step 1 confirms them)", floor=4)
    kernel_step_scope(ctx, R9)
    R10 = "C04.R10"
    run.rule(R10, "log entries are keyed by (account, id): every creator of an entry draws the id from the counter of the account it saves the entry under", floor=3)
    from .shared import log_id_account
    log_id_account(ctx, R10)
    R11 = "C04.R11"
    run.rule(R11, "an output is credited by one entry: the reservation step creates records only for outputs that are not on record yet - the context of a self-paid invoice also lists the invoiced output, which the invoice's own TxReceived entry (and its own account) accounts for", floor=1)
    lk11 = ctx.fn(c.LW + "internal::selection::lock_tx_context")
    if lk11 is None:
        run.error("C04.R11: lock_tx_context not found")
    else:
        OD11 = c.LW + "types::OutputData"
        saves11 = []
        for b, t in cfg.find_calls(lk11, c.WOB + "save"):
            lits = [x for x in vf.producers(lk11, t["a"][1]) if x[0] == "agg" and x[1] == OD11] or [x for x in vf.origins(lk11, t["a"][1]) if x[0] == "agg" and x[1].startswith(OD11)]
            if lits:
                saves11.append(b)
        if not saves11:
            run.error("C04.R11: lock_tx_context no longer saves a new OutputData record (anchor missing)")
        fresh = set()
        for gb, gt in cfg.find_calls(lk11, c.WOB + "get"):
            fresh |= cfg.call_guard(lk11, gb).fail
        for b in saves11:
            # inside the loop: every way into the save from the loop head passes the 'no such record' edge of a look-up
            heads = [hb for hb, ht in lk11.calls() if (ht.get("f") or "").endswith("Iterator::next") and b in cfg.reach(lk11, starts=tuple(lk11.succ(hb)), cut_nodes=frozenset({hb})) and hb in cfg.reach(lk11, starts=[b])]
            held = bool(fresh) and bool(heads) and all(b not in cfg.reach(lk11, starts=tuple(lk11.succ(hb)), cut_edges=fresh, cut_nodes=frozenset({hb})) for hb in heads)
            run.instance(R11, {"fn": "lock_tx_context", "obligation": "the record of a created output is written only on the not-found edge of a look-up of its key", "site": c.site_of(lk11, b), "look-ups": len(cfg.find_calls(lk11, c.WOB + "get"))}, held=held)
            if not held:
                run.finding(Finding(R11, lk11.id, "the reservation step writes (and credits to the TxSent entry) every output the context lists, also one that is on record already: paying one's own invoice credits the invoiced amount twice (TxReceived and TxSent) and files the invoiced output under the payer's account", site=c.site_of(lk11, b)))
    run.not_decided += ["equality with the node's UTXO set", "the ledger identity credits - debits = total + locked", "confirmation / maturity arithmetic"]



def kernel_step_scope(ctx, R9):
    """Which outstanding entries update_txs_via_kernel leaves to step 1 (C04.R9; the same clause under C05: a mined
    send must be confirmed by the refresh the cancel runs first, or the cancel goes through)."""
    run = ctx.run
    db = ctx.db
    uk = ctx.fn(c.LW + "api_impl::owner::update_txs_via_kernel")
    if uk is None:
        run.error("C04.R9: update_txs_via_kernel not found")
    else:
        H = {b for b, t in uk.calls() if (t.get("f") or "").endswith("Iterator::next")}
        K = {b for b, t in uk.calls() if (t.get("f") or "") == c.LW + "types::NodeClient::get_kernel"}
        if len(H) != 1 or len(K) != 1:
            run.error("C04.R9: loop head / get_kernel call not found in update_txs_via_kernel (%d/%d)" % (len(H), len(K)))
        else:
            n = len(uk.bbs)
            can_k = {b for b in range(n) if not uk.bbs[b]["cleanup"] and (b in K or K & set(cfg.reach(uk, starts=(b,), cut_nodes=frozenset(H))))}
            can_h = {b for b in range(n) if not uk.bbs[b]["cleanup"] and (H & set(cfg.reach(uk, starts=(b,), cut_nodes=frozenset(K))))}
            body = set(cfg.reach(uk, starts=tuple(s_ for h in H for s_ in uk.succ(h)), cut_nodes=frozenset(H)))
            skips = [(g_, s_) for g_ in sorted(body) if g_ in can_k and g_ not in K for s_ in uk.succ(g_) if s_ not in can_k and (s_ in can_h or s_ in H)]
            fl = vf.get_flow(uk)

            def fld(o):
                return {x[2] for x in o if x[0] == "field" and x[1] == TLE}

            # comparisons `amount_debited != 0` / `amount_credited != 0`
            nz = {}
            for x in cfg.comparisons(uk):
                for side, other in ((x.l, x.r), (x.r, x.l)):
                    if vf.const_of_operand(uk, other) != "0":
                        continue
                    pl = vf.op_place(side)
                    names = set()
                    for st in uk.bbs[x.b]["s"]:
                        if st["k"] == "a" and pl and st["d"] == [pl[0], []] and st["r"]["k"] == "use":
                            q = vf.op_place(st["r"]["o"])
                            if q and q[1] and isinstance(q[1][-1], dict) and q[1][-1].get("a") == TLE:
                                names.add(q[1][-1]["n"])
                    op = x.op if side is x.l else cfg._SWAP[x.op]
                    for nm in names & {"amount_debited", "amount_credited"}:
                        if op in ("Ne", "Gt"):
                            nz.setdefault(nm, set()).update(x.true_edges)
                        elif op in ("Eq", "Le"):
                            nz.setdefault(nm, set()).update(x.false_edges)
            # "a change output still refers to this entry": the true edge of an any()/find() over the
            # wallet's outputs whose closure reads OutputData.tx_log_entry and OutputData.status
            refers = set()
            for b, t in uk.calls():
                fnm = t.get("f") or ""
                if not (fnm.endswith("Iterator::any") or fnm.endswith("Iterator::find") or fnm.endswith("Iterator::position")):
                    continue
                ok_cl = False
                for cid in closure_args(uk, t):
                    g2 = db.fns.get(cid)
                    reads = set()
                    for bb in (g2.bbs if g2 else ()):
                        for st in bb["s"]:
                            if st["k"] == "a":
                                for key in ("o", "p", "l", "r"):
                                    o_ = st["r"].get(key)
                                    pl = o_ if key == "p" else (vf.op_place(o_) if isinstance(o_, dict) else None)
                                    for e in (pl[1] if pl else ()):
                                        if isinstance(e, dict) and e.get("a") == OD:
                                            reads.add(e["n"])
                        tt = bb["t"]
                        if tt["k"] == "call":
                            for a_ in tt["a"]:
                                for x_ in vf.producers(g2, a_):
                                    if x_[0] == "field" and x_[1] == OD:
                                        reads.add(x_[2])
                    if {"tx_log_entry", "status"} <= reads and g2 is not None:
                        # true only for an output that refers to the entry AND is still waiting to be seen on chain
                        OST = c.LW + "types::OutputStatus"
                        x_st = x_le = None
                        for x in cfg.comparisons(g2):
                            pl_, pr_ = vf.producers(g2, x.l), vf.producers(g2, x.r)
                            for a_, b_ in ((pl_, pr_), (pr_, pl_)):
                                if vf.has_field(a_, OD, "status") and any(y[0] == "agg" and y[1] == OST and y[2] in ("Unconfirmed", "Reverted") for y in b_) and x.op == "Eq":
                                    x_st = x
                                if vf.has_field(a_, OD, "tx_log_entry") and x.op == "Eq":
                                    x_le = x
                        if x_st is not None and x_le is not None and closure_true_requires(g2, x_st, db) and closure_true_requires(g2, x_le, db):
                            ok_cl = True
                if ok_cl:
                    refers |= cfg.call_guard(uk, b).ok
            classes = []
            for g_, s_ in skips:
                t = uk.bbs[g_]["t"]
                cls = None
                if t["k"] == "sw":
                    ol = vf.op_place(t["o"])
                    # what the switch operand was read from (statement in the same block)
                    src = None
                    for st in uk.bbs[g_]["s"]:
                        if st["k"] == "a" and ol and st["d"] == [ol[0], []]:
                            src = st["r"]
                    if src and src["k"] == "use":
                        q = vf.op_place(src["o"])
                        if q and q[1] and isinstance(q[1][-1], dict) and q[1][-1].get("a") == TLE and q[1][-1]["n"] == "confirmed":
                            zero = [tb for v, tb in t["t"] if v == "0"]
                            cls = "confirmed" if s_ not in zero else "not-confirmed"
                    if src and src["k"] == "disc":
                        q = src["p"]
                        if q[1] and isinstance(q[1][-1], dict) and q[1][-1].get("a") == TLE and q[1][-1]["n"] == "kernel_excess":
                            some = [tb for v, tb in t["t"] if v == "1"]
                            cls = "no-kernel-excess" if s_ not in some else "has-kernel-excess"
                if cls is None:
                    both = all(nm in nz and ((g_, s_) in nz[nm] or cfg.must_pass(uk, nz[nm], {g_})[0]) for nm in ("amount_debited", "amount_credited"))
                    ref = bool(refers) and ((g_, s_) in refers or cfg.must_pass(uk, refers, {g_})[0])
                    # a pending output that refers to the entry is what makes the skip safe (step 1 confirms the
                    # entry through it); the debit-and-credit test on top of it is an optimisation
                    cls = ("debit-and-credit" if both else "other") + ("+output-refers" if ref else "")
                classes.append(((g_, s_), cls))
            run.instance(R9, {"fn": "update_txs_via_kernel", "obligation": "the loop skips the kernel lookup on recognised edges only", "skip edges": [(cfg_e, cl) for cfg_e, cl in classes]}, held=bool(classes))
            for (g_, s_), cl in classes:
                held = cl in ("confirmed", "no-kernel-excess") or cl.endswith("+output-refers")
                run.instance(R9, {"fn": "update_txs_via_kernel", "obligation": "skip edge asserts: %s" % cl, "site": c.site_of(uk, g_)}, held=held)
                if held:
                    continue
                if cl == "debit-and-credit":
                    run.finding(Finding(R9, uk.id, "an outstanding send with change is never looked up by kernel, also when no change output refers to it any more (change re-spent before it confirmed): it stays unconfirmed for good", site=c.site_of(uk, g_)))
                else:
                    run.finding(Finding(R9, uk.id, "outstanding entries are excluded from the kernel lookup by a condition other than confirmed / no kernel excess / (debit and credit, change output pending)", site=c.site_of(uk, g_), detail=cl))