"""C06 - A crash at any point leaves a loadable, consistent, recoverable wallet (structural conditions)."""
from . import common as c
from .. import cfg, panics, valueflow as vf, pp
from ..callgraph import non_production, EFFECTS
from ..engine import Finding
from .shared import single_batch, BATCH_WRITES

SEL = c.LW + "internal::selection::"
UPD = c.LW + "internal::updater::"
SCAN = c.LW + "internal::scan::"
OWNER = c.LW + "api_impl::owner::"
LM = c.IMPLS + "backends::lmdb::"
BACKEND = "<" + LM + "LMDBBackend<'ck, C, K> as " + c.LW + "types::WalletBackend<'ck, C, K>>::"
BATCH = "<" + LM + "Batch<'a, C, K> as " + c.LW + "types::WalletOutputBatch<K>>::"
SEED = c.IMPLS + "lifecycle::seed::"

ATOMIC_GROUPS = {
    SEL + "lock_tx_context": "lock inputs + change outputs + TxSent entry",
    SEL + "build_recipient_output": "received output + TxReceived entry",
    UPD + "cancel_tx_and_outputs": "unlock/delete outputs + cancelled entry",
    UPD + "apply_api_outputs": "one refresh = one batch",
    UPD + "receive_coinbase": "coinbase candidate",
    SCAN + "restore_missing_output": "restored output + its log entry",
    BACKEND + "next_child": "child index bump",
}

FS_EFFECTS = (
    "std::fs::remove_file", "std::fs::rename", "std::fs::create_dir_all", "std::fs::File::create", "std::io::Write::write_all",
    "std::fs::File::sync_all", "std::fs::remove_dir_all", "std::fs::write",
)
STORE_EFFECTS = ("grin_store::lmdb::Batch::<'a>::put", "grin_store::lmdb::Batch::<'a>::put_ser", "grin_store::lmdb::Batch::<'a>::delete", "grin_store::lmdb::Batch::<'a>::commit")

DROP_ALLOW = {
    (c.CTL + "command::output_slatepack", "std::fs::create_dir_all"): "CLI output directory for slatepack files; a failure resurfaces as the error of the File::create that follows; no wallet state involved",
    (BATCH + "delete", "grin_store::lmdb::Batch::<'a>::delete"): "deleting an output key that is not present must not fail the caller (grin_store returns NotFound); other LMDB errors resurface at commit()",
    ("<" + c.IMPLS + "lifecycle::default::DefaultLCProvider<'a, C, K> as " + c.LW + "types::WalletLCProvider<'a, C, K>>::change_password", SEED + "WalletSeed::init_file"): "the result is verified immediately: from_file(new password) must succeed and the seeds are compared before the backup is removed (C12.R5)",
}

_OWNREC = "value written by this wallet inside an atomic LMDB batch (hex of a commitment / derivable commitment); not torn by a crash"
_LMDBENV = "fails only if LMDB cannot open a read transaction or cursor; the trait returns an iterator, not a Result; not a consequence of a torn write"
R5_ALLOW = {
    (BACKEND + "iter", "expect *"): (1, _LMDBENV),
    (BACKEND + "tx_log_iter", "expect *"): (1, _LMDBENV),
    (BACKEND + "acct_path_iter", "expect *"): (1, _LMDBENV),
    (BACKEND + "get_private_context", "assert:BoundsCheck "): (4, "index i in 0..SECRET_KEY_SIZE (32) into [u8; 32] key and mask arrays"),
    (LM + "LMDBBackend::<'ck, C, K>::new", "expect ()"): (2, "creating the wallet's data directories at start-up; environment failure, not wallet state"),
    (LM + "LMDBBackend::<'ck, C, K>::new", "unwrap &str"): (1, "db path is built from a &str and valid UTF-8"),
    (UPD + "retrieve_outputs::{closure#4}", "unwrap alloc::vec::Vec<u8>"): (1, _OWNREC),
    (UPD + "retrieve_outputs::{closure#4}", "unwrap secp256k1zkp::pedersen::Commitment"): (1, "keychain.commit over the wallet's own key id; the keychain was obtained (mask checked) just above"),
    (UPD + "retrieve_txs", "unwrap lw::api_impl::types::RetrieveTxQueryArgs"): (1, "inside `if query_args.is_some() && ..`"),
}


def r5_allowed(fid, what, used):
    for (f, w), (n, reason) in R5_ALLOW.items():
        if f == fid and (w == what or (w.endswith("*") and what.startswith(w[:-1]))):
            used[(f, w)] = used.get((f, w), 0) + 1
            if used[(f, w)] <= n:
                return reason
    return None


def result_dropped(fn, b, t):
    """True if the Result returned by the call terminating block b is never looked at."""
    d = t["d"]
    if d[1]:
        return False
    l = d[0]
    if l == 0:
        return False
    if not (t.get("dty") or "").startswith("core::result::Result<"):
        return False
    for bb in fn.bbs:
        for s in bb["s"]:
            if s["k"] != "a":
                continue
            r = s["r"]
            for key in ("o", "l", "r"):
                o = r.get(key)
                if isinstance(o, dict):
                    p = vf.op_place(o)
                    if p and p[0] == l:
                        return False
            if "p" in r and r["p"][0] == l:
                return False
            for _n, o in r.get("f", []):
                p = vf.op_place(o)
                if p and p[0] == l:
                    return False
        tt = bb["t"]
        if tt["k"] == "call":
            for a in tt["a"]:
                p = vf.op_place(a)
                if p and p[0] == l:
                    return False
        elif tt["k"] == "sw":
            p = vf.op_place(tt["o"])
            if p and p[0] == l:
                return False
    return True


def run(ctx):
    run = ctx.run
    db = ctx.db
    R1 = "C06.R1"
    run.rule(R1, "atomic groups: every effect of the group on one batch between its creation and a single commit", floor=20)
    for fid, what in sorted(ATOMIC_GROUPS.items()):
        f = ctx.fn(fid)
        if f:
            single_batch(ctx, R1, f)
    lk = ctx.fn(SEL + "lock_tx_context")
    if lk:
        c.require_pass(ctx, R1, lk.id, c.WOB + "commit", ("call", c.WB + "store_tx"), "the side file is written only after the reservation batch committed Ok (a crash can lose the file, never leave a reservation without its log entry)")

    R2 = "C06.R2"
    run.rule(R2, "reserved => logged: every caller of lock_output saves a TxSent entry in the same batch and links the output", floor=1)
    for fid, f in sorted(db.fns.items()):
        if non_production(fid):
            continue
        lo = cfg.find_calls(f, c.WOB + "lock_output")
        if not lo:
            continue
        ste = cfg.find_calls(f, c.WOB + "save_tx_log_entry")
        links = vf.field_assignments(f, c.LW + "types::OutputData", "tx_log_entry")
        held = bool(ste) and bool(links)
        if held:
            # the coin handed to lock_output is the one whose tx_log_entry was set from next_tx_log_id
            held = any(vf.has_call(vf.get_flow(f).of_rvalue(s["r"]), c.WOB + "next_tx_log_id") for _b, s in links)
            # and on every Ok path a log entry is saved after locking
            e = c.after_call_edges(f, c.WOB + "save_tx_log_entry")
            held = held and cfg.must_pass(f, e, cfg.return_blocks(f), cut_nodes=cfg.error_return_blocks(f))[0]
        run.instance(R2, {"fn": pp.short(fid), "obligation": "lock_output accompanied by save_tx_log_entry and coin.tx_log_entry := next_tx_log_id"}, held=held)
        if not held:
            run.finding(Finding(R2, fid, "outputs are locked without a log entry that references them", site=c.site_of(f, lo[0][0])))

    R3 = "C06.R3"
    run.rule(R3, "storage / file-system errors are never dropped", floor=120)
    effect_names = set(EFFECTS) | set(FS_EFFECTS) | set(STORE_EFFECTS) | {c.WB + "batch", c.WB + "get", c.WB + "get_private_context", c.WB + "get_tx_log_entry", SEED + "WalletSeed::init_file", SEED + "WalletSeed::backup_seed", SEED + "WalletSeed::delete_seed_file"}
    n = 0
    for fid, f in sorted(db.fns.items()):
        if non_production(fid) or f.crate not in ("grin_wallet_libwallet", "grin_wallet_impls", "grin_wallet_api", "grin_wallet_controller"):
            continue
        for b, t in f.calls():
            fn_ = t.get("f")
            if fn_ not in effect_names:
                continue
            if not (t.get("dty") or "").startswith("core::result::Result<"):
                continue
            n += 1
            dropped = result_dropped(f, b, t)
            reason = DROP_ALLOW.get((fid, fn_)) if dropped else None
            if reason:
                run.note("C06.R3 allow-list: %s drops the result of %s: %s" % (pp.short(fid), pp.short(fn_), reason))
            run.instance(R3, {"fn": pp.short(fid), "callee": pp.short(fn_), "site": t["sp"].split(":")[1]}, held=(not dropped) or bool(reason))
            if dropped and not reason:
                run.finding(Finding(R3, fid, "result of %s is dropped" % pp.short(fn_), site=c.site_of(f, b)))

    R4 = "C06.R4"
    run.rule(R4, "partially written files are errors: no unwrap/expect on values parsed from file content", floor=3)
    readers = {
        BACKEND + "get_stored_tx": "stored transaction",
        SEED + "WalletSeed::from_file": "seed file",
        c.IMPLS + "adapters::slatepack::PathToSlatepack::<'a>::get_slatepack_file_contents": "slatepack file",
    }
    for fid, what in sorted(readers.items()):
        f = ctx.fn(fid)
        if not f:
            continue
        reads = [(b, t) for b, t in f.calls() if t.get("f") in ("std::io::Read::read_to_string", "std::io::Read::read_to_end")]
        held = bool(reads)
        bad = []
        if held:
            bufs = {vf.strip_clones(f, t["a"][1]) for _b, t in reads}
            for s in panics.sites_of(f):
                if s.kind in ("unwrap", "expect") or s.kind.startswith("index") or s.kind == "copy_from_slice":
                    o = vf.origins(f, s.ops[0]) if s.ops else set()
                    locs = set()
                    # does the receiver derive from the buffer?
                    fl = vf.get_flow(f)
                    p = vf.op_place(s.ops[0]) if s.ops else None
                    derives = False
                    if p is not None:
                        seen = set()
                        stack = [p[0]]
                        while stack:
                            l = stack.pop()
                            if l in seen:
                                continue
                            seen.add(l)
                            if l in bufs:
                                derives = True
                            stack.extend(fl.deps[l])
                    if derives and not panics.discharge(s, ctx.db):
                        bad.append(s)
        # ... and a parse failure of the content is returned as an error, not turned into "nothing there" / a default
        swallowed = []
        if held:
            fl = vf.get_flow(f)

            def from_buf(o):
                p = vf.op_place(o)
                if p is None:
                    return False
                seen, stack = set(), [p[0]]
                while stack:
                    l = stack.pop()
                    if l in seen:
                        continue
                    seen.add(l)
                    if l in bufs:
                        return True
                    stack.extend(fl.deps[l])
                return False

            for b, t in f.calls():
                rty = f.locals[t["d"][0]]["ty"] if not t["d"][1] else ""
                if not rty.startswith("core::result::Result<") or not any(from_buf(a) for a in t["a"]):
                    continue
                if (t.get("f") or "") in vf.TRANSPARENT_CALLS or (t.get("f") or "").endswith(("Result::<T, E>::map_err", "Try::branch", "FromResidual::from_residual")):
                    continue
                g_ = cfg.call_guard(f, b)
                okp = bool(g_.fail)
                if okp:
                    par = cfg.reach(f, starts=[d_ for (_s, d_) in g_.fail], cut_nodes=cfg.error_return_blocks(f))
                    okp = not any(r in par for r in cfg.return_blocks(f))
                if not okp:
                    swallowed.append((b, t))
        run.instance(R4, {"fn": pp.short(fid), "file": what, "obligation": "a failure to parse the content is returned as an error", "swallowed": [c.site_of(f, b) for b, _t in swallowed]}, held=held and not swallowed)
        for b, t in swallowed:
            run.finding(Finding(R4, fid, "a failure of %s on the %s content is not returned as an error (a truncated file would read as absent or as a default)" % ((t.get("f") or "?").split("::")[-1], what), site=c.site_of(f, b)))
        run.instance(R4, {"fn": pp.short(fid), "file": what, "obligation": "no panic site consumes a value derived from the read buffer", "reads": len(reads), "bad": [x.site() for x in bad]}, held=held and not bad)
        if not reads:
            run.error("C06.R4: %s no longer reads a file with read_to_string/read_to_end (anchor missing)" % fid)
        for s in bad:
            run.finding(Finding(R4, fid, "%s on a value parsed from the %s" % (s.kind, what), site=s.site()))

    R5 = "C06.R5"
    run.rule(R5, "queries after reopen do not panic on the wallet's own bookkeeping", floor=12)
    names = [BACKEND + n_ for n_ in ("iter", "tx_log_iter", "get", "get_tx_log_entry", "acct_path_iter", "last_confirmed_height", "last_scanned_block", "init_status", "get_acct_path", "get_stored_tx", "get_private_context", "current_child_index")]
    names += [LM + "LMDBBackend::<'ck, C, K>::new", UPD + "retrieve_outputs", UPD + "retrieve_txs", UPD + "retrieve_info", UPD + "apply_advanced_tx_list_filtering",
              OWNER + "get_stored_tx", OWNER + "retrieve_outputs", OWNER + "retrieve_txs", OWNER + "retrieve_summary_info"]
    fns = []
    for n_ in names:
        f = ctx.fn(n_)
        if f:
            fns.append(f)
            fns += [db.fns[k] for k in db.closures_of(n_)]
    used = {}
    for s in sorted(panics.all_sites(fns, ctx.db), key=lambda s: (s.fn.id, s.sp)):
        what = "%s %s" % (s.kind, s.detail)
        item = {"fn": pp.short(s.fn.id), "site": s.site(), "what": what}
        if s.discharged:
            item["discharged_by"] = s.discharged
            run.instance(R5, item, held=True)
            continue
        reason = r5_allowed(s.fn.id, what, used)
        if reason:
            item["allowed"] = reason
            run.instance(R5, item, held=True)
            continue
        run.instance(R5, item, held=False)
        det = "panic-capable site on a query path used after reopening the wallet"
        if s.fn.id == UPD + "retrieve_info" and what.startswith("assert:Overflow"):
            det += "; the balance sums are not bounded by the coin supply: the value of an Unconfirmed record is whatever an unauthenticated sender's slate said (two receives of u64::MAX)"
        run.finding(Finding(R5, s.fn.id, what, site=s.site(), detail=det))
    R6 = "C06.R6"
    run.rule(R6, "no write is silently lost: a batch that received a write is committed (Ok) before the function returns Ok", floor=30)
    from .shared import writes_committed
    writes_committed(ctx, R6)
    R7 = "C06.R7"
    run.rule(R7, "the signing context is deleted last: only after the finalised transaction and its log entry are stored (a crash or write error in between leaves a transaction that can still be completed or cancelled)", floor=2)
    fz7 = c.LW + "api_impl::foreign::finalize_tx"
    ffz7 = ctx.fn(fz7)
    if ffz7 is None:
        run.error("C06.R7: foreign::finalize_tx not found")
    else:
        c.require_pass(ctx, R7, fz7, c.LW + "internal::tx::update_stored_tx", ("call", c.WOB + "delete_private_context"), "delete_private_context requires update_stored_tx Ok")
        c.require_pass(ctx, R7, fz7, c.LW + "internal::tx::complete_tx", ("call", c.WOB + "delete_private_context"), "delete_private_context requires complete_tx Ok")
    R8 = "C06.R8"
    run.rule(R8, "an entry is cancelled together with the release of its outputs: the function that turns a log entry into its *Cancelled form writes the output record(s) in the same single batch", floor=2)
    TLE = c.LW + "types::TxLogEntry"
    TLT = c.LW + "types::TxLogEntryType"
    n8 = 0
    for fid, f in sorted(db.fns.items()):
        if non_production(fid):
            continue
        lits = {st["d"][0] for bb in f.bbs for st in bb["s"] if st["k"] == "a" and not st["d"][1] and st["r"]["k"] == "agg" and st["r"].get("adt") == TLT and st["r"].get("var") in ("TxSentCancelled", "TxReceivedCancelled")}
        cancels = []
        for b, st in vf.field_assignments(f, TLE, "tx_type"):
            r = st["r"]
            if r["k"] == "agg" and r.get("adt") == TLT and r.get("var") in ("TxSentCancelled", "TxReceivedCancelled"):
                cancels.append((b, st))
            elif r["k"] == "use" and vf.op_place(r["o"]) and vf.op_place(r["o"])[0] in lits:
                cancels.append((b, st))
        if not cancels:
            continue
        n8 += 1
        single_batch(ctx, R8, f)
        ob = ctx.eff.effect_blocks(f, {"save_output", "delete_output"})
        sb = ctx.eff.effect_blocks(f, {"save_tx_log_entry"})
        held = bool(ob) and bool(sb)
        run.instance(R8, {"fn": pp.short(fid), "obligation": "the batch that saves the cancelled entry also carries the output write (save / delete)", "output writes": len(ob), "entry writes": len(sb)}, held=held)
        # a transaction has several inputs: the batch that cancels the entry releases all it has locked, not only the
        # one record the caller is repairing (the others would stay Locked under a cancelled entry until their turn)
        if fid.startswith(c.LW + "internal::scan::"):
            from .shared import released_as_unspent
            rel = [b_ for b_, t_ in cfg.find_calls(f, c.WOB + "save") if vf.has_call(vf.origins(f, t_["a"][1]), c.WB + "iter") and released_as_unspent(f, b_, t_)]
            h_rel = bool(rel) and bool(cfg.find_calls(f, c.WB + "iter"))
            run.instance(R8, {"fn": pp.short(fid), "obligation": "the cancelling batch releases every record the entry still has locked (read from the wallet, saved in the same batch)"}, held=h_rel)
            if not h_rel:
                run.finding(Finding(R8, fid, "a scan cancels an entry while repairing one of its outputs and leaves the entry's other inputs Locked until their own turn: a crash in between (or a scanned range that does not reach them) leaves them reserved under a cancelled transaction", site=c.site_of(f, cancels[0][0])))
        if not held:
            run.finding(Finding(R8, fid, "a log entry is cancelled in a batch of its own; the output it refers to is released in a later batch: a crash in between leaves a reserved (or unconfirmed) output whose transaction is cancelled and that no cancel can release", site=c.site_of(f, cancels[0][0])))
    if n8 == 0:
        run.error("C06.R8: no function assigns a *Cancelled entry type (anchor missing)")
    R9 = "C06.R9"
    run.rule(R9, "a restore that died between its per-output commits and its last step is finished by the next scan: the index / account step is fed from every output found on chain, whether or not this run had to restore it", floor=1)
    from .C15 import scan_index_covers_all
    scan_index_covers_all(ctx, R9)
    R10 = "C06.R10"
    run.rule(R10, "a failing (error-returning) write stops the operation: from the error edge of a persistent effect (batch write, commit, stored-transaction file) the function reaches neither a further persistent effect nor an Ok return - the caller can repeat the step, nothing later was built on a write that did not happen", floor=40)
    EFF10 = ("store_tx", "save", "save_tx_log_entry", "commit", "delete", "lock_output", "save_private_context", "delete_private_context", "save_child_index", "save_acct_path", "save_last_confirmed_height", "save_last_scanned_block", "save_init_status", "next_tx_log_id", "delete_tx_log_entry")
    from ..callgraph import non_production as _np10
    n10 = 0
    for fid, f in sorted(db.fns.items()):
        if _np10(fid) or not fid.startswith(c.LW):
            continue
        eff10 = okr10 = None
        for b, t in f.calls():
            cal = t.get("f") or ""
            if not (cal.startswith(c.WOB) or cal.startswith(c.WB)) or cal.split("::")[-1] not in EFF10:
                continue
            if not (t.get("dty") or "").startswith("core::result::Result<"):
                continue
            g = cfg.call_guard(f, b)
            if not g.fail:
                continue
            n10 += 1
            if eff10 is None:
                eff10 = ctx.eff.effect_blocks(f)
                okr10 = cfg.ok_value_blocks(f)
            after = cfg.reach(f, starts=[d for (_s, d) in g.fail], cut_edges=g.ok, cut_nodes=frozenset({b}))
            w = sorted(x for x in after if x in eff10)
            o = sorted(x for x in after if x in okr10)
            held = not w and not o
            run.instance(R10, {"fn": pp.short(fid), "effect": cal.split("::")[-1], "site": c.site_of(f, b), "effects after the failure": len(w), "Ok returns after the failure": len(o)}, held=held)
            if not held:
                run.finding(Finding(R10, fid, "after a failed %s the function goes on (%s): the operation reports success, or builds further state, on a write that did not happen" % (cal.split("::")[-1], "further persistent effects" if w else "an Ok return"), site=c.site_of(f, b)))
    if n10 < 40:
        run.error("C06.R10: only %d persistent effects with an error edge found (anchor missing)" % n10)
    run.not_decided += ["that the invariants hold at every crash point of every multi-batch operation (an enumeration over executions); R1-R3 are the structural conditions the code relies on", "LMDB's own atomicity / durability", "file-system semantics of rename/remove"]
