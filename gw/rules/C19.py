"""C19 - Transaction-log queries return exactly what was asked for."""
from . import common as c
from .. import cfg, dectree, valueflow as vf, pp
from ..engine import Finding

UPD = c.LW + "internal::updater::"
Q = c.LW + "api_impl::types::RetrieveTxQueryArgs"
TLE = c.LW + "types::TxLogEntry"
TLT = c.LW + "types::TxLogEntryType"
ADV = UPD + "apply_advanced_tx_list_filtering"

# query field -> (TxLogEntry fields read, operator `entry OP query` or variant set, kind)
TABLE = {
    "min_id": ({"id"}, "Ge"),
    "max_id": ({"id"}, "Le"),
    "min_amount": ({"tx_type", "amount_debited", "amount_credited"}, "Ge"),
    "max_amount": ({"tx_type", "amount_debited", "amount_credited"}, "Le"),
    "min_creation_timestamp": ({"creation_ts"}, "Ge"),
    "max_creation_timestamp": ({"creation_ts"}, "Le"),
    "min_confirmed_timestamp": ({"confirmation_ts"}, "Ge"),
    "max_confirmed_timestamp": ({"confirmation_ts"}, "Le"),
    "exclude_cancelled": ({"tx_type"}, ("Ne", {"TxReceivedCancelled", "TxSentCancelled"})),
    "include_outstanding_only": ({"confirmed"}, ("flag", False)),
    "include_confirmed_only": ({"confirmed"}, ("flag", True)),
    "include_sent_only": ({"tx_type"}, ("Eq", {"TxSent", "TxSentCancelled"})),
    "include_received_only": ({"tx_type"}, ("Eq", {"TxReceived", "TxReceivedCancelled"})),
    "include_coinbase_only": ({"tx_type"}, ("Eq", {"ConfirmedCoinbase"})),
    "include_reverted_only": ({"tx_type"}, ("Eq", {"TxReverted"})),
}
NON_FILTER = {"limit", "sort_field", "sort_order"}


def fields_read(fn, adt):
    out = set()
    for b, bb in enumerate(fn.bbs):
        for s in bb["s"]:
            if s["k"] != "a":
                continue
            r = s["r"]
            ps = []
            if "p" in r:
                ps.append(r["p"])
            for key in ("o", "l", "r"):
                if isinstance(r.get(key), dict) and vf.op_place(r[key]):
                    ps.append(vf.op_place(r[key]))
            for p in ps:
                for e in p[1]:
                    if isinstance(e, dict) and e.get("a") == adt:
                        out.add(e["n"])
        t = bb["t"]
        if t["k"] == "call":
            for a in t["a"]:
                p = vf.op_place(a)
                if p:
                    for e in p[1]:
                        if isinstance(e, dict) and e.get("a") == adt:
                            out.add(e["n"])
    return out


def run(ctx):
    run = ctx.run
    db = ctx.db
    adt = db.adts.get(Q)
    f = ctx.fn(ADV)
    R1 = "C19.R1"
    run.rule(R1, "every criterion is applied, to the right field, with the right (inclusive) operator", floor=18)
    R2 = "C19.R2"
    run.rule(R2, "absent criteria do not filter: every filter closure returns true on the None edge", floor=15)
    if not adt or not f:
        run.error("C19: RetrieveTxQueryArgs or apply_advanced_tx_list_filtering not found")
        return
    qfields = [x["name"] for x in adt["variants"][0]["fields"]]
    closures = [db.fns[k] for k in db.closures_of(ADV, recursive=False)]
    by_field = {}
    for g in closures:
        qs = fields_read(g, Q)
        for q in qs:
            by_field.setdefault(q, []).append(g)
    main_reads = fields_read(f, Q)
    for q in qfields:
        if q in NON_FILTER:
            held = q in main_reads
            run.instance(R1, {"criterion": q, "obligation": "read by apply_advanced_tx_list_filtering"}, held=held)
            if not held:
                run.finding(Finding(R1, ADV, "query field %s is never applied" % q, site=f.loc()))
            continue
        gs = by_field.get(q, [])
        if q not in TABLE:
            run.instance(R1, {"criterion": q, "obligation": "criterion is in the operator table"}, held=False)
            run.finding(Finding(R1, ADV, "new query field %s has no entry in the operator table" % q, site=f.loc()))
            continue
        if len(gs) != 1:
            run.instance(R1, {"criterion": q, "closures_reading_it": len(gs)}, held=False)
            run.finding(Finding(R1, ADV, "query field %s is %s" % (q, "never applied" if not gs else "read by %d filter closures" % len(gs)), site=f.loc()))
            continue
        g = gs[0]
        exp_fields, exp_op = TABLE[q]
        others = fields_read(g, Q) - {q}
        ef = fields_read(g, TLE)
        ok_fields = ef == exp_fields and not others
        fl = vf.get_flow(g)
        ok_op = False
        detail = ""
        if isinstance(exp_op, str):
            is_entry = lambda o: any(x[0] == "field" and x[1] == TLE for x in o) and not vf.has_field(o, Q, q)
            is_query = lambda o: vf.has_field(o, Q, q) and not any(x[0] == "field" and x[1] == TLE for x in o)
            ops = [x.normalized(is_entry, is_query, fl) for x in cfg.comparisons(g)]
            ops = [o for o in ops if o in ("Ge", "Le", "Gt", "Lt")]
            ok_op = bool(ops) and all(o == exp_op for o in ops)
            detail = str(ops)
        else:
            kind, val = exp_op
            if kind == "flag":
                # include_*_only on the boolean `confirmed`: the closure's result on the Some(true) path is
                # tx.confirmed (val True) or !tx.confirmed (val False)
                nots = sum(1 for b, bb in enumerate(g.bbs) for s in bb["s"] if s["k"] == "a" and s["r"]["k"] == "un" and s["r"]["op"] == "Not")
                ok_op = (nots == 1) if val is False else (nots == 0)
                detail = "negations=%d" % nots
            else:
                vs = set()
                opk = set()
                for x in cfg.comparisons(g):
                    if x.op in ("Eq", "Ne") and x.is_call:
                        for a, b_ in ((fl.of_operand(x.l), fl.of_operand(x.r)), (fl.of_operand(x.r), fl.of_operand(x.l))):
                            if vf.has_field(a, TLE, "tx_type"):
                                for y in b_:
                                    if y[0] == "agg" and y[1] == TLT:
                                        vs.add(y[2])
                                        opk.add(x.op)
                ok_op = vs == val and opk == {kind}
                detail = "%s %s" % (sorted(opk), sorted(vs))
                if ok_op and len(val) > 1:
                    # connective: "none of" = conjunction of !=, "one of" = disjunction of ==.  In the CFG a
                    # short-circuit && assigns `false` on a comparison's false edge, || assigns `true` on a true edge.
                    def const_ret(block):
                        for st in g.bbs[block]["s"]:
                            if st["k"] == "a" and st["d"] == [0, []] and st["r"]["k"] == "use":
                                return vf.const_of_operand(g, st["r"]["o"])
                        return None
                    wrong = 0
                    for x in cfg.comparisons(g):
                        if x.op not in ("Eq", "Ne") or not x.is_call:
                            continue
                        if kind == "Ne":
                            wrong += sum(1 for (_s, d) in x.true_edges if const_ret(d) == "1")   # `a != X || ..`
                        else:
                            wrong += sum(1 for (_s, d) in x.false_edges if const_ret(d) == "0")  # `a == X && ..`
                    if wrong:
                        ok_op = False
                        detail += " combined with the wrong connective"
        held = ok_fields and ok_op
        run.instance(R1, {"criterion": q, "entry_fields": sorted(ef), "expected_fields": sorted(exp_fields), "operator": detail, "expected": str(exp_op), "other_query_fields": sorted(others)}, held=held)
        if not held:
            run.finding(Finding(R1, g.id, "criterion %s: compares %s with %s (expected %s %s)" % (q, sorted(ef), detail, sorted(exp_fields), exp_op), site=g.loc()))
        # R2: None edge => true
        pe = dectree.PathEnum(g, db)
        none_paths = 0
        bad = 0
        try:
            for p in pe.paths(0):
                lits = [e for e in p.events if e[0] == "lit" and e[1].endswith("." + q)]
                if lits and any((e[2] == "None" and e[3]) or (e[2] == ("Some",) and not e[3]) or (isinstance(e[2], tuple) and "Some" in e[2] and not e[3]) for e in lits):
                    none_paths += 1
                    v = [e[2] for e in p.events if e[0] == "set" and e[1] == "_0"]
                    if not v or v[-1] != "1":
                        bad += 1
        except dectree.TooManyPaths as e:
            run.error("C19.R2: %s" % e)
        held2 = none_paths > 0 and bad == 0
        run.instance(R2, {"criterion": q, "none_paths": none_paths, "not_true": bad}, held=held2)
        if not held2:
            run.finding(Finding(R2, g.id, "criterion %s filters although it was not supplied" % q, site=g.loc()))
    # closures that read no query field at all (other than the account filter) or unknown fields
    for g in closures:
        qs = fields_read(g, Q)
        if not qs and not fields_read(g, TLE):
            continue
    # limit -> take, sort
    takes = [t for b, t in f.calls() if (t.get("f") or "").endswith("Iterator::take")]
    held = bool(takes) and any(vf.has_field(vf.origins(f, t["a"][1]), Q, "limit") for t in takes)
    if held:
        # the limit cuts the *final* order: neither the sort nor the Desc reversal may come after it
        tb = [b for b, t in f.calls() if (t.get("f") or "").endswith("Iterator::take")]
        after = cfg.reach(f, starts=[f.bbs[b]["t"]["t"] for b in tb if f.bbs[b]["t"]["t"] is not None])
        late = [b for b, t in f.calls() if b in after and ((t.get("f") or "").endswith("::reverse") or "sort_by" in (t.get("f") or ""))]
        held = not late
    run.instance(R1, {"criterion": "limit", "obligation": "truncation by take(limit), applied after sorting and reversing"}, held=held)
    if not held:
        run.finding(Finding(R1, ADV, "limit is not applied with take(limit)", site=f.loc()))
    rev = [b for b, t in f.calls() if (t.get("f") or "").endswith("::reverse")]
    held = len(rev) == 1
    if held:
        # the reverse() is reached only through the `Desc` arm of a switch on a RetrieveTxQuerySortOrder value
        so = db.adts.get(c.LW + "api_impl::types::RetrieveTxQuerySortOrder")
        desc = [v["discr"] for v in (so["variants"] if so else []) if v["name"] == "Desc"]
        arm_edges = set()
        for b, bb in enumerate(f.bbs):
            t = bb["t"]
            if t["k"] != "sw" or not desc:
                continue
            p = vf.op_place(t["o"])
            if p is None:
                continue
            isdisc = False
            for d in f.defs().get(p[0], []):
                if d[0] == "a" and d[3]["r"]["k"] == "disc":
                    q = d[3]["r"]["p"]
                    base_ty = f.locals[q[0]]["ty"]
                    if "RetrieveTxQuerySortOrder" in base_ty and not any(isinstance(e, dict) for e in q[1]):
                        isdisc = True
            if isdisc:
                for v, tb in t["t"]:
                    if v == desc[0]:
                        arm_edges.add((b, tb))
        held = bool(arm_edges) and cfg.must_pass(f, arm_edges, set(rev))[0]
    run.instance(R1, {"criterion": "sort_order", "obligation": "Desc => reverse()"}, held=held)
    if not held:
        run.finding(Finding(R1, ADV, "sort_order Desc no longer reverses", site=f.loc()))
    # sort keys: each sort_by_key closure reads the same-named field
    SORT = {"Id": {"id"}, "CreationTimestamp": {"creation_ts"}, "ConfirmationTimestamp": {"confirmation_ts"}, "TotalAmount": {"tx_type", "amount_debited", "amount_credited"}, "AmountCredited": {"amount_credited"}, "AmountDebited": {"amount_debited"}}
    keyfields = []
    for b, t in f.calls():
        if (t.get("f") or "").endswith("::sort_by_key"):
            for a in t["a"]:
                for x in vf.producers(f, a):
                    if x[0] == "agg" and x[1] == "closure":
                        pass
            cl = [y for y in vf.origins(f, t["a"][1]) if y[0] == "closure"]
            for y in cl:
                if y[1] in db.fns:
                    keyfields.append(frozenset(fields_read(db.fns[y[1]], TLE)))
    exp = sorted(map(sorted, SORT.values())) + [["id"]]
    held = sorted(map(sorted, keyfields)) == sorted(exp)
    run.instance(R1, {"criterion": "sort_field", "sort_keys": sorted(map(sorted, keyfields))}, held=held)
    if not held:
        run.finding(Finding(R1, ADV, "sort keys changed: %s" % sorted(map(sorted, keyfields)), site=f.loc()))

    # "amount" of an entry: debited - credited for outgoing types {TxSent, TxSentCancelled}, credited - debited otherwise;
    # the two amount filters and the TotalAmount sort key must agree on that (sibling cross-check)
    amount_closures = [g for g in [db.fns[k] for k in db.closures_of(ADV, recursive=True)] if {"tx_type", "amount_debited", "amount_credited"} <= fields_read(g, TLE)]
    if len(amount_closures) != 3:
        run.error("C19.R1: expected 3 closures computing an entry's amount (min_amount, max_amount, TotalAmount sort), found %d" % len(amount_closures))
    for g in amount_closures:
        fl = vf.get_flow(g)
        outgoing = set()
        true_edges = set()
        for x in cfg.comparisons(g):
            if x.op == "Eq":
                for a, b_ in ((fl.of_operand(x.l), fl.of_operand(x.r)), (fl.of_operand(x.r), fl.of_operand(x.l))):
                    if vf.has_field(a, TLE, "tx_type"):
                        lits = [y[2] for y in vf.producers(g, x.l) | vf.producers(g, x.r) if y[0] == "agg" and y[1] == TLT]
                        if len(lits) == 1:
                            outgoing.add(lits[0])
                            true_edges |= x.true_edges
        subs = [(b, t) for b, t in g.calls() if (t.get("f") or "").endswith("ops::arith::Sub::sub") or (t.get("fa") or "").endswith("Sub>::sub")]
        deb_first = [b for b, t in subs if vf.has_field(vf.producers(g, t["a"][0]) | fl.of_operand(t["a"][0]), TLE, "amount_debited") and not vf.has_field(vf.producers(g, t["a"][0]), TLE, "amount_credited")]
        cred_first = [b for b, t in subs if vf.has_field(vf.producers(g, t["a"][0]) | fl.of_operand(t["a"][0]), TLE, "amount_credited") and not vf.has_field(vf.producers(g, t["a"][0]), TLE, "amount_debited")]
        held = outgoing == {"TxSent", "TxSentCancelled"} and len(deb_first) == 1 and len(cred_first) == 1
        if held:
            # debited - credited only on an outgoing edge; credited - debited never on one
            out_reach = cfg.reach(g, starts=[d for (_s, d) in true_edges])
            held = cfg.must_pass(g, true_edges, set(deb_first))[0] and not any(b in out_reach for b in cred_first)
        run.instance(R1, {"closure": pp.short(g.id).split("::")[-1], "obligation": "amount = debited - credited exactly for {TxSent, TxSentCancelled}, credited - debited otherwise", "outgoing_types": sorted(outgoing)}, held=held)
        if not held:
            run.finding(Finding(R1, ADV, "an entry's amount is not computed as debited - credited exactly for {TxSent, TxSentCancelled} (siblings disagree)", site=g.loc(), detail="outgoing=%s subs=%d/%d" % (sorted(outgoing), len(deb_first), len(cred_first))))

    R3 = "C19.R3"
    run.rule(R3, "both query paths restrict to the account argument", floor=2)
    from .C04 import account_comparisons, closure_true_requires
    for fid in (ADV, UPD + "retrieve_txs"):
        ff = ctx.fn(fid)
        if not ff:
            continue
        cm = account_comparisons(ctx, ff)
        held = bool(cm) and all(closure_true_requires(g, x, db, allow_none=True) or g.dk != "Closure" for g, x in cm)
        run.instance(R3, {"fn": pp.short(fid), "account_comparisons": len(cm)}, held=held)
        if not held:
            run.finding(Finding(R3, fid, "log query does not restrict to the account argument", site=ff.loc()))
    rt = ctx.fn(UPD + "retrieve_txs")
    if rt:
        # the advanced path is handed the account
        for b, t in cfg.find_calls(rt, ADV):
            pkp = c.param(rt, "parent_key_id", "Identifier")
            pn = [pkp] if pkp is not None else []
            held = len(t["a"]) >= 3 and bool(pn) and ("arg", pn[0]) in vf.origins(rt, t["a"][2])
            run.instance(R3, {"fn": "retrieve_txs", "obligation": "advanced path receives the account argument"}, held=held)
            if not held:
                run.finding(Finding(R3, rt.id, "advanced query path is not given the account", site=c.site_of(rt, b)))

    # the owner API always asks for the active account's entries: every look-up (listing, by log id, by slate id,
    # advanced) is handed Some(active account) - a slate id is not unique inside a wallet (self-send between accounts)
    ort = ctx.fn(c.LW + "api_impl::owner::retrieve_txs")
    if ort is None:
        run.error("C19.R3: api_impl::owner::retrieve_txs not found")
    else:
        for b, t in cfg.find_calls(ort, UPD + "retrieve_txs"):
            pr = vf.producers(ort, t["a"][4])
            somes = [x for x in pr if x[0] == "agg" and x[1] == "core::option::Option"]
            held = bool(somes) and all(x[2] == "Some" for x in somes) and vf.has_call(vf.origins(ort, t["a"][4]), c.WB + "parent_key_id")
            run.instance(R3, {"fn": "owner::retrieve_txs", "obligation": "the log look-up is always restricted to Some(active account)", "account argument": sorted(map(str, somes))}, held=held)
            if not held:
                run.finding(Finding(R3, ort.id, "a log look-up of the owner API is not restricted to the active account on every path (a slate id is not unique inside a wallet: a look-up by slate id would also return the other account's side of a self-send)", site=c.site_of(ort, b)))

    gst = ctx.fn(c.LW + "api_impl::owner::get_stored_tx")
    if gst is None:
        run.error("C19.R3: api_impl::owner::get_stored_tx not found")
    else:
        cm = account_comparisons(ctx, gst)
        held = bool(cm) and all(closure_true_requires(g, x, db) or g.dk != "Closure" for g, x in cm)
        run.instance(R3, {"fn": "owner::get_stored_tx", "obligation": "the log entry whose stored transaction is fetched by log id is looked up inside the active account (log ids repeat across accounts)", "account_comparisons": len(cm)}, held=held)
        if not held:
            run.finding(Finding(R3, gst.id, "a stored transaction is fetched by log id without restricting the look-up to the active account: with the same id in two accounts another account's transaction is returned (and re-posted by `repost`)", site=gst.loc()))

    R5 = "C19.R5"
    run.rule(R5, "a confirmation-time criterion is not satisfied by an entry that has no confirmation time", floor=2)
    advf = ctx.fn(ADV)
    n5 = 0
    if advf:
        for k in db.closures_of(advf.id, recursive=False):
            g = db.fns[k]
            try:
                paths = dectree.PathEnum(g, db).paths(0)
            except dectree.TooManyPaths:
                continue
            rel = [p for p in paths if any(e[0] == "lit" and e[1].endswith(".confirmation_ts") for e in p.events)]
            if not rel:
                continue
            n5 += 1
            bad = 0
            for p in rel:
                none_ts = any(e[0] == "lit" and e[1].endswith(".confirmation_ts") and ((e[2] == "None" and e[3]) or (isinstance(e[2], tuple) and "Some" in e[2] and not e[3]) or (e[2] == "Some" and e[3] is False)) for e in p.events)
                crit = any(e[0] == "lit" and "_confirmed_timestamp" in e[1] and e[2] == "Some" and e[3] is True for e in p.events)
                if none_ts and crit:
                    v = [e[2] for e in p.events if e[0] == "set" and e[1] == "_0"]
                    if not v or v[-1] != "0":
                        bad += 1
            crit_names = sorted({e[1].split(".")[-1] for p in rel for e in p.events if e[0] == "lit" and "_confirmed_timestamp" in e[1]})
            cname = "/".join(crit_names) or "?"
            run.instance(R5, {"fn": pp.short(k), "criterion": cname, "obligation": "criterion given and entry.confirmation_ts None => false", "paths returning true": bad}, held=bad == 0)
            if bad:
                run.finding(Finding(R5, ADV, "the %s criterion lets every entry without a confirmation time through (an outstanding entry satisfies `confirmed after <future date>`)" % cname, site=g.loc()))
        if n5 == 0:
            run.error("C19.R5: no filter closure reads TxLogEntry.confirmation_ts (anchor missing)")

    R4 = "C19.R4"
    run.rule(R4, "legacy look-ups: by log id, by slate id, outstanding predicate", floor=3)
    if rt:
        cls = [db.fns[k] for k in db.closures_of(rt.id)]
        idc = slc = outc = False
        for g in cls:
            fl = vf.get_flow(g)
            for x in cfg.comparisons(g):
                if x.op not in ("Eq", "Ne"):
                    continue
                lo, ro = fl.of_operand(x.l), fl.of_operand(x.r)
                for a, b_ in ((lo, ro), (ro, lo)):
                    if vf.has_field(a, TLE, "id") and not vf.has_field(b_, TLE, "id"):
                        idc = True
                    if vf.has_field(a, TLE, "tx_slate_id") and not vf.has_field(b_, TLE, "tx_slate_id"):
                        slc = True
            ef = fields_read(g, TLE)
            if "confirmed" in ef and "tx_type" in ef:
                vs = set()
                for x in cfg.comparisons(g):
                    for y in fl.of_operand(x.l) | fl.of_operand(x.r):
                        if y[0] == "agg" and y[1] == TLT:
                            vs.add(y[2])
                outc = vs == {"TxReceived", "TxSent", "TxReverted"}
        # truth-table shape of the legacy filter: the four partial verdicts are conjoined, and an absent criterion is `true`
        conj_ok = none_ok = False
        for g in cls:
            if not ({"id", "tx_slate_id"} <= fields_read(g, TLE)):
                continue
            flags = {"_%d" % l for l in range(1, len(g.locals)) if g.locals[l]["ty"] == "bool" and g.locals[l].get("u")}
            try:
                ps = dectree.PathEnum(g, db).paths(0)
            except dectree.TooManyPaths as e:
                run.error("C19.R4: %s" % e)
                ps = []
            conj_ok = bool(ps) and len(flags) >= 4
            none_ok = bool(ps)
            for p in ps:
                v = [e[2] for e in p.events if e[0] == "set" and e[1] == "_0"]
                if not v or v[-1] != "0":
                    # a path that can answer `true`: none of the partial verdicts may have been false on it
                    if any(e[0] == "atom" and e[1] in flags and e[2] is False for e in p.events):
                        conj_ok = False
                evs = [e for e in p.events if e[0] in ("lit", "set")]
                for i, e in enumerate(evs):
                    if e[0] == "lit" and e[2] == "None" and e[3]:
                        nxt = [x for x in evs[i + 1:] if x[0] == "set" and x[1] in flags]
                        if not nxt or nxt[0][2] != "1":
                            none_ok = False
        run.instance(R4, {"fn": "retrieve_txs", "obligation": "the partial verdicts (account, log id, slate id, outstanding) are conjoined"}, held=conj_ok)
        if not conj_ok:
            run.finding(Finding(R4, rt.id, "legacy look-up changed: an entry can pass although one of account / log id / slate id / outstanding does not match", site=rt.loc()))
        run.instance(R4, {"fn": "retrieve_txs", "obligation": "an absent criterion (None) contributes `true`"}, held=none_ok)
        if not none_ok:
            run.finding(Finding(R4, rt.id, "legacy look-up changed: an absent criterion filters entries", site=rt.loc()))
        # a look-up by log id or by slate id is never answered by the advanced query path (which ignores both ids)
        adv = {b for b, _t in cfg.find_calls(rt, ADV)}
        if not adv:
            run.error("C19.R4: call of apply_advanced_tx_list_filtering not found in retrieve_txs")
        for pname, pty in (("tx_id", "core::option::Option<u32>"), ("tx_slate_id", "core::option::Option<uuid::Uuid>")):
            pl_ = c.param(rt, pname, pty)
            none_edges = set()
            if pl_ is not None:
                none_edges |= cfg.local_guard(rt, pl_, kind="option").fail
                for b, t in rt.calls():
                    fn_ = t.get("f") or ""
                    if fn_.endswith("Option::<T>::is_none") or fn_.endswith("Option::<T>::is_some"):
                        if vf.strip_clones(rt, t["a"][0]) == pl_ or vf.base_local_of_ref(rt, t["a"][0]) == pl_:
                            g_ = cfg.call_guard(rt, b)
                            none_edges |= (g_.ok if fn_.endswith("is_none") else g_.fail)
                # copies of the parameter matched as part of a tuple: (query_args.as_ref(), tx_id) ...
                for l in range(rt.argc + 1, len(rt.locals)):
                    if rt.locals[l]["ty"] == rt.locals[pl_]["ty"] and vf.strip_clones(rt, {"c": [l, []]}) == pl_:
                        none_edges |= cfg.local_guard(rt, l, kind="option").fail
                # ... or matched as a component of a tuple pattern: switch on discriminant(_t.N), _t = (.., P, ..)
                for b, bb in enumerate(rt.bbs):
                    t = bb["t"]
                    if t["k"] != "sw":
                        continue
                    pd = vf.op_place(t["o"])
                    if pd is None:
                        continue
                    for d in rt.defs().get(pd[0], []):
                        if d[0] != "a" or d[3]["r"]["k"] != "disc":
                            continue
                        q = d[3]["r"]["p"]
                        flds = [e for e in q[1] if isinstance(e, dict) and "f" in e]
                        if len(flds) != 1:
                            continue
                        for d2 in rt.defs().get(q[0], []):
                            if d2[0] == "a" and d2[3]["r"]["k"] == "agg" and d2[3]["r"].get("ak") == "tuple":
                                comps = d2[3]["r"]["f"]
                                n = flds[0]["f"]
                                if n < len(comps) and vf.strip_clones(rt, comps[n][1]) == pl_:
                                    for v, tb in t["t"]:
                                        if v == "0":
                                            none_edges.add((b, tb))
            h = bool(adv) and bool(none_edges) and cfg.must_pass(rt, none_edges, adv)[0]
            run.instance(R4, {"fn": "retrieve_txs", "obligation": "the advanced query path is taken only when %s is None" % pname}, held=h)
            if not h:
                run.finding(Finding(R4, rt.id, "a look-up by %s can be answered by the advanced query path, which ignores it" % pname, site=rt.loc()))
        for held, what in ((idc, "entry id compared with tx_id"), (slc, "entry slate id compared with tx_slate_id"), (outc, "outstanding = !confirmed && type in {TxReceived, TxSent, TxReverted}")):
            run.instance(R4, {"fn": "retrieve_txs", "obligation": what}, held=held)
            if not held:
                run.finding(Finding(R4, rt.id, "legacy look-up changed: " + what, site=rt.loc()))
    R6 = "C19.R6"
    run.rule(R6, "every stored log record still decodes: the fields a TxLogEntry (and the proof record nested in it) must carry are those of the base format - the log iterator ends silently at the first record it cannot decode, so one old record without a newly required field truncates every query and look-up (Ok, with entries missing)", floor=2)
    from .shared import stored_record_required_fields
    BASE6 = {
        c.LW + "types::TxLogEntry": {"parent_key_id", "id", "tx_type", "creation_ts", "confirmed", "num_inputs", "num_outputs", "amount_credited", "amount_debited"},
        c.LW + "types::StoredProofInfo": {"receiver_address", "receiver_signature", "sender_address_path", "sender_address", "sender_signature"},
    }
    for adt6, base6 in sorted(BASE6.items()):
        req6 = stored_record_required_fields(ctx, adt6)
        if req6 is None:
            run.error("C19.R6: derived Deserialize visitor of %s not found" % adt6)
            continue
        extra6 = sorted(req6 - base6)
        run.instance(R6, {"record": pp.short(adt6), "obligation": "no field beyond the base format is required to decode a stored record", "required today": sorted(req6), "base format": sorted(base6)}, held=not extra6)
        for name in extra6:
            run.finding(Finding(R6, adt6, "field `%s` of stored %s records is now required: a record written before the field existed (or without it) no longer decodes, the log iterator stops there without an error and every query / look-up silently misses the later entries" % (name, adt6.split("::")[-1]), site=""))
    R7 = "C19.R7"
    run.rule(R7, "a look-up by log id looks up the id the user typed: `txs -i <id>` and `export_proof -i <id>` do not cut the parsed id down to 32 bits", floor=2)
    from .shared import cli_id_not_narrowed
    cli_id_not_narrowed(ctx, R7, ("parse_txs_args", "parse_export_proof_args"))
    run.not_decided += ["stability of the sort"]
