"""C05 - Cancelling an unconfirmed transaction is an exact rollback."""
from . import common as c
from .. import cfg, dectree, valueflow as vf, pp
from ..engine import Finding

TX = c.LW + "internal::tx::"
UPD = c.LW + "internal::updater::"
OUTPUT_STATUS = ["Unconfirmed", "Unspent", "Locked", "Spent", "Reverted"]
TXTYPES = ["ConfirmedCoinbase", "TxReceived", "TxSent", "TxReceivedCancelled", "TxSentCancelled", "TxReverted"]

# reference rollback table (statement of the property): per status of an
# output of the cancelled transaction, the storage effect applied to it
ROLLBACK = {
    "Unconfirmed": {"delete"},
    "Reverted": {"delete"},
    "Locked": {"save:Unspent"},
    "Unspent": set(),
    "Spent": set(),
}
LOGTYPE = {
    "TxSent": "TxSentCancelled",
    "TxReceived": "TxReceivedCancelled",
    "TxReverted": "TxReceivedCancelled",
}


def run(ctx):
    run = ctx.run
    db = ctx.db
    R1 = "C05.R1"
    run.rule(R1, "cancel_tx refuses unknown / non-cancellable / confirmed entries before any effect", floor=5)
    fid = TX + "cancel_tx"
    fn = ctx.fn(fid)
    if fn:
        sink = ("call", UPD + "cancel_tx_and_outputs")
        c.require_pass(ctx, R1, fid, UPD + "retrieve_txs", sink, "cancel_tx_and_outputs requires retrieve_txs Ok")
        # a call that names no transaction (neither log id nor slate id) is refused: the rollback is reached only
        # on an edge on which one of the two ids is Some
        some_edges = set()
        for pname, nth in (("tx_id", 0), ("tx_slate_id", 0)):
            pl_ = c.param(fn, pname, "core::option::Option<u32>" if pname == "tx_id" else "core::option::Option<uuid::Uuid>", nth)
            if pl_ is None:
                continue
            some_edges |= cfg.local_guard(fn, pl_, kind="option").ok
            for b_, t_ in fn.calls():
                nm_ = t_.get("f") or ""
                if nm_.endswith(("Option::<T>::is_some", "Option::<T>::is_none")) and vf.base_local_of_ref(fn, t_["a"][0]) == pl_:
                    g_ = cfg.call_guard(fn, b_)
                    some_edges |= (g_.ok if nm_.endswith("is_some") else g_.fail)
        sb_ = {b_ for b_, _t in cfg.find_calls(fn, UPD + "cancel_tx_and_outputs")}
        h_id = bool(some_edges) and bool(sb_) and cfg.must_pass(fn, some_edges, sb_)[0]
        run.instance(R1, {"fn": "tx::cancel_tx", "obligation": "the rollback is reached only when a log id or a slate id was given", "Some-edges": len(some_edges)}, held=h_id)
        if not h_id:
            run.finding(Finding(R1, fid, "cancel_tx called with neither a log id nor a slate id is not refused: it cancels the account's entry whenever the account holds exactly one", site=fn.loc()))
        # path enumeration: every path reaching the sink has tx_vec.len()==1 edge, type in cancellable set, !confirmed
        pe = dectree.PathEnum(fn, db)
        sinks = {b for b, _ in cfg.find_calls(fn, UPD + "cancel_tx_and_outputs")}
        try:
            paths = pe.paths(0, stops=sinks)
        except dectree.TooManyPaths as e:
            run.error("C05.R1: %s" % e)
            paths = []
        reach = [p for p in paths if p.end in sinks]
        ok_type = ok_conf = ok_len = bool(reach)
        types_seen = set()
        for p in reach:
            tt = [e for e in p.events if e[0] == "lit" and e[1].endswith(".tx_type")]
            allowed = None
            for e in tt:
                if e[3] is True:
                    allowed = {e[2]} if isinstance(e[2], str) else set(e[2])
            if allowed is None or not allowed <= {"TxSent", "TxReceived", "TxReverted"}:
                ok_type = False
            else:
                types_seen |= allowed
            cf = [e for e in p.events if e[0] == "atom" and e[1].endswith(".confirmed")]
            if not cf or any(e[2] is not False for e in cf):
                ok_conf = False
            ln = [e for e in p.events if e[0] == "atom" and e[1].startswith("cmp@")]
            if not ln:
                ok_len = False
        if types_seen != {"TxSent", "TxReceived", "TxReverted"}:
            ok_type = False
        for ok, what in [
            (ok_len, "every path to cancel_tx_and_outputs passes the tx_vec.len() comparison"),
            (ok_type, "every path to cancel_tx_and_outputs has tx_type in {TxSent,TxReceived,TxReverted} (exactly these)"),
            (ok_conf, "every path to cancel_tx_and_outputs takes the !tx.confirmed edge"),
        ]:
            run.instance(R1, {"fn": "tx::cancel_tx", "obligation": what, "paths": len(reach)}, held=ok)
            if not ok:
                run.finding(Finding(R1, fid, what, site=fn.loc(), detail="types reaching the sink: %s" % sorted(types_seen)))
        # the len comparison is `!= 1`
        held = False
        for b, bb in enumerate(fn.bbs):
            for s in bb["s"]:
                if s["k"] == "a" and s["r"]["k"] == "bin" and s["r"]["op"] in ("Ne", "Eq"):
                    cv = vf.const_of_operand(fn, s["r"]["r"])
                    o = vf.origins(fn, s["r"]["l"])
                    if cv == "1" and vf.has_call(o, "*::len"):
                        held = True
        run.instance(R1, {"fn": "tx::cancel_tx", "obligation": "the entry count is compared with the constant 1"}, held=held)
        if not held:
            run.finding(Finding(R1, fid, "tx_vec.len() is not compared with 1", site=fn.loc()))
        # no effect precedes the sink
        eb = ctx.eff.effect_blocks(fn)
        pre = [b for b in eb if b not in sinks]
        run.instance(R1, {"fn": "tx::cancel_tx", "obligation": "no storage effect outside cancel_tx_and_outputs", "others": [sorted(eb[b]) for b in pre]}, held=not pre)
        if pre:
            run.finding(Finding(R1, fid, "storage effect in cancel_tx outside cancel_tx_and_outputs", site=c.site_of(fn, pre[0])))

    R2 = "C05.R2"
    run.rule(R2, "only this transaction's outputs of this account are handed to the rollback", floor=3)
    if fn:
        from .shared import rollback_scope
        rollback_scope(ctx, R2, fn, fid)

    R3 = "C05.R3"
    run.rule(R3, "rollback table per output status and log-entry type (path enumeration)", floor=8)
    cid = UPD + "cancel_tx_and_outputs"
    cf = ctx.fn(cid)
    if cf:
        pe = dectree.PathEnum(cf, db)
        # loop: find the Iterator::next call over the outputs
        nx = [b for b, t in cfg.find_calls(cf, "core::iter::traits::iterator::Iterator::next")]
        if len(nx) != 1:
            run.error("C05.R3: expected one loop in cancel_tx_and_outputs, found %d" % len(nx))
        else:
            head = nx[0]
            body_start = cf.bbs[head]["t"]["t"]
            # find the loop variable's status key: first literal on *.status
            table = {}
            for st in OUTPUT_STATUS:
                try:
                    paths = pe.paths(body_start, stops={head}, universe=None)
                except dectree.TooManyPaths as e:
                    run.error("C05.R3: %s" % e)
                    paths = []
                effs = set()
                feasible = 0
                partial = 0
                for p in paths:
                    if p.end != head:
                        continue
                    # consistent with status == st at body start?
                    ok = True
                    cur = st
                    for e in p.events:
                        if e[0] == "lit" and e[1].endswith(".status"):
                            if isinstance(e[2], str):
                                if (e[2] == cur) != e[3]:
                                    ok = False
                                    break
                        elif e[0] == "set" and e[1].endswith(".status"):
                            cur = e[2]
                    if not ok:
                        continue
                    feasible += 1
                    cur = st
                    mine = set()
                    for e in p.events:
                        if e[0] == "set" and e[1].endswith(".status"):
                            cur = e[2]
                        if e[0] == "call":
                            if e[1] == c.WOB + "delete":
                                mine.add("delete")
                            elif e[1] == c.WOB + "save":
                                mine.add("save:%s" % cur)
                            elif e[1] in (c.WOB + "lock_output",):
                                mine.add("lock")
                    effs |= mine
                    if mine != ROLLBACK[st]:
                        partial += 1
                table[st] = effs
                held = effs == ROLLBACK[st] and feasible > 0
                if held and partial:
                    # some way through the loop body completes the iteration without the write(s) of this status
                    run.instance(R3, {"fn": "cancel_tx_and_outputs", "status": st, "obligation": "every way through the loop body performs the rollback write", "paths without it": partial}, held=False)
                    run.finding(Finding(R3, cid, "output status %s: an iteration can complete without its rollback write (%s): the record keeps its status while the entry is cancelled" % (st, sorted(ROLLBACK[st])), site=cf.loc()))
                run.instance(R3, {"fn": "cancel_tx_and_outputs", "status": st, "effects": sorted(effs), "expected": sorted(ROLLBACK[st]), "feasible_paths": feasible}, held=held)
                if not held:
                    run.finding(Finding(R3, cid, "output status %s: effects %s, expected %s" % (st, sorted(effs), sorted(ROLLBACK[st])), site=cf.loc()))
            # log entry type mapping: after the loop
            exit_start = None
            t = cf.bbs[body_start]
            # region after loop: from the None edge of the next() switch
            after = [tb for v, tb in cf.bbs[body_start]["t"].get("t", []) if v == "0"] if cf.bbs[body_start]["t"]["k"] == "sw" else []
            if not after:
                run.error("C05.R3: cannot find loop exit edge")
            else:
                paths = pe.paths(after[0])
                for ty in TXTYPES:
                    res = set()
                    for p in paths:
                        if p.events[-1][1] != "ret":
                            continue
                        ok = True
                        cur = ty
                        for e in p.events:
                            if e[0] == "lit" and e[1].endswith(".tx_type"):
                                names = {e[2]} if isinstance(e[2], str) else set(e[2])
                                if (cur in names) != e[3]:
                                    ok = False
                                    break
                            elif e[0] == "set" and e[1].endswith(".tx_type"):
                                cur = e[2]
                        if ok:
                            saved = [e for e in p.events if e[0] == "call" and e[1] == c.WOB + "save_tx_log_entry"]
                            res.add((cur, len(saved)))
                    exp = {(LOGTYPE.get(ty, ty), 1)}
                    held = res == exp
                    run.instance(R3, {"fn": "cancel_tx_and_outputs", "tx_type": ty, "becomes": sorted(res), "expected": sorted(exp)}, held=held)
                    if not held:
                        run.finding(Finding(R3, cid, "log entry type %s becomes %s, expected %s" % (ty, sorted(res), sorted(exp)), site=cf.loc()))

    R4 = "C05.R4"
    run.rule(R4, "rollback is one batch: all writes between one batch() and one commit()", floor=3)
    if cf:
        from .shared import single_batch
        single_batch(ctx, R4, cf)
    R5 = "C05.R5"
    run.rule(R5, "cancel acts on refreshed state: the rollback runs only after update_wallet_state reported success", floor=1)
    oc = ctx.fn(c.LW + "api_impl::owner::cancel_tx")
    if oc:
        UWS = c.LW + "api_impl::owner::update_wallet_state"
        cb = {b for b, _t in cfg.find_calls(oc, TX + "cancel_tx")}
        held = False
        if cb and cfg.find_calls(oc, UWS):
            ok_e, _n = c.guard_edges(ctx, oc, UWS, R5)
            for b, bb in enumerate(oc.bbs):
                t = bb["t"]
                if t["k"] != "sw" or t.get("ty") != "bool":
                    continue
                pr = vf.producers(oc, t["o"]) | vf.origins(oc, t["o"])
                if not vf.has_call(pr, UWS):
                    continue
                edges = [{(b, tb)} for _v, tb in t["t"]] + [{(b, t["else"])}]
                # exactly one branch of the test on the returned bool leads to the rollback
                leads = [e for e in edges if any(x in cfg.reach(oc, starts=[list(e)[0][1]]) for x in cb)]
                if len(leads) == 1 and cfg.must_pass(oc, leads[0], cb)[0] and cfg.must_pass(oc, ok_e, cb)[0]:
                    held = True
        run.instance(R5, {"fn": "api_impl::owner::cancel_tx", "obligation": "tx::cancel_tx is reached only on one branch of the test of update_wallet_state's Ok(bool)"}, held=held)
        if not held:
            run.finding(Finding(R5, oc.id, "the rollback no longer depends on the refresh having succeeded (a confirmed transaction could be cancelled on stale state)", site=oc.loc()))
    R6 = "C05.R6"
    run.rule(R6, "the rollback knows what a reserved output was before: an output reserved while still Unconfirmed (minimum_confirmations = 0) goes back to Unconfirmed, not to Unspent", floor=1)
    OD6 = c.LW + "types::OutputData"
    OS6 = c.LW + "types::OutputStatus"
    lockf = ctx.fn(OD6 + "::lock")
    cf6 = ctx.fn(UPD + "cancel_tx_and_outputs")
    if lockf is None or cf6 is None:
        run.error("C05.R6: OutputData::lock / cancel_tx_and_outputs not found")
    else:
        # what lock() remembers: any field of the record it writes besides status
        written = {st["d"][1][-1]["n"] for bb in lockf.bbs for st in bb["s"] if st["k"] == "a" and st["d"][1] and isinstance(st["d"][1][-1], dict) and st["d"][1][-1].get("a") == OD6}
        remembers = bool(written - {"status"})
        # does lock() refuse anything but Unspent?
        only_unspent = False
        for x in cfg.comparisons(lockf):
            pl, pr = vf.producers(lockf, x.l), vf.producers(lockf, x.r)
            for a, b_ in ((pl, pr), (pr, pl)):
                if vf.has_field(a, OD6, "status") and ("agg", OS6, "Unspent") in b_:
                    only_unspent = True
        # the rollback writes a constant status for a Locked record
        consts = set()
        for b, st in vf.field_assignments(cf6, OD6, "status"):
            if st["r"]["k"] == "use":
                consts |= {y[2] for y in vf.producers(cf6, st["r"]["o"]) if y[0] == "agg" and y[1] == OS6}
            elif st["r"]["k"] == "agg":
                consts.add(st["r"].get("var"))
        held = remembers or only_unspent or consts != {"Unspent"}
        run.instance(R6, {"fn": "OutputData::lock / cancel_tx_and_outputs", "obligation": "lock() remembers the previous status (or reserves Unspent outputs only), or the rollback does not write a constant", "lock writes": sorted(written), "rollback writes": sorted(map(str, consts))}, held=held)
        if not held:
            run.finding(Finding(R6, cf6.id, "an output reserved while still Unconfirmed (zero-confirmation spend) is written back as Unspent when the send is cancelled, and a refresh in between marks the never-mined reserved output Spent: cancelling is not a rollback for it", site=cf6.loc()))
    R7 = "C05.R7"
    run.rule(R7, "a cancel releases only what its own transaction holds: a coin that another pending transaction has reserved cannot be reserved a second time (the rollback turns every Locked record of the entry into Unspent, and the record's single tx_log_entry link would point at the later entry)", floor=2)
    from .shared import reservation_recheck
    reservation_recheck(ctx, R7)
    R8 = "C05.R8"
    run.rule(R8, "a transaction that is on chain is refused: the refresh a cancel starts from confirms a mined send through its kernel whenever no unconfirmed output still refers to it (a send whose change was re-spent at zero confirmations is confirmed by nothing else) - otherwise the entry stays unconfirmed and the cancel goes through", floor=4)
    from .C04 import kernel_step_scope
    kernel_step_scope(ctx, R8)
    R9 = "C05.R9"
    run.rule(R9, "an unknown id is refused, also on the command line: `cancel -i <id>` and `repost -i <id>` hand the id the user typed to the wallet, not its low 32 bits", floor=2)
    from .shared import cli_id_not_narrowed
    cli_id_not_narrowed(ctx, R9, ("parse_cancel_args", "parse_repost_args"))
    run.not_decided += ["'exactly what they were before' as an equality of balances (numeric, over histories)"]
