"""C16 - Scanning restores and repairs the wallet (structural clauses only).

Decided here (each a necessary condition of the statement, none of them the statement itself):
  R1 fidelity of a restored record: every field of the OutputResult built from a chain output and of the
     OutputData saved by restore_missing_output comes from the corresponding chain / rewind datum;
  R2 the PMMR paging loop visits every batch: it leaves only when highest_index <= last_retrieved_index,
     continues at last_retrieved_index + 1, and every batch is identified and appended before the test;
  R3 classification and repair branches of scan(): missing -> restored, Spent-but-on-chain -> Unspent
     (always); Locked -> Unspent and Unconfirmed -> deleted only when delete_unconfirmed is set;
  R4 scan looks at every account and at spent records (retrieve_outputs(show_spent = true, None, None)).
Not decided: completeness over chain histories as such, equality of totals with the original wallet,
idempotence, range-proof rewinding."""
from . import common as c
from .. import cfg, dectree, valueflow as vf, pp
from ..engine import Finding

S = c.LW + "internal::scan::"
OR = S + "OutputResult"
OD = c.LW + "types::OutputData"
OS = c.LW + "types::OutputStatus"
UPD = c.LW + "internal::updater::"
PAGE = c.LW + "types::NodeClient::get_outputs_by_pmmr_index"


def _tuple_field(pr, i):
    return ("field", "()", str(i)) in pr


def run(ctx):
    run = ctx.run
    db = ctx.db

    # ------------------------------------------------------------------ R1
    R1 = "C16.R1"
    run.rule(R1, "a restored record carries the chain's data: field provenance of OutputResult and of the saved OutputData", floor=16)
    idf = ctx.fn(S + "identify_utxo_outputs")
    if idf:
        lits = vf.struct_literals(idf, OR)
        if len(lits) != 1:
            run.error("C16.R1: OutputResult literal not found in identify_utxo_outputs (%d)" % len(lits))
        else:
            st = lits[0][1]
            it = lambda pr: any(x[0] == "call" and x[1].endswith("Iterator::next") for x in pr)
            rw = lambda pr: any(x[0] == "call" and x[1] == "grin_core::libtx::proof::rewind" for x in pr)
            want = {
                "commit": ("chain tuple .0", lambda pr: it(pr) and _tuple_field(pr, 0) and not rw(pr)),
                "is_coinbase": ("chain tuple .2", lambda pr: it(pr) and _tuple_field(pr, 2) and not rw(pr)),
                "height": ("chain tuple .3", lambda pr: it(pr) and _tuple_field(pr, 3) and not rw(pr) and not any(x[0] == "binop" for x in pr)),
                "mmr_index": ("chain tuple .4", lambda pr: it(pr) and _tuple_field(pr, 4) and not rw(pr)),
                "value": ("amount recovered by proof::rewind (.0)", lambda pr: rw(pr) and _tuple_field(pr, 0) and not it(pr)),
                "key_id": ("key id recovered by proof::rewind (.1)", lambda pr: rw(pr) and _tuple_field(pr, 1) and not it(pr)),
                "lock_height": ("height, plus coinbase maturity on the coinbase edge", lambda pr: it(pr) and _tuple_field(pr, 3) and any(x[0] == "binop" and x[1].startswith("Add") for x in pr)),
            }
            for fld, (what, pred) in sorted(want.items()):
                o = vf.literal_field(st, fld)
                pr = vf.producers(idf, o) if o is not None else set()
                held = o is not None and pred(pr)
                run.instance(R1, {"fn": "identify_utxo_outputs", "field": "OutputResult." + fld, "expected": what, "producers": sorted(map(str, pr))[:5]}, held=held)
                if not held:
                    run.finding(Finding(R1, idf.id, "OutputResult.%s is not %s" % (fld, what), site=c.site_of(idf, lits[0][0]), detail=str(sorted(map(str, pr)))[:300]))
            # maturity: on the is_coinbase edge the lock height adds coinbase_maturity(); otherwise it is the height
            cm = cfg.find_calls(idf, "grin_core::global::coinbase_maturity")
            held = False
            if len(cm) == 1:
                b = cm[0][0]
                # the block calling coinbase_maturity is reachable only through the true edge of a switch on tuple .2
                for l in range(1, len(idf.locals)):
                    if idf.locals[l]["ty"] != "bool":
                        continue
                    pr = vf.producers(idf, {"c": [l, []]})
                    if any(x[0] == "call" and x[1].endswith("Iterator::next") for x in pr) and _tuple_field(pr, 2):
                        g = cfg.local_guard(idf, l)
                        if g.ok and cfg.must_pass(idf, g.ok, {b})[0]:
                            held = True
            run.instance(R1, {"fn": "identify_utxo_outputs", "obligation": "coinbase_maturity() is added exactly on the is_coinbase edge"}, held=held)
            if not held:
                run.finding(Finding(R1, idf.id, "coinbase maturity is not applied on (only) the is_coinbase edge", site=idf.loc()))
    rmo = ctx.fn(S + "restore_missing_output")
    if rmo:
        lits = vf.struct_literals(rmo, OD)
        if len(lits) != 1:
            run.error("C16.R1: OutputData literal not found in restore_missing_output (%d)" % len(lits))
        else:
            st = lits[0][1]
            for fld in ("key_id", "n_child", "mmr_index", "value", "height", "lock_height", "is_coinbase"):
                o = vf.literal_field(st, fld)
                pr = vf.producers(rmo, o) if o is not None else set()
                fields = {x for x in pr if x[0] == "field" and x[1] == OR}
                held = fields == {("field", OR, fld)} and not any(x[0] in ("const", "binop") for x in pr)
                run.instance(R1, {"fn": "restore_missing_output", "field": "OutputData." + fld, "expected": "OutputResult." + fld}, held=held)
                if not held:
                    run.finding(Finding(R1, rmo.id, "saved OutputData.%s is not the identified output's %s" % (fld, fld), site=c.site_of(rmo, lits[0][0]), detail=str(sorted(map(str, pr)))[:300]))
            o = vf.literal_field(st, "status")
            pr = vf.producers(rmo, o) if o is not None else set()
            held = pr == {("agg", OS, "Unspent")}
            run.instance(R1, {"fn": "restore_missing_output", "field": "OutputData.status", "expected": "Unspent"}, held=held)
            if not held:
                run.finding(Finding(R1, rmo.id, "a restored output is not saved as Unspent", site=c.site_of(rmo, lits[0][0])))
            o = vf.literal_field(st, "root_key_id")
            pr = vf.producers(rmo, o) if o is not None else set()
            held = any(x[0] == "call" and x[1].endswith("Identifier::parent_path") for x in pr) and not any(x[0] == "arg" and x[1] != 3 for x in pr)
            if held:
                # parent_path is taken of the identified output's key id
                for b, t in cfg.find_calls(rmo, "grin_keychain::types::Identifier::parent_path"):
                    if not vf.has_field(vf.producers(rmo, t["a"][0]) | vf.origins(rmo, t["a"][0]), OR, "key_id"):
                        held = False
            run.instance(R1, {"fn": "restore_missing_output", "field": "OutputData.root_key_id", "expected": "parent path of the recovered key id (the account the output belongs to)"}, held=held)
            if not held:
                run.finding(Finding(R1, rmo.id, "restored output is filed under an account that is not the parent path of its key id", site=c.site_of(rmo, lits[0][0])))
            # the log entry written for a restored output accounts for exactly that output
            TLE = c.LW + "types::TxLogEntry"
            asg = vf.field_assignments(rmo, TLE, "amount_credited")
            h = bool(asg) and all(st["r"]["k"] == "use" and {x for x in vf.producers(rmo, st["r"]["o"]) if x[0] == "field" and x[1] == OR} == {("field", OR, "value")} for _b, st in asg)
            run.instance(R1, {"fn": "restore_missing_output", "field": "TxLogEntry.amount_credited", "expected": "OutputResult.value"}, held=h)
            if not h:
                run.finding(Finding(R1, rmo.id, "the log entry of a restored output is not credited with the output's value", site=rmo.loc()))
            cf = [st for _b, st in vf.field_assignments(rmo, TLE, "confirmed")]
            h = bool(cf) and all(st["r"]["k"] == "use" and vf.const_of_operand(rmo, st["r"]["o"]) == "1" for st in cf)
            run.instance(R1, {"fn": "restore_missing_output", "field": "TxLogEntry.confirmed", "expected": "true"}, held=h)
            if not h:
                run.finding(Finding(R1, rmo.id, "the log entry of a restored (on-chain) output is not marked confirmed", site=rmo.loc()))
            # the record is saved and committed on every Ok path
            c.require_pass(ctx, R1, rmo.id, c.WOB + "save", ("okret",), "Ok requires the OutputData save Ok")
            c.require_pass(ctx, R1, rmo.id, c.WOB + "commit", ("okret",), "Ok requires the batch commit Ok")

    # ------------------------------------------------------------------ R2
    R2 = "C16.R2"
    run.rule(R2, "the PMMR paging loop visits every batch (exit test, next start index, every batch consumed)", floor=8)
    sc = ctx.fn(S + "scan")
    for name, consumer in (("collect_chain_outputs", S + "identify_utxo_outputs"), ("collect_chain_outputs_rewind_hash", None)):
        f = ctx.fn(S + name)
        if not f:
            continue
        pages = cfg.find_calls(f, PAGE)
        if len(pages) != 1:
            run.error("C16.R2: expected one get_outputs_by_pmmr_index call in %s, found %d" % (name, len(pages)))
            continue
        pb, pt = pages[0]
        frompage = lambda pr: any(x[0] == "call" and x[1] == PAGE for x in pr)
        # exit test
        tests = []
        for x in cfg.comparisons(f):
            pl, pr = vf.producers(f, x.l), vf.producers(f, x.r)
            if frompage(pl) and frompage(pr):
                if _tuple_field(pl, 0) and _tuple_field(pr, 1) and not _tuple_field(pl, 1) and not _tuple_field(pr, 0):
                    tests.append((x, x.op))
                elif _tuple_field(pl, 1) and _tuple_field(pr, 0) and not _tuple_field(pl, 0) and not _tuple_field(pr, 1):
                    tests.append((x, cfg._SWAP[x.op]))
        okb = cfg.ok_value_blocks(f)
        held = False
        exit_edges, stay_edges = set(), set()
        if len(tests) == 1:
            x, op = tests[0]
            # op relates highest (lhs) to last_retrieved (rhs)
            if op == "Le":
                exit_edges, stay_edges = x.true_edges, x.false_edges
            elif op == "Gt":
                exit_edges, stay_edges = x.false_edges, x.true_edges
            if exit_edges:
                plain = all(not any(y[0] == "binop" for y in vf.producers(f, side)) for side in (x.l, x.r))
                # Ok only through the exit edge; the next page request only through the stay edge (after the first)
                h1 = cfg.must_pass(f, exit_edges, okb, cut_nodes=cfg.error_return_blocks(f))[0]
                par = cfg.reach(f, starts=[d for (_s, d) in exit_edges])
                h2 = pb not in par
                held = plain and h1 and h2
        run.instance(R2, {"fn": name, "obligation": "the loop is left (Ok) exactly when highest_index <= last_retrieved_index", "tests": len(tests)}, held=held)
        if not held:
            run.finding(Finding(R2, f.id, "paging loop exit is not `highest_index <= last_retrieved_index`", site=f.loc()))
        # next start index
        L = vf.strip_clones(f, pt["a"][1])
        ok_next = False
        detail = ""
        if L is not None:
            defs = f.defs().get(L, [])
            inits, nexts = [], []
            for d in defs:
                if d[0] != "a":
                    nexts.append(("call", d))
                    continue
                r = d[3]["r"]
                pr = vf.producers(f, r["o"]) if r["k"] == "use" else set([("complex", r["k"], "")])
                if any(y[0] == "arg" for y in pr) and not frompage(pr) and not any(y[0] == "binop" for y in pr):
                    inits.append(d)
                else:
                    nexts.append((pr, d))
            good = 0
            for pr, d in nexts:
                if pr == "call":
                    continue
                # last_retrieved_index + 1
                if any(y[0] == "binop" and y[1].startswith("Add") for y in pr):
                    ops = _add_operands(f, d[3]["r"]["o"])
                    if ops:
                        a, k = ops
                        pa = vf.producers(f, a)
                        if frompage(pa) and _tuple_field(pa, 1) and not _tuple_field(pa, 0) and k == 1:
                            good += 1
            ok_next = len(inits) == 1 and good == len(nexts) == 1
            detail = "inits=%d nexts=%d good=%d" % (len(inits), len(nexts), good)
            if ok_next and stay_edges:
                # the re-assignment happens on the stay edge
                nb = nexts[0][1][1]
                ok_next = cfg.must_pass(f, stay_edges, {nb})[0]
        run.instance(R2, {"fn": name, "obligation": "the next request starts at last_retrieved_index + 1 (and the first at the start_index parameter)", "detail": detail}, held=ok_next)
        if not ok_next:
            run.finding(Finding(R2, f.id, "next page does not start at last_retrieved_index + 1", site=f.loc(), detail=detail))
        # end index forwarded
        pe = vf.producers(f, pt["a"][2])
        h = any(y[0] == "arg" for y in pe) and not any(y[0] in ("const", "binop") for y in pe)
        run.instance(R2, {"fn": name, "obligation": "the end index of every request is the end_index parameter"}, held=h)
        if not h:
            run.finding(Finding(R2, f.id, "page request does not use the end_index parameter", site=c.site_of(f, pb)))
        # every batch is consumed before the exit test
        if consumer:
            cons = cfg.find_calls(f, consumer)
            app = cfg.find_calls(f, "alloc::vec::Vec::<T, A>::append")
            h = False
            if len(cons) == 1 and len(app) == 1 and tests:
                cb, ct = cons[0]
                ab, at = app[0]
                po = vf.producers(f, ct["a"][1]) | vf.origins(f, ct["a"][1])
                from_batch = frompage(po) and _tuple_field(po, 2)
                ge, _n = c.guard_edges(ctx, f, consumer, R2)
                appended = vf.has_call(vf.producers(f, at["a"][1]) | vf.origins(f, at["a"][1]), consumer)
                ae = c.after_call_edges(f, "alloc::vec::Vec::<T, A>::append")
                tb = tests[0][0].b
                # from the page request, the exit test is reached only after identify Ok and the append
                par = cfg.reach(f, starts=[pt["t"]], cut_edges=ae)
                h = from_batch and appended and bool(ge) and tb not in par and cfg.must_pass(f, ge, {ab})[0]
            run.instance(R2, {"fn": name, "obligation": "every batch is identified (Ok) and appended to the result before the exit test"}, held=h)
            if not h:
                run.finding(Finding(R2, f.id, "a batch can be skipped: the exit test is reachable without identify_utxo_outputs Ok + append", site=f.loc()))
            # the returned vector is the accumulated one
            rets = []
            for b in okb:
                for s_ in f.bbs[b]["s"]:
                    if s_["k"] == "a" and s_["d"] == [0, []]:
                        rets.append(vf.origins(f, s_["r"]["f"][0][1]) if s_["r"]["k"] == "agg" and s_["r"]["f"] else set())
            h = bool(rets) and all(vf.has_call(o, "alloc::vec::Vec::<T>::new") or vf.has_call(o, consumer) for o in rets)
            run.instance(R2, {"fn": name, "obligation": "the accumulated vector is what is returned"}, held=h)
            if not h:
                run.finding(Finding(R2, f.id, "returned outputs are not the accumulated result", site=f.loc()))

    # ------------------------------------------------------------------ R3 / R4
    R3 = "C16.R3"
    run.rule(R3, "classification and repair branches of scan()", floor=7)
    R4 = "C16.R4"
    run.rule(R4, "scan compares the chain with the records of every account, spent ones included", floor=2)
    sc = ctx.fn(S + "scan")
    if sc:
        ro = cfg.find_calls(sc, UPD + "retrieve_outputs")
        if len(ro) != 1:
            run.error("C16.R4: expected one retrieve_outputs call in scan, found %d" % len(ro))
        else:
            b, t = ro[0]
            h = vf.const_of_operand(sc, t["a"][2]) == "1"
            run.instance(R4, {"fn": "scan", "obligation": "retrieve_outputs(show_spent = true)"}, held=h)
            if not h:
                run.finding(Finding(R4, sc.id, "scan does not look at spent records (show_spent is not true)", site=c.site_of(sc, b)))
            p3, p4 = vf.producers(sc, t["a"][3]), vf.producers(sc, t["a"][4])
            h = p3 == {("agg", "core::option::Option", "None")} and p4 == {("agg", "core::option::Option", "None")}
            run.instance(R4, {"fn": "scan", "obligation": "retrieve_outputs(tx_id = None, account = None): all records of all accounts"}, held=h)
            if not h:
                run.finding(Finding(R4, sc.id, "scan restricts the records it compares (tx id or account filter)", site=c.site_of(sc, b)))
        dl = c.param(sc, "delete_unconfirmed", "bool")
        gd = cfg.local_guard(sc, dl) if dl is not None else None
        if gd is None or not gd.ok:
            run.error("C16.R3: switch on the delete_unconfirmed parameter not found in scan")
        else:
            # status writes: only Unspent
            asg = vf.field_assignments(sc, OD, "status")
            vals = set()
            for b, s_ in asg:
                vals |= {x for x in vf.producers(sc, s_["r"]["o"])} if s_["r"]["k"] == "use" else {("complex",)}
            h = bool(asg) and vals == {("agg", OS, "Unspent")}
            run.instance(R3, {"fn": "scan", "obligation": "scan rewrites an output's status only to Unspent", "sites": len(asg)}, held=h)
            if not h:
                run.finding(Finding(R3, sc.id, "scan writes an output status other than Unspent", site=sc.loc(), detail=str(sorted(map(str, vals)))))
            # classify loops: pushes into the three vectors depend on the status literal
            pe = dectree.PathEnum(sc, db)
            saves = cfg.find_calls(sc, c.WOB + "save")
            dels = cfg.find_calls(sc, c.WOB + "delete")
            # a repair may also be written by a helper that cancels the log entry and writes the output record in
            # the same batch: helper(.., &output, delete_output: bool) with `delete` on the flag's true edge and
            # `save` on its false edge; the call then counts as a save / delete according to the constant passed
            for hb, ht in sc.calls():
                hf = db.fns.get(ht.get("f") or "")
                if hf is None or not hf.id.startswith(S) or hf.id == S + "restore_missing_output":
                    continue
                hs, hd = cfg.find_calls(hf, c.WOB + "save"), cfg.find_calls(hf, c.WOB + "delete")
                # only the writes of the record the helper was handed (it may also release other records of the
                # entry it cancels, read from the wallet inside the helper)
                recp = [i for i in range(1, hf.argc + 1) if OD in (hf.locals[i].get("ty") or "")]
                if len(recp) == 1:
                    hs = [(b_, t_) for b_, t_ in hs if ("arg", recp[0]) in vf.producers(hf, t_["a"][1])]
                    hd = [(b_, t_) for b_, t_ in hd if ("arg", recp[0]) in vf.producers(hf, t_["a"][1])]
                flags = [i for i in range(1, hf.argc + 1) if hf.locals[i]["ty"] == "bool"]
                if not (hs and hd and len(flags) == 1):
                    continue
                gfl = cfg.local_guard(hf, flags[0])
                shape = bool(gfl.ok) and all(cfg.must_pass(hf, gfl.ok, {b_})[0] for b_, _t in hd) and all(cfg.must_pass(hf, gfl.fail, {b_})[0] for b_, _t in hs)
                kv = vf.const_of_operand(sc, ht["a"][flags[0] - 1]) if flags[0] - 1 < len(ht["a"]) else None
                recs = [a_ for a_ in ht["a"] if vf.op_place(a_) and OD in (sc.locals[vf.op_place(a_)[0]].get("ty") or "")]
                if not shape or kv not in ("0", "1") or len(recs) != 1:
                    run.error("C16.R3: helper %s writes output records but its save/delete switch could not be resolved at %s" % (pp.short(hf.id), c.site_of(sc, hb)))
                    continue
                # present the helper call like a direct write: argument 1 = the record
                pseudo = dict(ht)
                pseudo["a"] = [ht["a"][0], recs[0]]
                (dels if kv == "1" else saves).append((hb, pseudo))
            rest = cfg.find_calls(sc, S + "restore_missing_output")
            h = len(rest) == 1 and not cfg.must_pass(sc, gd.ok, {rest[0][0]})[0] and rest[0][0] in cfg.reach(sc, cut_edges=gd.ok)
            run.instance(R3, {"fn": "scan", "obligation": "missing outputs are restored whether or not delete_unconfirmed is set"}, held=h)
            if not h:
                run.finding(Finding(R3, sc.id, "restoring missing outputs depends on delete_unconfirmed (or the call is gone)", site=sc.loc()))
            guarded = [b for b, _t in saves if cfg.must_pass(sc, gd.ok, {b})[0]]
            unguarded = [b for b, _t in saves if b not in guarded]
            h = len(saves) == 2 and len(guarded) == 1 and len(unguarded) == 1
            run.instance(R3, {"fn": "scan", "obligation": "two repair saves: spent-but-on-chain (always) and locked (only with delete_unconfirmed)", "saves": len(saves), "guarded": len(guarded)}, held=h)
            if not h:
                run.finding(Finding(R3, sc.id, "the repair saves of scan are not {always: accidental spends, flag: locked}", site=sc.loc()))
            h = len(dels) == 1 and cfg.must_pass(sc, gd.ok, {dels[0][0]})[0]
            run.instance(R3, {"fn": "scan", "obligation": "unconfirmed outputs are deleted only with delete_unconfirmed"}, held=h)
            if not h:
                run.finding(Finding(R3, sc.id, "scan deletes outputs without delete_unconfirmed", site=sc.loc()))
            # what is saved / deleted comes from the matching classification
            cls = _classification(sc, db)
            for kind, want_status, sites in (("always-save", "Spent", unguarded), ("flag-save", "Locked", guarded)):
                ok = False
                if len(sites) == 1 and cls is not None:
                    t = dict(saves)[sites[0]]
                    src = vf.origins(sc, t["a"][1])
                    vecs = {v for v, stt in cls.items() if stt == want_status}
                    ok = bool(vecs) and any(("local", v) in src or _derives_from_local(sc, t["a"][1], v) for v in vecs)
                run.instance(R3, {"fn": "scan", "obligation": "the %s repairs exactly the records classified %s" % (kind, want_status)}, held=ok)
                if not ok:
                    run.finding(Finding(R3, sc.id, "the %s does not act on the records classified as %s" % (kind, want_status), site=sc.loc()))
            if cls is not None:
                h = sorted(cls.values()) == ["Locked", "Spent"]
                run.instance(R3, {"fn": "scan", "obligation": "matched records are classified by status: Spent -> accidental spends, Locked -> locked", "classification": {("_%d" % k): v for k, v in cls.items()}}, held=h)
                if not h:
                    run.finding(Finding(R3, sc.id, "classification of matched records changed: %s" % sorted(cls.values()), site=sc.loc()))
            # a chain output is matched to a wallet record by its commitment
            OCM = c.LW + "api_impl::types::OutputCommitMapping"
            mt = False
            for k in db.closures_of(sc.id):
                g = db.fns[k]
                for x in cfg.comparisons(g):
                    if x.op != "Eq":
                        continue
                    pl, pr_ = vf.producers(g, x.l) | vf.get_flow(g).of_operand(x.l), vf.producers(g, x.r) | vf.get_flow(g).of_operand(x.r)
                    for a, b_ in ((pl, pr_), (pr_, pl)):
                        if vf.has_field(a, OCM, "commit") and vf.has_field(b_, OR, "commit"):
                            mt = True
            fnd = [t for _b, t in sc.calls() if (t.get("f") or "").endswith("Iterator::find")]
            mt = mt and len(fnd) == 1
            run.instance(R3, {"fn": "scan", "obligation": "the wallet record of a chain output is looked up by commitment (one find, commit == commit)"}, held=mt)
            if not mt:
                run.finding(Finding(R3, sc.id, "chain outputs are not matched to wallet records by commitment", site=sc.loc()))
            # the unconfirmed set is selected by status == Unconfirmed
            unc = False
            for k in db.closures_of(sc.id):
                g = db.fns[k]
                for x in cfg.comparisons(g):
                    if x.op == "Eq":
                        pl, pr_ = vf.producers(g, x.l), vf.producers(g, x.r)
                        for a, b_ in ((pl, pr_), (pr_, pl)):
                            if vf.has_field(a, OD, "status") and ("agg", OS, "Unconfirmed") in b_:
                                unc = True
            run.instance(R3, {"fn": "scan", "obligation": "the outputs deleted are those with status == Unconfirmed"}, held=unc)
            if not unc:
                run.finding(Finding(R3, sc.id, "selection of unconfirmed outputs (status == Unconfirmed) not found", site=sc.loc()))
    if sc:
        # the range that is paged through is exactly the node's index range for [start_height, end_height]
        HR = c.LW + "types::NodeClient::height_range_to_pmmr_indices"
        hr = cfg.find_calls(sc, HR)
        cc = cfg.find_calls(sc, S + "collect_chain_outputs")
        h = len(hr) == 1 and len(cc) == 1
        if h:
            t = hr[0][1]
            p1, p2 = vf.producers(sc, t["a"][1]), vf.producers(sc, t["a"][2])
            sh, eh = c.param(sc, "start_height", "u64", 0), c.param(sc, "end_height", "u64", 1)
            h = p1 == {("arg", sh)} and ("arg", eh) in p2 and ("agg", "core::option::Option", "Some") in p2 and not any(x[0] in ("binop", "const") for x in p1 | p2)
            ct = cc[0][1]
            q1, q2 = vf.producers(sc, ct["a"][2]), vf.producers(sc, ct["a"][3])
            frm = lambda pr: any(x[0] == "call" and x[1] == HR for x in pr)
            h = h and frm(q1) and _tuple_field(q1, 0) and not _tuple_field(q1, 1) and not any(x[0] == "binop" for x in q1)
            h = h and frm(q2) and _tuple_field(q2, 1) and not _tuple_field(q2, 0) and not any(x[0] == "binop" for x in q2) and ("agg", "core::option::Option", "Some") in q2
        run.instance(R2, {"fn": "scan", "obligation": "pages [indices(start_height, Some(end_height)).0 ..= Some(.1)] unmodified"}, held=h)
        if not h:
            run.finding(Finding(R2, sc.id, "the PMMR index range scanned is not exactly the node's range for (start_height, end_height)", site=sc.loc()))
    R5 = "C16.R5"
    run.rule(R5, "every account re-created by a scan gets its own label (the label counter advances per account)", floor=2)
    if sc:
        sap = cfg.find_calls(sc, c.LW + "internal::keys::set_acct_path")
        if len(sap) != 1:
            run.error("C16.R5: expected one keys::set_acct_path call in scan, found %d" % len(sap))
        else:
            b, t = sap[0]
            fl = vf.get_flow(sc)
            # locals the label argument depends on
            p = vf.op_place(t["a"][2])
            dep, stack = set(), [p[0]] if p else []
            while stack:
                l = stack.pop()
                if l in dep:
                    continue
                dep.add(l)
                stack.extend(fl.deps[l])
            counters = []
            for l in sorted(dep):
                if not sc.locals[l].get("u") or sc.locals[l]["ty"] not in ("usize", "u32", "u64", "u16", "u8"):
                    continue
                # incremented (`_t = AddWithOverflow(copy L, const k); L = move _t.0`) at a point reached after the
                # set_acct_path call and from which the call is reached again
                incs = []
                for bb_i, bb in enumerate(sc.bbs):
                    for st in bb["s"]:
                        if st["k"] == "a" and st["r"]["k"] == "bin" and st["r"]["op"].startswith("Add"):
                            lp = vf.op_place(st["r"]["l"])
                            if lp and vf.strip_clones(sc, st["r"]["l"]) == l and vf.const_of_operand(sc, st["r"]["r"]) not in (None, "0"):
                                incs.append(bb_i)
                after = cfg.reach(sc, starts=[t["t"]])
                for ib in incs:
                    if ib in after and b in cfg.reach(sc, starts=[ib]):
                        # ... and it cannot be by-passed: from the call's return, the call is not reached again without it
                        # (an increment that only sits in a look-for-a-free-label loop in front of the call does not count)
                        again = cfg.reach(sc, starts=[t["t"]], cut_nodes=frozenset({ib}) | cfg.error_return_blocks(sc))
                        if b not in again:
                            counters.append((l, ib))
            held = bool(counters)
            run.instance(R5, {"fn": "scan", "obligation": "the label passed to set_acct_path depends on a counter that is incremented inside the same loop", "counters": ["_%d" % l for l, _ in counters]}, held=held)
            if not held:
                run.finding(Finding(R5, sc.id, "labels of re-created accounts do not advance: several restored accounts would share one label (and overwrite each other's path)", site=c.site_of(sc, b)))
            # the label is one that is not in use: set_acct_path re-points an existing label
            free = set()
            for cb_, ct_ in sc.calls():
                nm_ = ct_.get("f") or ""
                if not nm_.endswith("::contains") or len(ct_["a"]) < 2:
                    continue
                a1 = vf.op_place(ct_["a"][1])
                if not a1 or "String" not in (sc.locals[a1[0]].get("ty") or "") and "str" not in (sc.locals[a1[0]].get("ty") or ""):
                    continue
                if not vf.has_call(vf.origins(sc, ct_["a"][0]), c.WB + "acct_path_iter"):
                    continue
                free |= cfg.call_guard(sc, cb_).fail
            h = bool(free) and cfg.must_pass(sc, free, {b})[0]
            run.instance(R5, {"fn": "scan", "obligation": "set_acct_path only with a label that no existing account carries (the `labels.contains(&label)` false edge)", "edges": len(free)}, held=h)
            if not h:
                run.finding(Finding(R5, sc.id, "the label given to a re-created account is not checked against the labels in use: set_acct_path re-points a label the user chose, that account's path loses its label", site=c.site_of(sc, b)))
            # and the path stored is the found parent path being iterated (not a constant / other variable)
            po = vf.origins(sc, t["a"][3])
            h = vf.has_call(po, "std::collections::hash::map::Iter") or any(x[0] == "call" and "hash::map" in x[1] for x in po) or vf.has_call(po, "alloc::vec::Vec::<T>::new")
            run.instance(R5, {"fn": "scan", "obligation": "the path given to set_acct_path is the restored parent path"}, held=h)
            if not h:
                run.finding(Finding(R5, sc.id, "set_acct_path is not given the restored parent path", site=c.site_of(sc, b)))
    R6 = "C16.R6"
    run.rule(R6, "a repairing scan starts from refreshed records: scan::scan(delete_unconfirmed possibly true) is reached only after update_outputs(.., update_all = true) Ok", floor=2)
    UO = c.LW + "api_impl::owner::update_outputs"
    ncall = 0
    for fid, f in sorted(db.fns.items()):
        from ..callgraph import non_production as _np
        if _np(fid):
            continue
        for b, t in cfg.find_calls(f, S + "scan"):
            ncall += 1
            du = vf.const_of_operand(f, t["a"][2])
            if du == "0":
                run.instance(R6, {"fn": pp.short(fid), "obligation": "delete_unconfirmed is the constant false here: nothing is deleted, no refresh precondition", "site": c.site_of(f, b)}, held=True)
                continue
            ups = [(ub, ut) for ub, ut in cfg.find_calls(f, UO) if vf.const_of_operand(f, ut["a"][2]) == "1"]
            # (or the updater's refresh itself, asked for all records)
            ups += [(ub, ut) for ub, ut in cfg.find_calls(f, UPD + "refresh_outputs") if len(ut["a"]) > 3 and vf.const_of_operand(f, ut["a"][3]) == "1"]
            from .shared import refreshed_before
            held = refreshed_before(f, {b}, ups)
            run.instance(R6, {"fn": pp.short(fid), "obligation": "scan::scan is reached only through the Ok edge of update_outputs(.., true)", "site": c.site_of(f, b)}, held=held)
            if not held:
                run.finding(Finding(R6, fid, "a scan that may delete unconfirmed outputs runs on records that were not refreshed first (a mined but not yet refreshed output would be deleted)", site=c.site_of(f, b)))
    if ncall < 2:
        run.error("C16.R6: expected at least two callers of internal::scan::scan, found %d" % ncall)
    R7 = "C16.R7"
    run.rule(R7, "the key of a new output is derived under the account the output is filed under (a restore attributes outputs by their key path, the wallet by root_key_id / the context's account)", floor=3)
    from ..callgraph import non_production
    NEXT_CHILD = c.WB + "next_child"
    NAK = c.LW + "internal::keys::next_available_key"
    PKI = c.WB + "parent_key_id"
    CTX_NEW = c.LW + "types::Context::new"
    NOISE = ("core::ops::control_flow::ControlFlow", "core::option::Option", "core::result::Result", "()")

    def _srcs(f, o, depth=0, seen=None):
        """Where an account operand comes from: 'ACTIVE' (the backend's current account), ('field', adt, name), ('?', ..)."""
        out = set()
        for x in vf.producers(f, o):
            if x[0] in ("call", "mutcall"):
                if x[1] == PKI:
                    out.add("ACTIVE")
                elif x[1] in vf.TRANSPARENT_CALLS or x[1].endswith(("Clone::clone", "Try::branch")):
                    continue
                elif x[1] == c.WB + "get_acct_path":
                    continue  # its result is seen as the AcctPathMapping.path field
                else:
                    out.add(("call", pp.short(x[1])))
            elif x[0] == "field":
                if x[1].startswith(NOISE):
                    continue
                out.add(("field", x[1].split("::")[-1], x[2]))
            elif x[0] == "arg":
                if depth >= 4:
                    out.add(("?", "param of %s" % pp.short(f.id)))
                    continue
                callers = [cf_ for cf_ in ctx.cg.callers(f.id) if not non_production(cf_) and cf_ in db.fns]
                if not callers:
                    out.add(("param", pp.short(f.id), x[1]))
                for cf_ in callers:
                    g = db.fns[cf_]
                    for _cb, t in cfg.find_calls(g, f.id):
                        if x[1] - 1 < len(t["a"]):
                            out |= _srcs(g, t["a"][x[1] - 1], depth + 1)
            elif x[0] == "const":
                continue
        return out

    def _filed(f):
        """Operands naming the account under which function f files what it creates."""
        out = []
        for _b, st in vf.struct_literals(f, OD):
            o = vf.literal_field(st, "root_key_id")
            if o is not None:
                out.append(("OutputData.root_key_id", o))
        for _b, t in f.calls():
            if t.get("f") == CTX_NEW and len(t["a"]) > 1:
                out.append(("Context::new(parent_key_id)", t["a"][1]))
        return out

    n7 = 0
    for fid, f in sorted(db.fns.items()):
        if non_production(fid) or fid == NAK:
            continue
        for b, t in f.calls():
            if t.get("f") not in (NEXT_CHILD, NAK):
                continue
            explicit = t["a"][2] if len(t["a"]) > 2 else None
            # the frame in which the new output is filed: this function, else its (transitive) single callers
            frame, chain, under = f, [pp.short(fid)], explicit
            frozen = {"ACTIVE"} if explicit is None else None  # account sources once they are no longer a parameter
            filed = _filed(frame)
            hops = 0
            while not filed and hops < 3:
                callers = [cf_ for cf_ in ctx.cg.callers(frame.id) if not non_production(cf_) and cf_ in db.fns]
                if len(callers) != 1:
                    break
                g = db.fns[callers[0]]
                if frozen is None:
                    # follow an explicit account operand into the caller's frame while it is a plain parameter
                    pr = vf.producers(frame, under)
                    args = [x[1] for x in pr if x[0] == "arg"]
                    sites = cfg.find_calls(g, frame.id)
                    if len(pr) == len(args) == 1 and sites and args[0] - 1 < len(sites[0][1]["a"]):
                        under = sites[0][1]["a"][args[0] - 1]
                    else:
                        frozen = _srcs(frame, under)
                        under = None
                frame = g
                chain.append(pp.short(g.id))
                filed = _filed(frame)
                hops += 1
            n7 += 1
            if not filed:
                run.instance(R7, {"fn": pp.short(fid), "obligation": "derived key is not filed by the wallet here (handed to the caller)", "site": c.site_of(f, b)}, held=True)
                continue
            dsrc = frozen if frozen is not None else _srcs(frame, under)
            bad = []
            for what, o in filed:
                fs = _srcs(frame, o)
                if frozen is None and vf.base_local_of_ref(frame, under) is not None and vf.base_local_of_ref(frame, under) == vf.base_local_of_ref(frame, o):
                    continue
                if fs != dsrc:
                    bad.append((what, sorted(map(str, fs - dsrc))))
            held = not bad
            run.instance(R7, {"fn": pp.short(fid), "obligation": "key derived under %s; filed under the same account" % ("the active account" if frozen == {"ACTIVE"} else "an explicit account"), "frame": chain, "filed": [w for w, _o in filed], "site": c.site_of(f, b)}, held=held)
            if not held:
                run.finding(Finding(R7, fid, "a new output's key is derived under %s but the output is filed under an account that can differ: the wallet and a restore from seed attribute it to different accounts" % ("the active account" if frozen == {"ACTIVE"} else "another account operand"), site=c.site_of(f, b), detail="; ".join("%s <- %s" % (w, ", ".join(d)) for w, d in bad)))
    if n7 == 0:
        run.error("C16.R7: no key derivation site (next_child / next_available_key) found")
    R8 = "C16.R8"
    run.rule(R8, "the refresh a scan starts from brings every record the node reports to the node's status and height (scan itself only looks at the status of matched records)", floor=2)
    from .shared import refresh_transitions
    refresh_transitions(ctx, R8)
    R9 = "C16.R9"
    run.rule(R9, "a scan that drops pending transactions deletes an Unconfirmed record only if the chain scan did not find its commitment (the refresh before it covers the active account only; a mined output of another account is still Unconfirmed in the wallet)", floor=1)
    if sc:
        PASS9 = ("IntoIterator::into_iter", "::iter", "Clone::clone", "Deref::deref", "Iterator::cloned", "Iterator::copied", "Iterator::map", "Iterator::collect", "Iterator::filter")

        def _from_chain(o, depth=0):
            pr = vf.producers(sc, o)
            if vf.has_call(pr, S + "collect_chain_outputs"):
                return True
            for x in pr:
                if x[0] == "call" and x[1].endswith(PASS9) and depth < 8:
                    if _from_chain(sc.bbs[x[2]]["t"]["a"][0], depth + 1):
                        return True
            return False

        sel = None
        for k in db.closures_of(sc.id):
            g = db.fns[k]
            for x in cfg.comparisons(g):
                if x.op == "Eq":
                    pl, pr_ = vf.producers(g, x.l), vf.producers(g, x.r)
                    for a, b_ in ((pl, pr_), (pr_, pl)):
                        if vf.has_field(a, OD, "status") and ("agg", OS, "Unconfirmed") in b_:
                            sel = (g, x)
        held = False
        why = "selection closure (status == Unconfirmed) not found"
        if sel is not None:
            g, xs = sel
            # inside the closure: a membership test whose "not contained" outcome is needed to return true
            # the test may sit in the selecting closure itself or in a later `.filter(..)` of the same iterator chain
            chain_closures = [g]
            fcalls = [(b_, t_) for b_, t_ in sc.calls() if (t_.get("f") or "").endswith("Iterator::filter")]

            def _closure_of(t_):
                for a_ in t_["a"][1:]:
                    pl_ = vf.op_place(a_)
                    for bb_ in sc.bbs:
                        for st_ in bb_["s"]:
                            if st_["k"] == "a" and pl_ and st_["d"] == [pl_[0], []] and st_["r"]["k"] == "agg" and st_["r"].get("ak") == "closure":
                                return db.fns.get(st_["r"]["adt"])
                return None

            first = [(b_, t_) for b_, t_ in fcalls if _closure_of(t_) is g]
            frontier = {b_ for b_, _t in first}
            grew = True
            while grew:
                grew = False
                for b_, t_ in fcalls:
                    if b_ in frontier:
                        continue
                    if any(x_[0] == "call" and x_[2] in frontier for x_ in vf.producers(sc, t_["a"][0]) if len(x_) > 2):
                        frontier.add(b_)
                        cg_ = _closure_of(t_)
                        if cg_ is not None:
                            chain_closures.append(cg_)
                        grew = True
            tests = []
            for gg in chain_closures:
                for cb_, ct_ in gg.calls():
                    nm_ = ct_.get("f") or ""
                    if nm_.endswith(("::contains", "::contains_key")) or nm_.endswith(("Iterator::any",)):
                        tests.append((gg, cb_, ct_))
            why = "the closure that selects the records to delete does not ask whether the commitment was found on chain"
            for g, cb_, ct_ in tests:
                gd = cfg.call_guard(g, cb_)
                rets_true = [bb_i for bb_i, bb in enumerate(g.bbs) for st in bb["s"] if st["k"] == "a" and st["d"] == [0, []] and st["r"]["k"] == "use" and st["r"]["o"].get("k") is not None and st["r"]["o"]["k"].get("v") == "1"]
                direct = [bb_i for bb_i, bb in enumerate(g.bbs) for st in bb["s"] if st["k"] == "a" and st["d"] == [0, []] and not (st["r"]["k"] == "use" and st["r"]["o"].get("k") is not None)]
                sinks_ = set(rets_true) | set(direct)
                # `... && !xs.contains(..)`: the result is returned as Not(contains): true exactly when not contained
                negated = any(st["k"] == "a" and st["d"] == [0, []] and st["r"]["k"] == "un" and st["r"]["op"] == "Not" and vf.op_place(st["r"]["o"]) and not ct_["d"][1] and vf.op_place(st["r"]["o"])[0] == ct_["d"][0] for bb_i in direct for st in g.bbs[bb_i]["s"])
                if negated and len(direct) == 1 and not rets_true:
                    ok_shape = True
                else:
                    ok_shape = bool(gd.fail) and bool(sinks_) and cfg.must_pass(g, gd.fail, sinks_)[0]
                if ok_shape:
                    # the collection that is searched is captured from scan and derives from collect_chain_outputs
                    cap = False
                    for bb in sc.bbs:
                        for st in bb["s"]:
                            if st["k"] == "a" and st["r"]["k"] == "agg" and st["r"].get("ak") == "closure" and st["r"].get("adt") == g.id:
                                for _n, o_ in st["r"]["f"]:
                                    bl = vf.base_local_of_ref(sc, o_)
                                    if bl is not None and _from_chain({"c": [bl, []]}):
                                        cap = True
                    if cap:
                        held = True
        run.instance(R9, {"fn": "scan", "obligation": "records selected for deletion: status == Unconfirmed and commitment not among the chain outputs"}, held=held)
        if not held:
            run.finding(Finding(R9, sc.id, "with delete_unconfirmed a scan deletes every Unconfirmed record, also one whose output it has just found on chain (an account that was not refreshed): the funds vanish and the next scan restores them", site=sc.loc(), detail=why))
    R10 = "C16.R10"
    run.rule(R10, "with delete_unconfirmed, the reservations released and the transactions cancelled cover the same records: both all of the wallet's, or both the scanned range", floor=1)
    if sc:
        cls10 = _classification(sc, db) or {}
        heads10 = [b for b, t in sc.calls() if (t.get("f") or "").endswith("Iterator::next") and vf.has_call(vf.producers(sc, t["a"][0]) | vf.origins(sc, t["a"][0]), S + "collect_chain_outputs") and not vf.has_call(vf.producers(sc, t["a"][0]), "alloc::vec::Vec::<T>::new")]
        # the vector of Locked records is filled inside the loop over the chain outputs of the scanned range?
        ranged = False
        for b, t in cfg.find_calls(sc, "alloc::vec::Vec::<T, A>::push"):
            vec = vf.strip_clones(sc, t["a"][0])
            if cls10.get(vec) != "Locked":
                continue
            for h in heads10:
                body = cfg.reach(sc, starts=tuple(sc.succ(h)), cut_nodes=frozenset({h}))
                if b in body and h in cfg.reach(sc, starts=[b]):
                    ranged = True
        # the records whose transactions are cancelled for being unconfirmed come from all wallet records?
        allrec = False
        for b, t in sc.calls():
            if (t.get("f") or "").endswith("Iterator::filter"):
                base = vf.origins(sc, t["a"][0])
                cl_ok = False
                for a_ in t["a"][1:]:
                    pl = vf.op_place(a_)
                    for bb in sc.bbs:
                        for st in bb["s"]:
                            if st["k"] == "a" and pl and st["d"] == [pl[0], []] and st["r"]["k"] == "agg" and st["r"].get("ak") == "closure":
                                g = db.fns.get(st["r"]["adt"])
                                if g and any(x.op == "Eq" and ("agg", OS, "Unconfirmed") in (vf.producers(g, x.l) | vf.producers(g, x.r)) for x in cfg.comparisons(g)):
                                    cl_ok = True
                if cl_ok and vf.has_call(base, UPD + "retrieve_outputs"):
                    allrec = True
        # ... unless the entry is cancelled together with everything it still has locked: the helper that cancels reads
        # the wallet's records of that entry (tx_log_entry == id, status == Locked) and saves them in its batch
        by_tx = False
        for hb, ht in sc.calls():
            hf = db.fns.get(ht.get("f") or "")
            if hf is None or not hf.id.startswith(S) or not cfg.find_calls(hf, c.WOB + "save_tx_log_entry"):
                continue
            it = cfg.find_calls(hf, c.WB + "iter")
            sel_ok = False
            for k in db.closures_of(hf.id):
                g = db.fns[k]
                has_entry = has_locked = False
                for x in cfg.comparisons(g):
                    pl, pr_ = vf.producers(g, x.l) | vf.get_flow(g).of_operand(x.l), vf.producers(g, x.r) | vf.get_flow(g).of_operand(x.r)
                    for a, b_ in ((pl, pr_), (pr_, pl)):
                        if vf.has_field(a, OD, "tx_log_entry") and x.op == "Eq":
                            has_entry = True
                        if vf.has_field(a, OD, "status") and ("agg", OS, "Locked") in b_ and x.op == "Eq":
                            has_locked = True
                if has_entry and has_locked:
                    sel_ok = True
            from .shared import released_as_unspent
            rel_saves = [b_ for b_, t_ in cfg.find_calls(hf, c.WOB + "save") if vf.has_call(vf.origins(hf, t_["a"][1]), c.WB + "iter") and released_as_unspent(hf, b_, t_)]
            if it and sel_ok and rel_saves:
                by_tx = True
        held = not (ranged and allrec) or by_tx
        run.instance(R10, {"fn": "scan", "obligation": "Locked records to release and Unconfirmed records to drop are taken from the same scope, or an entry is cancelled together with all it has locked", "locked: scanned range only": ranged, "unconfirmed: all records": allrec, "cancel releases by transaction": by_tx}, held=held)
        if not held:
            run.finding(Finding(R10, sc.id, "with a start height, delete_unconfirmed cancels a transaction because of its unconfirmed output (whatever its height) but releases only the reserved inputs it finds in the scanned range: older inputs stay Locked under a cancelled transaction", site=sc.loc()))
    R11 = "C16.R11"
    run.rule(R11, "the refresh a scan starts from covers the records of every account: scan compares all accounts with the chain but only looks at the status of the records it matches (a spent input of another account is not on chain, a mined output of another account is still Unconfirmed)", floor=1)
    osc11 = ctx.fn(c.LW + "api_impl::owner::scan")
    if osc11 is None:
        run.error("C16.R11: api_impl::owner::scan not found")
    else:
        scs11 = {b for b, _t in cfg.find_calls(osc11, S + "scan")}
        RO = (UPD + "refresh_outputs", UPD + "refresh_output_state")
        NARROW = ("*Iterator::filter", "*Iterator::take", "*Iterator::skip", "*Iterator::nth", "*Iterator::find", "*Iterator::last", "*Iterator::take_while", "*Iterator::skip_while", "*Iterator::step_by", "*Iterator::filter_map", "*::truncate", "*::first", "*::last", "*::pop")

        def _all_accounts_refresh(g):
            """(param index or None, True) if g refreshes every account path (possibly only when a bool parameter is set)"""
            for rb, rt in [x for n_ in RO for x in cfg.find_calls(g, n_)]:
                if len(rt["a"]) < 4:
                    continue
                org = vf.origins(g, rt["a"][2])
                if not vf.has_call(org, c.WB + "acct_path_iter") or any(vf.has_call(org, n_) for n_ in NARROW):
                    continue
                ab = [b for b, _t in cfg.find_calls(g, c.WB + "acct_path_iter")]
                # is the account list taken from acct_path_iter on every path, or under a parameter?
                if cfg.must_pass(g, set(), {rb}, cut_nodes=frozenset(ab))[0] and not vf.has_call(org, c.WB + "parent_key_id"):
                    return (None, rt["a"][3], rb)
                for i in range(1, g.argc + 1):
                    if g.locals[i]["ty"] != "bool":
                        continue
                    gd = cfg.local_guard(g, i)
                    if gd.ok and all(cfg.must_pass(g, gd.ok, {b_})[0] for b_ in ab):
                        return (i, rt["a"][3], rb)
            return None

        held11, why11 = False, "no refresh of every account path (acct_path_iter) found in front of scan::scan"
        cands = []
        for b, t in osc11.calls():
            g = db.fns.get(t.get("f") or "")
            if g is None or not g.id.startswith(c.LW):
                continue
            r = _all_accounts_refresh(g)
            if r is None:
                continue
            pi, ua_op, _rb = r
            cands.append(pp.short(g.id))
            if pi is not None and vf.const_of_operand(osc11, t["a"][pi - 1]) != "1":
                why11 = "%s refreshes every account only when its parameter %d is set; scan passes %s" % (pp.short(g.id), pi, vf.const_of_operand(osc11, t["a"][pi - 1]))
                continue
            # update_all must be the constant true (directly, or the callee's parameter fed with true)
            ua = vf.const_of_operand(g, ua_op)
            if ua != "1":
                src = vf.strip_clones(g, ua_op)
                if not (src and 1 <= src <= g.argc and vf.const_of_operand(osc11, t["a"][src - 1]) == "1"):
                    why11 = "%s is not asked to refresh all records (update_all)" % pp.short(g.id)
                    continue
            if scs11 and cfg.must_pass(osc11, cfg.call_guard(osc11, b).ok, scs11)[0]:
                held11 = True
        r_self = _all_accounts_refresh(osc11)
        if r_self is not None and r_self[0] is None and vf.const_of_operand(osc11, r_self[1]) == "1":
            from .shared import refreshed_before
            if refreshed_before(osc11, scs11, [(r_self[2], osc11.bbs[r_self[2]]["t"])], loop_iter_pat=c.WB + "acct_path_iter"):
                held11 = True
        run.instance(R11, {"fn": "owner::scan", "obligation": "every path to scan::scan passes the Ok edge of a refresh (update_all = true) of every account path", "refreshing callees": cands}, held=held11)
        if not held11:
            run.finding(Finding(R11, osc11.id, "a scan refreshes only the active account before it compares every account with the chain: the records of other accounts keep a stale status that the scan does not look at (inputs of a cancelled but mined send stay Unspent; with a start height and delete_unconfirmed a mined output is deleted)", site=osc11.loc(), detail=why11))
    run.not_decided += [
        "completeness over chain histories ('exactly the outputs of the seed') - depends on range-proof rewinding and the node's paging",
        "equality of the restored totals with the original wallet",
        "idempotence of a second scan",
    ]


def _add_operands(f, o):
    """operand defined (through the overflow-check tuple) by Add(a, const k) -> (a, k)"""
    p = vf.op_place(o)
    if p is None:
        return None
    l = p[0]
    for _ in range(4):
        ds = f.defs().get(l, [])
        if len(ds) != 1 or ds[0][0] != "a":
            return None
        r = ds[0][3]["r"]
        if r["k"] == "bin" and r["op"] in ("Add", "AddWithOverflow", "AddUnchecked"):
            for var, con in ((r["l"], r["r"]), (r["r"], r["l"])):  # x + k  or  k + x
                k = vf.const_of_operand(f, con)
                try:
                    return var, int(k)
                except (TypeError, ValueError):
                    continue
            return None
        if r["k"] == "use":
            q = vf.op_place(r["o"])
            if q is None:
                return None
            l = q[0]
            continue
        return None
    return None


def _derives_from_local(f, o, local):
    fl = vf.get_flow(f)
    p = vf.op_place(o)
    if p is None:
        return False
    seen, stack = set(), [p[0]]
    while stack:
        l = stack.pop()
        if l in seen:
            continue
        seen.add(l)
        if l == local:
            return True
        stack.extend(fl.deps[l])
    return False


def _classification(sc, db):
    """{vector local: status name}: which status test dominates the push into which vector (first loop of scan)."""
    out = {}
    pushes = cfg.find_calls(sc, "alloc::vec::Vec::<T, A>::push")
    for b, t in pushes:
        vec = vf.strip_clones(sc, t["a"][0])
        if vec is None:
            continue
        for x in cfg.comparisons(sc):
            if x.op != "Eq":
                continue
            pl, pr = vf.producers(sc, x.l), vf.producers(sc, x.r)
            for a, b_ in ((pl, pr), (pr, pl)):
                if vf.has_field(a, OD, "status"):
                    lits = [y[2] for y in b_ if y[0] == "agg" and y[1] == OS]
                    if len(lits) == 1 and x.true_edges and cfg.must_pass(sc, x.true_edges, {b})[0]:
                        out[vec] = lits[0]
    return out or None
