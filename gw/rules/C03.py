"""C03 - Reserved outputs are exclusive: no two live transactions share an input (structural conditions)."""
from . import common as c
from .. import cfg, valueflow as vf, pp
from ..callgraph import non_production
from ..engine import Finding

SEL = c.LW + "internal::selection::"
OWNER = c.LW + "api_impl::owner::"
FOREIGN = c.LW + "api_impl::foreign::"
UPD = c.LW + "internal::updater::"
OD = c.LW + "types::OutputData"
OS = c.LW + "types::OutputStatus"
TLT = c.LW + "types::TxLogEntryType"

# who may write which status
STATUS_WRITERS = {
    OD + "::lock": {"Locked"},
    OD + "::mark_unspent": {"Unspent"},
    OD + "::mark_spent": {"Spent"},
    OD + "::mark_reverted": {"Reverted"},
    UPD + "cancel_tx_and_outputs": {"Unspent"},
    c.LW + "internal::scan::scan": {"Unspent"},
    c.LW + "internal::scan::cancel_tx_log_entry": {"Unspent"},  # releases what the entry it cancels still has locked (same batch)
}
LOCKERS = {
    SEL + "lock_tx_context": "the reservation step of every send / invoice payment",
    "<" + c.IMPLS + "backends::lmdb::Batch<'a, C, K> as " + c.LW + "types::WalletOutputBatch<K>>::lock_output": "storage primitive",
    OWNER + "create_mwixnet_req": "mwixnet swap request (see C06.R2: locks without a log entry)",
}


def in_cycle(fn, b):
    par = cfg.reach(fn, starts=fn.succ(b))
    return b in par


def run(ctx):
    run = ctx.run
    db = ctx.db
    R1 = "C03.R1"
    run.rule(R1, "who may reserve: callers of lock_output and writers of OutputData.status", floor=6)
    callers = {}
    for fid, f in db.fns.items():
        if non_production(fid):
            continue
        for b, t in f.calls():
            if t.get("f") in (c.WOB + "lock_output", OD + "::lock"):
                callers.setdefault(fid, []).append(b)
    for fid in sorted(callers):
        held = fid in LOCKERS
        run.instance(R1, {"fn": pp.short(fid), "obligation": "lock_output / OutputData::lock called only from the tabled reservers", "why": LOCKERS.get(fid)}, held=held)
        if not held:
            run.finding(Finding(R1, fid, "new caller of lock_output / OutputData::lock", site=c.site_of(db.fns[fid], callers[fid][0])))
    writers = {}
    for fid, f in db.fns.items():
        if non_production(fid) or f.impl_trait in ("core::clone::Clone", "serde::de::Visitor"):
            continue
        for b, s in vf.field_assignments(f, OD, "status"):
            v = vf.const_of_operand(f, s["r"]["o"]) if s["r"]["k"] == "use" else None
            writers.setdefault(fid, set()).add((v or "?").split("::")[-1])
    for fid in sorted(writers):
        allowed = STATUS_WRITERS.get(fid)
        held = allowed is not None and writers[fid] <= allowed
        run.instance(R1, {"fn": pp.short(fid), "writes_status": sorted(writers[fid]), "allowed": sorted(allowed or [])}, held=held)
        if not held:
            run.finding(Finding(R1, fid, "OutputData.status written with %s outside the status-writer table" % sorted(writers[fid]), site=db.fns[fid].loc()))

    mw = ctx.fn(OWNER + "create_mwixnet_req")
    if mw:
        sinks_mw = {b for b, t in mw.calls() if (t.get("f") or "") == c.WOB + "lock_output" or (t.get("f") or "").endswith("mwixnet::onion::create_onion")}
        ok_edges = set()
        for g in [mw]:
            fl_ = vf.get_flow(g)
            for x in cfg.comparisons(g):
                if x.op not in ("Eq", "Ne"):
                    continue
                lo, ro = fl_.of_operand(x.l) | vf.producers(g, x.l), fl_.of_operand(x.r) | vf.producers(g, x.r)
                for a, b_ in ((lo, ro), (ro, lo)):
                    if vf.has_field(a, OD, "status") and ("agg", OS, "Unspent") in b_:
                        ok_edges |= (x.true_edges if x.op == "Eq" else x.false_edges)
        h_mw = bool(sinks_mw) and bool(ok_edges) and cfg.must_pass(mw, ok_edges, sinks_mw)[0]
        run.instance(R1, {"fn": "owner::create_mwixnet_req", "obligation": "a swap request is built (and the output locked) only for an output whose status is Unspent", "sinks": len(sinks_mw)}, held=h_mw)
        if not h_mw:
            run.finding(Finding(R1, mw.id, "create_mwixnet_req never looks at the status of the output it is asked to swap: an output that a pending send has reserved gets a second live spend (and is 'locked' again)", site=mw.loc()))
    R2 = "C03.R2"
    run.rule(R2, "a reservation re-checks the record it reserves (status of the freshly read output)", floor=1)
    from .shared import reservation_recheck
    reservation_recheck(ctx, R2)

    R3 = "C03.R3"
    run.rule(R3, "a replayed protocol step is recognised before any effect (sibling cross-check)", floor=3)
    STEPS = {
        FOREIGN + "receive_tx": "TxReceived",
        OWNER + "process_invoice_tx": "TxSent",
        OWNER + "tx_lock_outputs": "TxSent",
    }
    for fid, ty in sorted(STEPS.items()):
        f = ctx.fn(fid)
        if not f:
            continue
        from .shared import replay_guard
        held, info = replay_guard(ctx, R3, f, ty)
        run.instance(R3, {"fn": pp.short(fid), "obligation": "an existing %s entry with this slate id => Err before any effect" % ty, "found": info}, held=held)
        if not held:
            run.finding(Finding(R3, fid, "no duplicate check (existing %s entry for this slate id) before the step's effects" % ty, site=f.loc()))
    # ... nor a payment that was confirmed and then reorganised away (its entry is TxReverted until it is mined again)
    frx0 = ctx.fn(FOREIGN + "receive_tx")
    if frx0:
        from .shared import replay_guard
        held, info = replay_guard(ctx, R3, frx0, "TxReverted")
        run.instance(R3, {"fn": "foreign::receive_tx", "obligation": "an existing TxReverted entry with this slate id => Err before any effect", "found": info}, held=held)
        if not held:
            run.finding(Finding(R3, frx0.id, "a payment whose entry is TxReverted (confirmed once, reorganised away) is received again when the same slate is delivered once more: two entries and two outputs for one slate id", site=frx0.loc()))
    # ... nor is a cancelled receive received again
    frx = ctx.fn(FOREIGN + "receive_tx")
    if frx:
        from .shared import replay_guard
        held, info = replay_guard(ctx, R3, frx, "TxReceivedCancelled")
        run.instance(R3, {"fn": "foreign::receive_tx", "obligation": "an existing TxReceivedCancelled entry with this slate id => Err before any effect", "found": info}, held=held)
        if not held:
            run.finding(Finding(R3, frx.id, "a payment the recipient has cancelled is received again when the same slate is delivered once more: a second log entry (and output) for one slate id, cancel by slate id then finds two entries and is refused", site=frx.loc()))
    # a cancelled send is not reserved again: the private context survives cancel_tx, so the same slate could be
    # locked a second time (second log entry for one slate id, the cancelled transaction comes back to life)
    ftl = ctx.fn(OWNER + "tx_lock_outputs")
    if ftl:
        from .shared import replay_guard
        held, info = replay_guard(ctx, R3, ftl, "TxSentCancelled")
        run.instance(R3, {"fn": "owner::tx_lock_outputs", "obligation": "an existing TxSentCancelled entry with this slate id => Err before any effect", "found": info}, held=held)
        if not held:
            run.finding(Finding(R3, ftl.id, "a send that was cancelled can be reserved again with the same slate: a second log entry for one slate id (cancel by slate id then finds two entries and is refused)", site=ftl.loc()))

    R4 = "C03.R4"
    run.rule(R4, "selection excludes reserved outputs (eligible_to_spend truth table; shared with C01.R3)", floor=2)
    from .. import dectree
    el = ctx.fn(OD + "::eligible_to_spend")
    if el:
        pe = dectree.PathEnum(el, db)
        U = {"_1.status": frozenset(["Unconfirmed", "Unspent", "Locked", "Spent", "Reverted"])}
        for st in ("Locked", "Spent"):
            may_true = False
            n = 0
            for p in pe.paths(0, init_state={"_1.status": frozenset([st])}, universe=U):
                n += 1
                v = [e[2] for e in p.events if e[0] == "set" and e[1] == "_0"]
                if not v or v[-1] != "0":
                    may_true = True
            run.instance(R4, {"fn": "eligible_to_spend", "status": st, "paths": n, "obligation": "never eligible"}, held=not may_true and n > 0)
            if may_true or n == 0:
                run.finding(Finding(R4, el.id, "a %s output can be eligible to spend" % st, site=el.loc()))

    R5 = "C03.R5"
    run.rule(R5, "one log entry / one output per step (call-site multiplicity, not in a loop)", floor=5)
    MULT = {
        SEL + "build_recipient_output": {c.WOB + "next_tx_log_id": 1, c.WOB + "save": 1, c.WOB + "save_tx_log_entry": 1, c.LW + "internal::keys::next_available_key": 1},
        SEL + "lock_tx_context": {c.WOB + "next_tx_log_id": 1, c.WOB + "save_tx_log_entry": 1},
    }
    for fid, table in sorted(MULT.items()):
        f = ctx.fn(fid)
        if not f:
            continue
        for callee, n in sorted(table.items()):
            sites = cfg.find_calls(f, callee)
            held = len(sites) == n and not any(in_cycle(f, b) for b, _t in sites)
            run.instance(R5, {"fn": pp.short(fid), "callee": pp.short(callee), "sites": len(sites), "expected": n, "in_loop": [in_cycle(f, b) for b, _t in sites]}, held=held)
            if not held:
                run.finding(Finding(R5, fid, "%s called %d times / in a loop (expected exactly %d, once)" % (pp.short(callee).split("::")[-1], len(sites), n), site=f.loc()))
    rtx = ctx.fn(FOREIGN + "receive_tx")
    if rtx:
        sites = cfg.find_calls(rtx, c.LW + "internal::tx::add_output_to_slate")
        held = len(sites) == 1 and not in_cycle(rtx, sites[0][0])
        run.instance(R5, {"fn": "foreign::receive_tx", "obligation": "adds exactly one output to the slate (one call, not in a loop)"}, held=held)
        if not held:
            run.finding(Finding(R5, rtx.id, "receive_tx adds outputs more than once", site=rtx.loc()))
    R6 = "C03.R6"
    run.rule(R6, "a release touches only the cancelled transaction's own reservations (this log id, this account)", floor=3)
    ctf = ctx.fn(c.LW + "internal::tx::cancel_tx")
    if ctf:
        from .shared import rollback_scope
        rollback_scope(ctx, R6, ctf, ctf.id)
    R7 = "C03.R7"
    run.rule(R7, "a reservation is persisted: Batch::lock_output stores the record it marked Locked", floor=2)
    lo = ctx.fn("<" + c.IMPLS + "backends::lmdb::Batch<'a, C, K> as " + c.LW + "types::WalletOutputBatch<K>>::lock_output")
    if lo:
        lk_calls = cfg.find_calls(lo, c.LW + "types::OutputData::lock")
        sv = [(b, t) for b, t in lo.calls() if (t.get("f") or "").endswith("WalletOutputBatch::save") or (t.get("f") or "").endswith("::save")]
        held = len(lk_calls) == 1 and len(sv) >= 1
        if held:
            b, t = sv[0]
            # the saved value is the parameter that was locked, saved after the lock() call, and Ok needs the save's Ok
            src = vf.producers(lo, t["a"][1]) | vf.origins(lo, t["a"][1])
            held = any(x[0] == "arg" and x[1] == 2 for x in src)
            e = c.after_call_edges(lo, c.LW + "types::OutputData::lock")
            held = held and cfg.must_pass(lo, e, {b})[0]
            rets = cfg.return_blocks(lo)
            after_save = c.after_call_edges(lo, t["f"])
            held = held and cfg.must_pass(lo, after_save, rets)[0]
        run.instance(R7, {"fn": "lmdb::Batch::lock_output", "obligation": "out.lock() then save(out): the Locked status reaches the store"}, held=held)
        if not held:
            run.finding(Finding(R7, lo.id, "lock_output no longer stores the record it marked Locked", site=lo.loc()))
    odl = ctx.fn(c.LW + "types::OutputData::lock")
    if odl:
        asg = vf.field_assignments(odl, c.LW + "types::OutputData", "status")
        vals = set()
        for b, st in asg:
            vals |= vf.producers(odl, st["r"]["o"]) if st["r"]["k"] == "use" else {("complex",)}
        h = vals == {("agg", c.LW + "types::OutputStatus", "Locked")}
        if h:
            # unconditionally: whatever the previous status (selection may pick Unspent and zero-conf Unconfirmed outputs)
            ab = {b for b, _st in asg}
            par = cfg.reach(odl, cut_nodes=ab)
            h = not any(r in par for r in cfg.return_blocks(odl) - ab)
        run.instance(R7, {"fn": "OutputData::lock", "obligation": "sets status := Locked on every path (no precondition on the previous status)"}, held=h)
        if not h:
            run.finding(Finding(R7, odl.id, "OutputData::lock does not set the status to Locked", site=odl.loc()))
    R8 = "C03.R8"
    run.rule(R8, "a late-locked send is reserved once, during finalization: tx_lock_outputs reaches lock_tx_context only for a context that carries no pending late-lock arguments (the command line and Owner::init_send_tx(send_args) call it before every finalize_tx)", floor=1)
    tlo = ctx.fn(c.LW + "api_impl::owner::tx_lock_outputs")
    if tlo is None:
        run.error("C03.R8: owner::tx_lock_outputs not found")
    else:
        CTXT = c.LW + "types::Context"
        none_edges = set()
        # (a) a discriminant test of Context.late_lock_args
        for b, bb in enumerate(tlo.bbs):
            for st in bb["s"]:
                if st["k"] == "a" and st["r"]["k"] == "disc":
                    q = st["r"]["p"]
                    if q[1] and isinstance(q[1][-1], dict) and q[1][-1].get("a") == CTXT and q[1][-1].get("n") == "late_lock_args" and not st["d"][1]:
                        t = bb["t"]
                        if t["k"] == "sw" and vf.op_place(t["o"]) and vf.op_place(t["o"])[0] == st["d"][0]:
                            some = {tb for v, tb in t["t"] if v == "1"}
                            for s_ in tlo.succ(b):
                                if s_ not in some:
                                    none_edges.add((b, s_))
        # (b) is_some() / is_none() on it
        for b, t in tlo.calls():
            fnm = t.get("f") or ""
            if fnm.endswith(("Option::<T>::is_some", "Option::<T>::is_none")) and vf.has_field(vf.producers(tlo, t["a"][0]), CTXT, "late_lock_args"):
                g_ = cfg.call_guard(tlo, b)
                none_edges |= (g_.fail if fnm.endswith("is_some") else g_.ok)
        sinks = {b for b, _t in cfg.find_calls(tlo, c.LW + "internal::selection::lock_tx_context")}
        held = bool(none_edges) and bool(sinks) and cfg.must_pass(tlo, none_edges, sinks)[0]
        if not sinks:
            run.error("C03.R8: lock_tx_context call not found in tx_lock_outputs")
        run.instance(R8, {"fn": "owner::tx_lock_outputs", "obligation": "lock_tx_context only on the edge `context.late_lock_args is None`", "guard edges": len(none_edges)}, held=held)
        if not held:
            run.finding(Finding(R8, tlo.id, "tx_lock_outputs reserves for a context whose late-lock arguments are still pending: the callers that lock before every finalize (command line send, init_send_tx with send_args) give a late-locked send a second reservation step (an input-less TxSent entry, then a second entry or a refused finalize)", site=tlo.loc()))
    R9 = "C03.R9"
    run.rule(R9, "a cancelled send is not finalized by a late reply: cancel_tx leaves the signing context in the store, the only thing between a late Standard2 reply and a second live spend of the released inputs is that update_stored_tx selects the slate's TxSent entry, and nothing else, for the sender", floor=2)
    from .shared import flow_tied_entry
    flow_tied_entry(ctx, R9)
    run.not_decided += ["exclusivity as a statement about all interleaved histories (R1-R5 are the structural necessary conditions)", "finalize replay: covered by C02.R2 (context deleted => second finalize fails)"]
