"""C09 - Decoding untrusted input never crashes the wallet."""
from . import common as c
from .. import cfg, panics, valueflow as vf, pp
from ..callgraph import STATE_EFFECTS, non_production, DECODE_TRAITS
from ..engine import Finding
from . import c09_tables as T

SP = c.LW + "slatepack::"


def entries(ctx):
    db = ctx.db
    ents = {}

    def add(fid, why):
        if fid in db.fns:
            ents.setdefault(fid, why)
        else:
            ctx.run.error("C09: entry point %s not found in facts (anchor missing)" % fid)

    for fid, why in T.NAMED_ENTRIES.items():
        add(fid, why)
    # every decoding trait impl of a workspace type, and the hand-written serde `with` helpers
    for fid, f in db.fns.items():
        if non_production(fid) or any(fid.startswith(p) for p in T.NOT_INPUT_FACING):
            continue
        if f.impl_trait in T.DECODER_TRAITS and f.dk == "AssocFn":
            ents.setdefault(fid, "impl %s" % f.impl_trait.split("::")[-1])
        elif f.dk == "Fn" and fid.endswith("::deserialize") and ("::ser::" in fid or "_ser::" in fid or "_serde::" in fid or "_base64::" in fid or "_hex::" in fid):
            ents.setdefault(fid, "serde with-helper")
    return ents


def stop_at(fid):
    return any(fid.startswith(p) for p in T.STOP_PREFIXES) and fid not in T.NAMED_ENTRIES


ENC_CALLBACKS = ("callback:Serialize", "callback:Writeable", "callback:Display")


def decode_edges(f, c_, b, kind):
    return kind not in ENC_CALLBACKS


def scope(ctx):
    ents = entries(ctx)
    par = ctx.cg.reachable(list(ents), stop=stop_at, edge_filter=decode_edges)
    fns = [ctx.db.fns[k] for k in par if not stop_at(k) or k in ents or any(k.startswith(p) for p in T.SHALLOW_PREFIXES)]
    return ents, par, fns


def site_key(s):
    return "%s %s" % (s.kind, s.detail)


def run(ctx):
    run = ctx.run
    db = ctx.db
    R1 = "C09.R1"
    run.rule(R1, "panic-freedom of everything reachable from the decoder entry points", floor=T.FLOOR_SITES)
    ents, par, fns = scope(ctx)
    run.extra["entry_points"] = len(ents)
    run.extra["functions_in_scope"] = len(fns)
    if len(ents) < T.FLOOR_ENTRIES:
        run.error("C09.R1: only %d decoder entry points found (floor %d)" % (len(ents), T.FLOOR_ENTRIES))
    if len(fns) < T.FLOOR_FNS:
        run.error("C09.R1: only %d functions in decoder scope (floor %d)" % (len(fns), T.FLOOR_FNS))
    sites = panics.all_sites(fns, ctx.db)
    counts = {"discharged": 0, "allowed": 0, "reported": 0}
    used = {}
    for s in sorted(sites, key=lambda s: (s.fn.id, s.sp)):
        fid = s.fn.id
        what = site_key(s)
        item = {"fn": pp.short(fid), "site": s.site(), "what": what}
        if s.discharged:
            item["discharged_by"] = s.discharged
            counts["discharged"] += 1
            run.instance(R1, item, held=True)
            continue
        reason = T.allowed(fid, what)
        gd = T.ALLOW_GUARDS.get((fid, what))
        if reason and gd and not panics.dominated_by_cmp(s.fn, s.b, gd[0], gd[1], gd[2]):
            reason = None
            item["allow_list_guard_missing"] = "%s %s %s no longer dominates the site" % gd
        if reason:
            used[(fid, what)] = used.get((fid, what), 0) + 1
            if used[(fid, what)] > T.ALLOW_COUNTS.get((fid, what), 0):
                reason = None
        if reason:
            item["allowed"] = reason
            counts["allowed"] += 1
            run.instance(R1, item, held=True)
            continue
        counts["reported"] += 1
        run.instance(R1, item, held=False)
        path = ctx.cg.path(par, fid)
        run.finding(Finding(R1, fid, what, site=s.site(),
                            detail="reachable from decoder entry %s via %s" % (pp.short(path[0]), " -> ".join(pp.short(x).split("::")[-1] for x in path[:8])),
                            witness={"call_path": path}))
    run.extra["site_counts"] = counts
    run.extra["allow_list_usage"] = {"%s | %s" % (pp.short(k[0]), k[1]): v for k, v in sorted(used.items())}
    print("C09.R1: %d entry points, %d functions in scope, %d sites: %s" % (len(ents), len(fns), len(sites), counts))

    R2 = "C09.R2"
    run.rule(R2, "bounded work: allocations / loops sized by decoded integers", floor=2)
    for f in fns:
        for b, t in f.calls():
            fn_ = t.get("f") or ""
            kind = None
            if fn_ in ("alloc::vec::Vec::<T>::with_capacity", "alloc::vec::Vec::<T, A>::reserve", "alloc::vec::from_elem", "alloc::string::String::with_capacity"):
                kind = "alloc"
                arg = t["a"][-1] if fn_ != "alloc::vec::from_elem" else t["a"][1]
            elif fn_ == "grin_core::ser::Reader::read_fixed_bytes":
                kind = "read_fixed_bytes"
                arg = t["a"][1]
            if not kind:
                continue
            pr = vf.producers(f, arg)
            decoded = [x for x in pr if x[0] == "call" and ("Reader::read_" in x[1] or "ReadBytesExt" in x[1])]
            consts = all(x[0] in ("const", "binop") or (x[0] == "call" and x[1].endswith("::len")) for x in pr)
            # size type bound
            p = vf.op_place(arg)
            bound = None
            if decoded:
                # follow back through casts to the narrowest integer type read
                tys = set()
                for x in decoded:
                    m = x[1].split("read_")[-1]
                    tys.add(m)
                bound = sorted(tys)
            held = consts or not decoded or all(tt in ("u8", "u16") for tt in (bound or []))
            if kind == "read_fixed_bytes":
                # grin's reader fails (does not allocate) when the input is shorter than requested
                held = True
            reason = T.allowed(f.id, "%s sized by decoded integer" % kind)
            run.instance(R2, {"fn": pp.short(f.id), "site": c.site_of(f, b), "kind": kind, "size_from": sorted(map(str, pr))[:4], "decoded_width": bound}, held=held or bool(reason))
            if not (held or reason):
                run.finding(Finding(R2, f.id, "%s sized by decoded integer" % kind, site=c.site_of(f, b), detail=str(sorted(map(str, pr)))[:300]))

    # a reader whose error is ignored turns "the input ended" into "keep going": with a decoded count as loop bound that is
    # work without bound (4 * 10^9 failing reads for a 25-byte message).  Every Reader::read_* result must be propagated.
    nreads = 0
    for f in fns:
        for b, t in f.calls():
            fn_ = t.get("f") or ""
            if not (fn_.startswith("grin_core::ser::Reader::read_") or fn_ == "grin_core::ser::Readable::read"):
                continue
            nreads += 1
            g_ = cfg.call_guard(f, b)
            okp = bool(g_.fail)
            if okp:
                par_ = cfg.reach(f, starts=[d_ for (_s, d_) in g_.fail], cut_nodes=cfg.error_return_blocks(f))
                okp = not any(r in par_ for r in cfg.return_blocks(f)) and not any(f.bbs[x]["t"]["k"] == "call" and (f.bbs[x]["t"].get("f") or "").startswith("grin_core::ser::Reader::read_") for x in par_)
            run.instance(R2, {"fn": pp.short(f.id), "site": c.site_of(f, b), "kind": "reader error propagated", "call": fn_.split("::")[-1]}, held=okp)
            if not okp:
                run.finding(Finding(R2, f.id, "the error of %s is not propagated (the decoder would go on reading past the end of the input)" % fn_.split("::")[-1], site=c.site_of(f, b)))
    if nreads < 50:
        run.error("C09.R2: only %d Reader::read_* / Readable::read calls found in decoder scope (floor 50)" % nreads)
    R3 = "C09.R3"
    run.rule(R3, "decoders are pure: no wallet effect is reachable from a decoder entry", floor=20)
    n = 0
    for fid in sorted(ents):
        if fid in T.EFFECTFUL_ENTRY_OK:
            continue
        # effects of functions in scope only (dispatch targets are cut by stop_at)
        e = set()
        sub = ctx.cg.reachable([fid], stop=stop_at, edge_filter=decode_edges)
        for k in sub:
            if stop_at(k) and k != fid:
                continue
            e |= ctx.eff.direct.get(k, set())
        e &= STATE_EFFECTS
        n += 1
        run.instance(R3, {"entry": pp.short(fid), "effects": sorted(e)}, held=not e)
        if e:
            run.finding(Finding(R3, fid, "decoder entry reaches wallet effects %s" % sorted(e), site=db.fns[fid].loc()))
    R4 = "C09.R4"
    run.rule(R4, "decoded byte strings handed to a dependency's fixed-buffer deserialiser are length-checked first (RangeProof's serde visitor writes into [u8; 675] without a bound)", floor=1)
    FIXED = {"secp256k1zkp::pedersen::RangeProof": 675}
    n4 = 0
    for fid, f in sorted(db.fns.items()):
        if non_production(fid):
            continue
        for b, t in f.calls():
            if t.get("f") != "serde::de::Deserialize::deserialize" or (t.get("trself") or "") not in FIXED:
                continue
            src = vf.producers(f, t["a"][0]) | vf.origins(f, t["a"][0])
            if not vf.has_call(src, "serde::de::IntoDeserializer::into_deserializer"):
                continue
            n4 += 1
            cap = FIXED[t["trself"]]
            fl4 = vf.get_flow(f)
            held = False
            for x in cfg.comparisons(f):
                for a, o_, swap in ((x.l, x.r, False), (x.r, x.l, True)):
                    if not vf.has_call(fl4.of_operand(a) | vf.producers(f, a), "alloc::vec::Vec::<T, A>::len"):
                        continue
                    kv = vf.const_of_operand(f, o_)
                    try:
                        kv = int(kv)
                    except (TypeError, ValueError):
                        kv = cap if kv and "MAX_PROOF_SIZE" in str(kv) else None
                    if kv is None or kv > cap:
                        continue
                    op = cfg._SWAP[x.op] if swap else x.op
                    ok_edges = x.true_edges if op in ("Le", "Lt", "Eq") else (x.false_edges if op in ("Gt", "Ge", "Ne") else set())
                    if op in ("Ge",) and kv == cap:
                        continue  # `len >= cap` false edge means len < cap: fine, but `Ge cap` true edge would let cap through; keep simple
                    if ok_edges and cfg.must_pass(f, ok_edges, {b})[0]:
                        held = True
            run.instance(R4, {"fn": pp.short(fid), "obligation": "len(bytes) <= %d before %s::deserialize" % (cap, t["trself"].split("::")[-1]), "site": c.site_of(f, b)}, held=held)
            if not held:
                run.finding(Finding(R4, fid.split("::{closure")[0], "a decoded byte string of any length is handed to %s's deserialiser, which copies it into a fixed %d byte buffer without a bound: an over-long hex string in a slate panics the decoder" % (t["trself"].split("::")[-1], cap), site=c.site_of(f, b)))
    if n4 == 0:
        run.error("C09.R4: no fixed-buffer deserialiser call found (anchor missing)")
    R5 = "C09.R5"
    run.rule(R5, "a key list handed to the C library's combine function is not empty (secp256k1_ec_pubkey_combine ARG_CHECKs n >= 1; the failed check calls a NULL callback: the process dies, no Rust panic, nothing contains it) - a decoded slate without participants reaches it through the upgrade step", floor=2)
    n5 = 0
    for fid, f in sorted(db.fns.items()):
        if non_production(fid):
            continue
        for b, t in f.calls():
            if not (t.get("f") or "").endswith("key::PublicKey::from_combination"):
                continue
            n5 += 1
            vec = vf.strip_clones(f, t["a"][1]) if len(t["a"]) > 1 else None
            fl5 = vf.get_flow(f)
            held = False
            for x in cfg.comparisons(f):
                for a, o_ in ((x.l, x.r), (x.r, x.l)):
                    srcs = fl5.of_operand(a) | vf.producers(f, a)
                    lens = [y for y in srcs if y[0] in ("call", "mutcall") and y[1].endswith("::len")]
                    if not lens or vf.const_of_operand(f, o_) != "0":
                        continue
                    if not any(vf.strip_clones(f, f.bbs[y[2]]["t"]["a"][0]) == vec for y in lens if len(y) > 2):
                        continue
                    nonempty = x.false_edges if x.op == "Eq" else (x.true_edges if x.op in ("Ne", "Gt") else set())
                    if nonempty and cfg.must_pass(f, nonempty, {b})[0]:
                        held = True
            for eb, et in f.calls():
                if (et.get("f") or "").endswith("::is_empty") and vf.strip_clones(f, et["a"][0]) == vec:
                    g = cfg.call_guard(f, eb)
                    if g.fail and cfg.must_pass(f, g.fail, {b})[0]:
                        held = True
            run.instance(R5, {"fn": pp.short(fid), "obligation": "from_combination only on the non-empty edge of a length test of the same list", "site": c.site_of(f, b)}, held=held)
            if not held:
                run.finding(Finding(R5, fid, "PublicKey::from_combination can be reached with an empty key list: the C library's argument check fails into a NULL callback and the process dies (a V4 slate with `sigs: []` and `coms` present is enough, on the foreign listener too)", site=c.site_of(f, b)))
    if n5 < 2:
        run.error("C09.R5: expected the two from_combination calls of Slate (pub_nonce_sum, pub_blind_sum), found %d" % n5)
    R6 = "C09.R6"
    run.rule(R6, "text handed to a dependency's hex decoder that panics on malformed text is validated first. Read in the pinned dependency sources (grin_util / grin_core / grin_keychain 5.3.3): grin_util::from_hex slices the text two bytes at a time and panics when a multi-byte character straddles a slice; Identifier::from_hex and BlindingFactor::from_hex unwrap the hex decode (any non-hex text panics); the secp_ser helpers and the serde visitors of Identifier / BlindingFactor call these on the raw field text", floor=20)
    EXT6 = {
        "grin_util::hex::from_hex": "non-ASCII text",
        "grin_keychain::types::Identifier::from_hex": "any text that is not hex",
        "grin_keychain::types::BlindingFactor::from_hex": "any text that is not hex",
        "grin_core::libtx::secp_ser::blind_from_hex": "any text that is not hex",
        "grin_core::libtx::secp_ser::commitment_from_hex": "non-ASCII text",
        "grin_core::libtx::secp_ser::rangeproof_from_hex": "non-ASCII text",
        "grin_core::libtx::secp_ser::pubkey_serde::deserialize": "non-ASCII text",
        "grin_core::libtx::secp_ser::sig_serde::deserialize": "non-ASCII text",
        "grin_core::libtx::secp_ser::option_sig_serde::deserialize": "non-ASCII text",
        "grin_core::libtx::secp_ser::option_seckey_serde::deserialize": "non-ASCII text",
        "grin_core::libtx::secp_ser::option_commitment_serde::deserialize": "non-ASCII text",
    }
    SERDE6 = ("grin_keychain::types::Identifier", "grin_keychain::types::BlindingFactor")
    # not text from outside: the wallet's own records and files, validated or constant text (one reason each)
    OWN6 = {
        "grin_wallet_libwallet::types::OutputData": "LMDB record written by this wallet",
        "grin_wallet_libwallet::types::TxLogEntry": "LMDB record written by this wallet",
        "grin_wallet_libwallet::types::Context": "LMDB record written by this wallet",
        "grin_wallet_libwallet::types::AcctPathMapping": "LMDB record written by this wallet",
        "grin_wallet_libwallet::internal::updater::retrieve_outputs": "commitment string of the wallet's own output record",
        "grin_wallet_libwallet::internal::updater::map_wallet_outputs": "commitment string of the wallet's own output record",
        "grin_wallet_libwallet::internal::scan::collect_chain_outputs_rewind_hash": "owner::scan_rewind_hash admits only 64 ASCII hex digits before it calls the scan",
        "grin_wallet_impls::lifecycle::seed::": "the wallet's own seed file (C12)",
        "grin_wallet_impls::backends::lmdb::": "the wallet's own stored transaction file (C06.R4)",
        "grin_wallet_libwallet::mwixnet::": "experimental mwixnet types: replies of the swap server the owner configured, not a wallet listener input",
    }
    ih = db.fns.get(c.LW + "slate_versions::ser::is_hex")
    if ih is not None:
        cl = [db.fns[k] for k in db.closures_of(ih.id)]
        if not any((t.get("f") or "").endswith("is_ascii_hexdigit") for g_ in [ih] + cl for _b, t in g_.calls()):
            run.error("C09.R6: slate_versions::ser::is_hex no longer tests is_ascii_hexdigit")
    n6 = 0
    seen6 = set()
    for fid, f in sorted(db.fns.items()):
        if non_production(fid):
            continue
        for b, t in f.calls():
            callee = t.get("f") or ""
            what = None
            if callee in EXT6:
                what = (callee, EXT6[callee])
            elif callee.endswith(("::next_value", "::next_element", "Deserialize::deserialize", "::next_value_seed", "::next_element_seed")):
                blob = " ".join(str(t.get(k_) or "") for k_ in ("ga", "trself", "fa"))
                for ty in SERDE6:
                    if ty in blob:
                        what = ("<%s as Deserialize>" % ty.split("::")[-1], "any text that is not hex")
            if what is None:
                continue
            if callee in EXT6 and t["a"] and vf.const_of_operand(f, t["a"][0]) is not None:
                continue  # a literal
            own = None
            probe6 = fid.split("impl serde::de::Deserialize<'de> for ")[1].split(">")[0] if "impl serde::de::Deserialize<'de> for " in fid else fid
            for k_, why_ in OWN6.items():
                if probe6.startswith(k_) or ("<" + k_) in probe6:
                    own = why_
            if callee in EXT6 and t["a"] and vf.has_call(vf.producers(f, t["a"][0]), "*str::as_str") is False and any(x[0] == "const" for x in vf.producers(f, t["a"][0])):
                own = "a literal"
            n6 += 1
            if own:
                run.instance(R6, {"in": pp.short(probe6), "dependency decoder": pp.short(what[0]), "not from outside": own, "site": c.site_of(f, b)}, held=True)
                continue
            # validated first? an is_ascii() / all(is_ascii_hexdigit) test of the same text whose true edge dominates the call
            ok6 = False
            for gb, gt in f.calls():
                gname = gt.get("f") or ""
                if gname.endswith(("str::is_ascii", "::is_ascii", "slate_versions::ser::is_hex")) or (gname.endswith("Iterator::all") and "is_ascii_hexdigit" in str(gt.get("a"))):
                    g = cfg.call_guard(f, gb)
                    if g.ok and cfg.must_pass(f, g.ok, {b})[0]:
                        ok6 = True
            # the item a reader would look for: the decoded type for derived visitors, the function otherwise
            item = fid
            if "impl serde::de::Deserialize<'de> for " in fid:
                item = fid.split("impl serde::de::Deserialize<'de> for ")[1].split(">")[0]
            run.instance(R6, {"in": pp.short(item), "dependency decoder": pp.short(what[0]), "panics on": what[1], "validated first": ok6, "site": c.site_of(f, b)}, held=ok6)
            key6 = (item, what[0])
            if not ok6 and key6 not in seen6:
                seen6.add(key6)
                run.finding(Finding(R6, item, "text from outside reaches %s unvalidated, which panics on %s" % (pp.short(what[0]), what[1]), site=c.site_of(f, b)))
    if n6 < 20:
        run.error("C09.R6: only %d uses of the dependency hex decoders found in decoder scope (anchor missing)" % n6)
    run.not_decided += ["panics inside dependencies (age, bs58, bech32, serde_json, ring, grin_core::ser): no MIR for them here", "stack depth / recursion in serde_json for deeply nested input"]
