"""Tables for C09 (entry points, scope boundary, allow-list)."""
LW = "grin_wallet_libwallet::"
API = "grin_wallet_api::"
CTL = "grin_wallet_controller::"
IMPLS = "grin_wallet_impls::"
UTIL = "grin_wallet_util::"

NAMED_ENTRIES = {
    LW + "slatepack::packer::Slatepacker::<'a>::deser_slatepack": "slatepack message / file",
    LW + "slatepack::packer::Slatepacker::<'a>::get_slate": "slate inside a slatepack",
    LW + "slatepack::armor::SlatepackArmor::decode": "armored text",
    LW + "slatepack::types::Slatepack::try_decrypt_payload": "ciphertext encrypted to this wallet",
    LW + "slate::Slate::deserialize_upgrade": "V4 slate JSON",
    LW + "slate::Slate::upgrade": "versioned slate -> slate",
    UTIL + "byte_ser::from_bytes": "binary decoding front end",
    API + "types::EncryptedBody::decrypt": "owner listener ciphertext",
    API + "types::EncryptedRequest::decrypt": "owner listener ciphertext",
    CTL + "controller::parse_body": "HTTP body of both listeners",
    CTL + "controller::OwnerV3Helpers::decrypt_request": "owner listener",
    CTL + "controller::OwnerV3Helpers::is_init_secure_api": "owner listener",
    CTL + "controller::OwnerV3Helpers::is_open_wallet": "owner listener",
    CTL + "controller::OwnerV3Helpers::check_error_response": "owner listener",
    CTL + "controller::OwnerV3Helpers::update_mask": "owner listener",
    CTL + "controller::OwnerAPIHandlerV3::<L, C, K>::call_api::{closure#0}": "owner listener",
    CTL + "controller::ForeignAPIHandlerV2::<L, C, K>::call_api::{closure#0}": "foreign listener",
    "<(dyn grin_wallet_api::owner_rpc::OwnerRpc + 'static) as easy_jsonrpc_mw::Handler>::handle": "owner JSON-RPC parameter decoding",
    "<(dyn grin_wallet_api::foreign_rpc::ForeignRpc + 'static) as easy_jsonrpc_mw::Handler>::handle": "foreign JSON-RPC parameter decoding",
    IMPLS + "adapters::http::HttpSlateSender::check_other_version": "remote wallet's HTTP reply",
    "<grin_wallet_impls::adapters::http::HttpSlateSender as grin_wallet_impls::adapters::SlateSender>::send_tx": "remote wallet's HTTP reply",
    API + "foreign::Foreign::<'a, L, C, K>::receive_tx": "foreign receive with r_addr: handling of the remote reply",
    API + "owner::try_slatepack_sync_workflow": "destination string supplied by a foreign caller (r_addr) / remote reply",
}

DECODER_TRAITS = (
    "serde::de::Deserialize",
    "serde::de::Visitor",
    "serde::de::DeserializeSeed",
    "grin_core::ser::Readable",
    "core::str::traits::FromStr",
    "core::convert::TryFrom",
)

# the analysis does not descend into the dispatched API methods themselves
STOP_PREFIXES = (
    API + "owner::Owner::<L, C, K>::",
    API + "foreign::Foreign::<'a, L, C, K>::",
    LW + "api_impl::",
    LW + "internal::",
    IMPLS + "backends::",
    IMPLS + "lifecycle::",
    IMPLS + "node_clients::",
    IMPLS + "tor::",
    CTL + "command::",
)

# API methods: their own bodies are scanned (argument post-processing happens there) but the
# analysis does not descend into the wallet logic they call
SHALLOW_PREFIXES = (
    API + "owner::Owner::<L, C, K>::",
    API + "foreign::Foreign::<'a, L, C, K>::",
)

EFFECTFUL_ENTRY_OK = {
    API + "foreign::Foreign::<'a, L, C, K>::receive_tx",
    CTL + "controller::OwnerAPIHandlerV3::<L, C, K>::call_api::{closure#0}",
    CTL + "controller::ForeignAPIHandlerV2::<L, C, K>::call_api::{closure#0}",
    "<(dyn grin_wallet_api::owner_rpc::OwnerRpc + 'static) as easy_jsonrpc_mw::Handler>::handle",
    "<(dyn grin_wallet_api::foreign_rpc::ForeignRpc + 'static) as easy_jsonrpc_mw::Handler>::handle",
}

# modules whose decoders are not fed by any input named in the property
NOT_INPUT_FACING = (
    LW + "mwixnet::",
    "<" + LW + "mwixnet::",
    "<<" + LW + "mwixnet::",
    IMPLS + "tor::",
    "<" + IMPLS + "tor::",
    "grin_wallet_config::",
    "<grin_wallet_config::",
)

FLOOR_ENTRIES = 500
FLOOR_FNS = 1000
FLOOR_SITES = 250

# (function id, "kind detail") -> reason. A trailing '*' in the function id matches a prefix.
RPC_OWNER = "<(dyn grin_wallet_api::owner_rpc::OwnerRpc + 'static) as easy_jsonrpc_mw::Handler>::handle"
RPC_FOREIGN = "<(dyn grin_wallet_api::foreign_rpc::ForeignRpc + 'static) as easy_jsonrpc_mw::Handler>::handle"
_ARITY = "easy_jsonrpc_mw::Params::get_rpc_args returned Ok, i.e. exactly the declared number of arguments (checked in its source): the drained iterator yields one value per parameter and then None"
_JSON = "expansion of serde_json::json!: to_value() of string/number literals, serde_json::Value or values built by this wallet; cannot fail on peer input"
_OWNCFG = "operates on the wallet's own configuration (socks/bridge/proxy settings), not on peer input"
_CONSTRE = "lazy_static initialiser over a constant pattern / runtime construction; independent of input"

ALLOW = {
    (RPC_OWNER, "expect serde_json::value::Value"): _ARITY,
    (RPC_OWNER, "panic debug_assert_eq"): _ARITY,
    (RPC_FOREIGN, "expect serde_json::value::Value"): _ARITY,
    (RPC_FOREIGN, "panic debug_assert_eq"): _ARITY,
    ("<grin_wallet_api::owner::Owner<L, C, K> as grin_wallet_api::owner_rpc::OwnerRpc>::init_secure_api", "index <[u8] as core::ops::index::Index<core::ops::range::RangeFrom<usize>>>::index"): "x_coord[1..] of PublicKey::serialize_vec(compressed = true): always 33 bytes",
    (IMPLS + "adapters::http::HttpSlateSender::check_other_version", "unwrap serde_json::value::Value"): _JSON,
    ("<grin_wallet_impls::adapters::http::HttpSlateSender as grin_wallet_impls::adapters::SlateSender>::send_tx", "unwrap serde_json::value::Value"): _JSON + " (the interpolated slate is the wallet's own VersionedSlate)",
    ("<grin_wallet_impls::adapters::http::HttpSlateSender as grin_wallet_impls::adapters::SlateSender>::send_tx", "unwrap alloc::string::String"): "serde_json::to_string of a serde_json::Value cannot fail",
    (CTL + "controller::OwnerV3Helpers::check_error_response", "unwrap serde_json::value::Value"): _JSON,
    (API + "types::EncryptionErrorResponse::as_json_value", "unwrap serde_json::value::Value"): _JSON,
    (UTIL + "ov3::OnionV3Address::to_ov3_str", "assert:BoundsCheck "): "checksum[0], checksum[1] of a 32-byte SHA3-256 digest",
    ("<grin_wallet_util::ov3::OnionV3Address as core::convert::TryFrom<&str>>::try_from", "index <alloc::vec::Vec<u8> as core::ops::index::Index<core::ops::range::Range<usize>>>::index"): "address[0..32]: BASE32 decoding of an input checked to be exactly 56 characters yields 35 bytes",
    ("<grin_wallet_util::ov3::OnionV3Address as core::convert::TryFrom<&str>>::try_from", "copy_from_slice "): "destination is the [u8; 32] field, source a constant 0..32 slice (slicing guarded separately)",
    (LW + "slatepack::types::Slatepack::try_decrypt_payload", "index <[u8] as core::ops::index::Index<core::ops::range::Range<usize>>>::index"): "result[0..32] of a 64-byte SHA-512 digest",
    (LW + "slatepack::packer::Slatepacker::<'a>::deser_slatepack", "index <[u8] as core::ops::index::Index<core::ops::range::RangeTo<usize>>>::index"): "data[..HEADER.len()] after data.len() >= slatepack::min_size() == HEADER.len() (min_size read in armor.rs)",
    (LW + "slatepack::armor::generate_check", "index <[u8] as core::ops::index::Index<core::ops::range::Range<usize>>>::index"): "checksum[0..4] of a 32-byte SHA-256 digest",
    (LW + "slate::tx_from_slate_v4", "unwrap secp256k1zkp::Signature"): "Signature::from_raw_data over a constant 64-byte zero buffer",
    (LW + "slate::<impl core::convert::From<&grin_wallet_libwallet::slate::Slate> for core::option::Option<alloc::vec::Vec<grin_wallet_libwallet::slate_versions::v4::CommitsV4>>>::from", "panic panic"): "encoder side: slates held by this wallet always carry Inputs::FeaturesAndCommit (tx_from_slate_v4 and the tx builder create only that form)",
    (IMPLS + "client_utils::client::Client::send_request", "unwrap *"): "thread join / runtime mutex of the wallet's own HTTP client; independent of the reply content",
    (IMPLS + "client_utils::client::Client::send_request::{closure#0}", "unwrap *"): "runtime mutex of the wallet's own HTTP client",
    (IMPLS + "adapters::http::HttpSlateSender::with_socks_proxy", "unwrap core::net::socket_addr::SocketAddrV4"): _OWNCFG,
    (IMPLS + "adapters::http::HttpSlateSender::launch_tor", "unwrap core::net::socket_addr::SocketAddr"): _OWNCFG,
    ("<grin_wallet_impls::tor::proxy::TorProxy as core::convert::TryFrom<grin_wallet_config::types::TorProxyConfig>>::try_from", "unwrap *"): _OWNCFG,
    ("<grin_wallet_impls::tor::bridge::TorBridge as core::convert::TryFrom<grin_wallet_config::types::TorBridgeConfig>>::try_from", "unwrap *"): _OWNCFG,
    (CTL + "controller::OwnerV3Helpers::decrypt_request", "unwrap &secp256k1zkp::key::SecretKey"): "call_api calls this only after check_encryption_started(key) returned Ok (key is Some) and the key is never reset to None",
    (CTL + "controller::OwnerV3Helpers::encrypt_response", "unwrap &secp256k1zkp::key::SecretKey"): "called only when was_encrypted, i.e. after a successful decrypt with that key; the key is never reset to None",
    (API + "types::EncryptedBody::from_json", "unwrap ring::aead::UnboundKey"): "AES-256 key is the fixed 32-byte SecretKey",
    (API + "types::EncryptedBody::decrypt", "unwrap ring::aead::UnboundKey"): "AES-256 key is the fixed 32-byte SecretKey",
    (API + "owner::try_slatepack_sync_workflow", "unwrap util::ov3::OnionV3Address"): "TryFrom via the blanket impl over From<&SlatepackAddress>: Infallible",
    (API + "owner::Owner::<L, C, K>::open_wallet", "unwrap alloc::vec::Vec<u8>"): "from_hex of a constant string (doctest mode only)",
    ("<grin_wallet_libwallet::slatepack::armor::HEADER_REGEX as core::ops::deref::Deref>::deref::__static_ref_initialize", "unwrap *"): _CONSTRE,
    ("<grin_wallet_libwallet::slatepack::armor::FOOTER_REGEX as core::ops::deref::Deref>::deref::__static_ref_initialize", "unwrap *"): _CONSTRE,
    ("<grin_wallet_impls::client_utils::client::RUNTIME as core::ops::deref::Deref>::deref::__static_ref_initialize", "unwrap *"): _CONSTRE,
}



# number of sites confirmed by reading for each allow-list entry (a further site of the same kind is reported)
ALLOW_COUNTS = {
    ('grin_wallet_api::owner::Owner::<L, C, K>::open_wallet', 'unwrap alloc::vec::Vec<u8>'): 1,
    ("<(dyn grin_wallet_api::foreign_rpc::ForeignRpc + 'static) as easy_jsonrpc_mw::Handler>::handle", 'expect serde_json::value::Value'): 5,
    ("<(dyn grin_wallet_api::foreign_rpc::ForeignRpc + 'static) as easy_jsonrpc_mw::Handler>::handle", 'panic debug_assert_eq'): 4,
    ("<(dyn grin_wallet_api::owner_rpc::OwnerRpc + 'static) as easy_jsonrpc_mw::Handler>::handle", 'expect serde_json::value::Value'): 97,
    ("<(dyn grin_wallet_api::owner_rpc::OwnerRpc + 'static) as easy_jsonrpc_mw::Handler>::handle", 'panic debug_assert_eq'): 42,
    ('<grin_wallet_api::owner::Owner<L, C, K> as grin_wallet_api::owner_rpc::OwnerRpc>::init_secure_api', 'index <[u8] as core::ops::index::Index<core::ops::range::RangeFrom<usize>>>::index'): 1,
    ('<grin_wallet_impls::adapters::http::HttpSlateSender as grin_wallet_impls::adapters::SlateSender>::send_tx', 'unwrap alloc::string::String'): 1,
    ('<grin_wallet_impls::adapters::http::HttpSlateSender as grin_wallet_impls::adapters::SlateSender>::send_tx', 'unwrap serde_json::value::Value'): 8,
    ('<grin_wallet_impls::client_utils::client::RUNTIME as core::ops::deref::Deref>::deref::__static_ref_initialize', 'unwrap tokio::runtime::Runtime'): 1,
    ('<grin_wallet_impls::tor::bridge::TorBridge as core::convert::TryFrom<grin_wallet_config::types::TorBridgeConfig>>::try_from', 'unwrap &&str'): 1,
    ('<grin_wallet_impls::tor::proxy::TorProxy as core::convert::TryFrom<grin_wallet_config::types::TorProxyConfig>>::try_from', 'unwrap alloc::vec::Vec<u16>'): 1,
    ('<grin_wallet_libwallet::slatepack::armor::FOOTER_REGEX as core::ops::deref::Deref>::deref::__static_ref_initialize', 'unwrap regex::regex::string::Regex'): 1,
    ('<grin_wallet_libwallet::slatepack::armor::HEADER_REGEX as core::ops::deref::Deref>::deref::__static_ref_initialize', 'unwrap regex::regex::string::Regex'): 1,
    ('<grin_wallet_util::ov3::OnionV3Address as core::convert::TryFrom<&str>>::try_from', 'copy_from_slice '): 2,
    ('<grin_wallet_util::ov3::OnionV3Address as core::convert::TryFrom<&str>>::try_from', 'index <alloc::vec::Vec<u8> as core::ops::index::Index<core::ops::range::Range<usize>>>::index'): 1,
    ('grin_wallet_api::owner::try_slatepack_sync_workflow', 'unwrap util::ov3::OnionV3Address'): 1,
    ('grin_wallet_api::types::EncryptedBody::decrypt', 'unwrap ring::aead::UnboundKey'): 1,
    ('grin_wallet_api::types::EncryptedBody::from_json', 'unwrap ring::aead::UnboundKey'): 1,
    ('grin_wallet_api::types::EncryptionErrorResponse::as_json_value', 'unwrap serde_json::value::Value'): 4,
    ('grin_wallet_controller::controller::OwnerV3Helpers::check_error_response', 'unwrap serde_json::value::Value'): 4,
    ('grin_wallet_controller::controller::OwnerV3Helpers::decrypt_request', 'unwrap &secp256k1zkp::key::SecretKey'): 1,
    ('grin_wallet_controller::controller::OwnerV3Helpers::encrypt_response', 'unwrap &secp256k1zkp::key::SecretKey'): 1,
    ('grin_wallet_impls::adapters::http::HttpSlateSender::check_other_version', 'unwrap serde_json::value::Value'): 3,
    ('grin_wallet_impls::adapters::http::HttpSlateSender::launch_tor', 'unwrap core::net::socket_addr::SocketAddr'): 1,
    ('grin_wallet_impls::adapters::http::HttpSlateSender::with_socks_proxy', 'unwrap core::net::socket_addr::SocketAddrV4'): 1,
    ('grin_wallet_impls::client_utils::client::Client::send_request', 'unwrap core::result::Result<alloc::string::String, impls::client_utils::client::Error>'): 1,
    ('grin_wallet_impls::client_utils::client::Client::send_request', "unwrap std::sync::poison::mutex::MutexGuard<'_, tokio::runtime::Runtime>"): 1,
    ('grin_wallet_impls::client_utils::client::Client::send_request::{closure#0}', "unwrap std::sync::poison::mutex::MutexGuard<'_, tokio::runtime::Runtime>"): 1,
    ('grin_wallet_libwallet::slate::<impl core::convert::From<&grin_wallet_libwallet::slate::Slate> for core::option::Option<alloc::vec::Vec<grin_wallet_libwallet::slate_versions::v4::CommitsV4>>>::from', 'panic panic'): 1,
    ('grin_wallet_libwallet::slate::tx_from_slate_v4', 'unwrap secp256k1zkp::Signature'): 1,
    ('grin_wallet_libwallet::slatepack::armor::generate_check', 'index <[u8] as core::ops::index::Index<core::ops::range::Range<usize>>>::index'): 1,
    ("grin_wallet_libwallet::slatepack::packer::Slatepacker::<'a>::deser_slatepack", 'index <[u8] as core::ops::index::Index<core::ops::range::RangeTo<usize>>>::index'): 1,
    ('grin_wallet_libwallet::slatepack::types::Slatepack::try_decrypt_payload', 'index <[u8] as core::ops::index::Index<core::ops::range::Range<usize>>>::index'): 1,
    ('grin_wallet_util::ov3::OnionV3Address::to_ov3_str', 'assert:BoundsCheck '): 2,
}


# allow-list entries whose reason rests on a guard in the same function: the entry only applies while
# that guard still dominates the site  (lhs call suffix, relation that must hold at the site, rhs)
ALLOW_GUARDS = {
    (LW + "slatepack::packer::Slatepacker::<'a>::deser_slatepack", "index <[u8] as core::ops::index::Index<core::ops::range::RangeTo<usize>>>::index"): ("::len", "Ge", "slatepack::armor::min_size"),
    ("<grin_wallet_util::ov3::OnionV3Address as core::convert::TryFrom<&str>>::try_from", "index <alloc::vec::Vec<u8> as core::ops::index::Index<core::ops::range::Range<usize>>>::index"): ("::len", "Eq", 56),
}


def allowed(fid, what):
    r = ALLOW.get((fid, what))
    if r:
        return r
    for (f, w), reason in ALLOW.items():
        if f.endswith("*") and fid.startswith(f[:-1]) and (w == what or w == "*"):
            return reason
        if f == fid and w.endswith("*") and what.startswith(w[:-1]):
            return reason
    return None
