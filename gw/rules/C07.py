"""C07 - The foreign API can only add funds, exactly once per slate."""
from . import common as c
from .. import cfg, valueflow as vf, pp
from ..callgraph import STATE_EFFECTS, non_production
from ..engine import Finding

FOREIGN = c.LW + "api_impl::foreign::"
OWNER = c.LW + "api_impl::owner::"
UPD = c.LW + "internal::updater::"
SEL = c.LW + "internal::selection::"
TX = c.LW + "internal::tx::"
OD = c.LW + "types::OutputData"
RPC = "<" + c.API + "foreign::Foreign<'a, L, C, K> as " + c.API + "foreign_rpc::ForeignRpc>::"

ALLOWED = {
    "check_version": set(),
    "build_coinbase": {"next_child", "save_child_index", "save_output", "commit"},
    "receive_tx": {"next_child", "save_child_index", "save_output", "next_tx_log_id", "save_tx_log_entry", "commit"},
    # finalize needs a stored private context (R4); what it may then do:
    "finalize_tx": {"next_child", "save_child_index", "save_output", "next_tx_log_id", "save_tx_log_entry", "commit",
                    "lock_output", "save_private_context", "delete_private_context", "store_tx", "post_tx"},
}
NEVER = {"delete_output", "set_parent_key_id", "close", "set_keychain", "save_acct_path", "save_init_status", "save_last_scanned_block", "save_last_confirmed_height"}


def existing_key_guards(ctx, rid, fn, lit_b, lit_s, what_prefix):
    """OutputData literal whose key_id may come from an existing record: every
    definition of the key local that derives from a stored record must be
    guarded by that record's is_coinbase and status == Unconfirmed."""
    run = ctx.run
    fl = vf.get_flow(fn)
    ko = vf.literal_field(lit_s, "key_id")
    K = vf.strip_clones(fn, ko)
    defs = fn.defs().get(K, [])
    n_existing = 0
    ok_all = True
    fresh = 0
    for d in defs:
        if d[0] == "a":
            r_ = d[3]["r"]
            o = set()
            for key in ("o", "p"):
                if key in r_:
                    o |= vf.producers(fn, r_[key])
            b = d[1]
        elif d[0] == "call":
            if d[2].get("f") in vf.TRANSPARENT_CALLS and d[2]["a"]:
                o = vf.producers(fn, d[2]["a"][0])
            else:
                o = {("call", d[2].get("f"), d[1])}
            b = d[1]
        else:
            continue
        is_fresh = vf.has_call(o, c.LW + "internal::keys::next_available_key") or vf.has_call(o, c.WB + "next_child")
        is_existing = vf.has_call(o, c.WB + "get") or vf.has_call(o, c.LW + "internal::keys::retrieve_existing_key")
        if is_fresh and not is_existing:
            fresh += 1
            continue
        if not is_existing:
            ok_all = False
            run.instance(rid, {"fn": pp.short(fn.id), "obligation": what_prefix + ": key_id definition of unknown provenance", "origins": sorted(map(str, o))[:6]}, held=False)
            run.finding(Finding(rid, fn.id, what_prefix + ": saved output's key id has a definition that is neither a fresh key nor a guarded existing candidate", site=c.site_of(fn, b)))
            continue
        n_existing += 1
        # guards
        cb_edges = set()
        for bb_i, bb in enumerate(fn.bbs):
            t = bb["t"]
            if t["k"] == "sw":
                l = cfg._plain_local(t["o"])
                for dd in fn.defs().get(l, []) if l is not None else []:
                    if dd[0] == "a" and dd[3]["r"]["k"] == "use":
                        p = vf.op_place(dd[3]["r"]["o"])
                        if p and p[1] and isinstance(p[1][-1], dict) and p[1][-1].get("n") == "is_coinbase" and p[1][-1].get("a") == OD:
                            if vf.has_call(fl.of_place(p), c.WB + "get"):
                                g = cfg.local_guard(fn, l)
                                cb_edges |= {e for e in g.ok if e[0] == bb_i}
        st_edges = set()
        for x in cfg.comparisons(fn):
            if x.op not in ("Eq", "Ne"):
                continue
            lo, ro = fl.of_operand(x.l), fl.of_operand(x.r)
            for a, bb_ in ((lo, ro), (ro, lo)):
                if vf.has_field(a, OD, "status") and vf.has_call(a, c.WB + "get") and ("agg", c.LW + "types::OutputStatus", "Unconfirmed") in bb_:
                    st_edges |= x.true_edges if x.op == "Eq" else x.false_edges
        h1 = bool(cb_edges) and cfg.must_pass(fn, cb_edges, {b})[0]
        h2 = bool(st_edges) and cfg.must_pass(fn, st_edges, {b})[0]
        run.instance(rid, {"fn": pp.short(fn.id), "obligation": what_prefix + ": a caller-named existing key is used only if that record is_coinbase", "site": c.site_of(fn, b)}, held=h1)
        run.instance(rid, {"fn": pp.short(fn.id), "obligation": what_prefix + ": a caller-named existing key is used only if that record's status == Unconfirmed", "site": c.site_of(fn, b)}, held=h2)
        if not (h1 and h2):
            ok_all = False
            run.finding(Finding(rid, fn.id, what_prefix + ": caller-supplied key id of an existing output is reused without checking it is a still-unconfirmed coinbase candidate", site=c.site_of(fn, b),
                                detail="is_coinbase guard=%s status==Unconfirmed guard=%s" % (h1, h2)))
    return fresh, n_existing, ok_all


def run(ctx):
    run = ctx.run
    db = ctx.db
    R1 = "C07.R1"
    run.rule(R1, "effect containment per foreign RPC method", floor=6)
    for m, allowed in sorted(ALLOWED.items()):
        fid = RPC + m
        f = ctx.fn(fid)
        if not f:
            continue
        e = ctx.eff.of(fid)
        extra = e - allowed
        held = not extra and not (e & NEVER)
        run.instance(R1, {"method": "ForeignRpc::" + m, "effects": sorted(e), "allowed": sorted(allowed)}, held=held)
        if not held:
            run.finding(Finding(R1, fid, "foreign method %s can reach effects outside its table: %s" % (m, sorted(extra | (e & NEVER))), site=f.loc()))
    # all methods of the ForeignRpc trait are in the table
    tr = db.traits.get(c.API + "foreign_rpc::ForeignRpc")
    if not tr:
        run.error("C07.R1: trait ForeignRpc not found")
    else:
        names = sorted(i["name"] for i in tr["items"])
        held = names == sorted(ALLOWED)
        run.instance(R1, {"obligation": "ForeignRpc methods are exactly the tabled ones", "found": names}, held=held)
        if not held:
            run.finding(Finding(R1, tr["id"], "ForeignRpc method set changed: %s" % names, site=""))
    # listener: the handler dispatches only to dyn ForeignRpc
    h = db.fns.get(c.CTL + "controller::ForeignAPIHandlerV2::<L, C, K>::call_api::{closure#0}")
    if not h:
        run.error("C07.R1: ForeignAPIHandlerV2::call_api not found")
    else:
        disp = [t for b, t in h.calls() if t.get("f") == "easy_jsonrpc_mw::Handler::handle_request"]
        held = len(disp) == 1 and "foreign_rpc::ForeignRpc" in disp[0]["fa"]
        e = ctx.eff.of(h.id)
        union = set().union(*ALLOWED.values())
        held = held and e <= union
        run.instance(R1, {"fn": "ForeignAPIHandlerV2::call_api", "obligation": "dispatches only to dyn ForeignRpc; reachable effects within the union of the table", "effects": sorted(e)}, held=held)
        if not held:
            run.finding(Finding(R1, h.id, "foreign listener reaches effects outside the ForeignRpc table", site=h.loc(), detail=str(sorted(e - union))))
    # owner:: entry points reachable from foreign api_impl
    owner_used = set()
    par = ctx.cg.reachable([FOREIGN + n for n in ("check_version", "build_coinbase", "receive_tx", "finalize_tx")])
    for k in par:
        if k.startswith(OWNER) and db.fns[k].dk == "Fn":
            owner_used.add(k.split("::")[-1])
    allowed_owner = {"check_ttl", "tx_lock_outputs", "post_tx"}
    held = owner_used <= allowed_owner
    run.instance(R1, {"obligation": "owner:: functions reachable from foreign:: are within {check_ttl, tx_lock_outputs, post_tx}", "found": sorted(owner_used)}, held=held)
    if not held:
        run.finding(Finding(R1, FOREIGN + "*", "foreign api_impl reaches owner functions %s" % sorted(owner_used - allowed_owner), site=""))

    R2 = "C07.R2"
    run.rule(R2, "records written by foreign calls are new records (fresh key, Unconfirmed), or a guarded coinbase candidate", floor=6)
    bro = ctx.fn(SEL + "build_recipient_output")
    if bro:
        lits = vf.struct_literals(bro, OD)
        if len(lits) != 1:
            run.error("C07.R2: expected one OutputData literal in build_recipient_output, found %d" % len(lits))
        for b, s in lits:
            fl = vf.get_flow(bro)
            st = vf.const_of_operand(bro, vf.literal_field(s, "status"))
            h = st == c.LW + "types::OutputStatus::Unconfirmed"
            run.instance(R2, {"fn": "build_recipient_output", "obligation": "status: Unconfirmed", "found": st}, held=h)
            if not h:
                run.finding(Finding(R2, bro.id, "received output is not created Unconfirmed", site=c.site_of(bro, b)))
            vo = fl.of_operand(vf.literal_field(s, "value"))
            h = vf.has_field(vo, c.LW + "slate::Slate", "amount")
            run.instance(R2, {"fn": "build_recipient_output", "obligation": "value := slate.amount"}, held=h)
            if not h:
                run.finding(Finding(R2, bro.id, "received output value does not derive from slate.amount", site=c.site_of(bro, b)))
            ko = fl.of_operand(vf.literal_field(s, "key_id"))
            h = vf.has_call(ko, c.LW + "internal::keys::next_available_key") and not vf.has_call(ko, c.WB + "get")
            run.instance(R2, {"fn": "build_recipient_output", "obligation": "key_id := fresh next_available_key"}, held=h)
            if not h:
                run.finding(Finding(R2, bro.id, "received output key is not a fresh key", site=c.site_of(bro, b)))
            lo = fl.of_operand(vf.literal_field(s, "tx_log_entry"))
            h = vf.has_call(lo, c.WOB + "next_tx_log_id")
            run.instance(R2, {"fn": "build_recipient_output", "obligation": "tx_log_entry := fresh next_tx_log_id"}, held=h)
            if not h:
                run.finding(Finding(R2, bro.id, "received output not linked to a fresh log id", site=c.site_of(bro, b)))
            cbv = vf.const_of_operand(bro, vf.literal_field(s, "is_coinbase"))
            h = cbv == "0"
            run.instance(R2, {"fn": "build_recipient_output", "obligation": "is_coinbase: false"}, held=h)
            if not h:
                run.finding(Finding(R2, bro.id, "received output flagged coinbase", site=c.site_of(bro, b)))
    rc = ctx.fn(UPD + "receive_coinbase")
    if rc:
        lits = vf.struct_literals(rc, OD)
        if len(lits) != 1:
            run.error("C07.R2: expected one OutputData literal in receive_coinbase, found %d" % len(lits))
        for b, s in lits:
            st = vf.const_of_operand(rc, vf.literal_field(s, "status"))
            h = st == c.LW + "types::OutputStatus::Unconfirmed" and vf.const_of_operand(rc, vf.literal_field(s, "is_coinbase")) == "1"
            run.instance(R2, {"fn": "receive_coinbase", "obligation": "candidate is Unconfirmed and is_coinbase"}, held=h)
            if not h:
                run.finding(Finding(R2, rc.id, "coinbase candidate not created Unconfirmed/is_coinbase", site=c.site_of(rc, b)))
            fresh, existing, ok = existing_key_guards(ctx, R2, rc, b, s, "receive_coinbase")
            if fresh < 1:
                run.error("C07.R2: no fresh-key definition found for the coinbase candidate's key id")

    R3 = "C07.R3"
    run.rule(R3, "receive_tx: guarded by TTL and duplicate check; only the recipient's data leaves", floor=5)
    rt = FOREIGN + "receive_tx"
    f = ctx.fn(rt)
    if f:
        c.require_pass(ctx, R3, rt, OWNER + "check_ttl", ("effects",), "first effect requires check_ttl Ok")
        c.require_pass(ctx, R3, rt, UPD + "retrieve_txs", ("effects",), "first effect requires the duplicate look-up (retrieve_txs) Ok")
        # the duplicate test: a TxReceived entry with this slate id -> Err before any effect; look-up keyed by the
        # slate id and complete (shared with C03.R3; the test may live in a helper whose Ok-edge guards the effects)
        from .shared import replay_guard
        h, info = replay_guard(ctx, R3, f, "TxReceived")
        run.instance(R3, {"fn": "foreign::receive_tx", "obligation": "an existing TxReceived entry for this slate id leads to Err without any effect", "found": info}, held=h)
        if not h:
            if not (info["lookups_by_slate_id"] and info["duplicate_tests"]):
                run.finding(Finding(R3, rt, "duplicate look-up keyed by the slate id / duplicate-receive test not found before the effects", site=f.loc()))
            else:
                run.finding(Finding(R3, rt, "duplicate delivery not refused before effects", site=info.get("site", f.loc())))
        # a payment that was confirmed and then reorganised away keeps its entry as TxReverted until it is mined again:
        # a further delivery of its slate in that window is a second delivery all the same (seed C07m)
        h, info = replay_guard(ctx, R3, f, "TxReverted")
        run.instance(R3, {"fn": "foreign::receive_tx", "obligation": "an existing TxReverted entry for this slate id leads to Err without any effect", "found": info}, held=h)
        if not h:
            run.finding(Finding(R3, rt, "a second delivery of a slate whose payment was confirmed and reorganised away (entry TxReverted) is accepted: a second output and a second receive entry for one slate", site=info.get("site", f.loc())))
        c.require_pass(ctx, R3, rt, c.LW + "slate::Slate::remove_other_sigdata", ("okret",), "Ok return passes remove_other_sigdata Ok (only the recipient's participant entry leaves)")
        for fld in ("amount", "fee_fields"):
            asg = vf.field_assignments(f, c.LW + "slate::Slate", fld)
            e = {(b, x) for b, _s in asg for x in f.succ(b)}
            h = bool(e) and cfg.must_pass(f, e, cfg.return_blocks(f), cut_nodes=cfg.error_return_blocks(f))[0]
            run.instance(R3, {"fn": "foreign::receive_tx", "obligation": "returned slate has %s reset" % fld}, held=h)
            if not h:
                run.finding(Finding(R3, rt, "returned slate keeps %s" % fld, site=f.loc()))

    R4 = "C07.R4"
    run.rule(R4, "finalize is authenticated before it acts: effects need a stored context and complete_tx Ok", floor=2)
    fz = FOREIGN + "finalize_tx"
    f = ctx.fn(fz)
    if f:
        c.require_pass(ctx, R4, fz, c.WB + "get_private_context", ("effects",), "every effect requires get_private_context Ok (a context exists only for a slate this wallet initiated)")
        # effects before complete_tx verified the counter-signature
        ce, n = c.guard_edges(ctx, f, TX + "complete_tx", R4)
        eb = ctx.eff.effect_blocks(f)
        par = cfg.reach(f, cut_edges=ce)
        early = sorted(b for b in eb if b in par)
        groups = {}
        for b in early:
            t = f.bbs[b]["t"]
            groups.setdefault(pp.short(t.get("f") or "?").split("::")[-1], []).append(b)
        run.instance(R4, {"fn": "foreign::finalize_tx", "obligation": "no wallet effect before complete_tx verified the reply", "early_effects": {k: sorted(eb[b2] for b2 in v)[0] and sorted(set().union(*[eb[b2] for b2 in v])) for k, v in groups.items()}}, held=not early)
        for name, bs in sorted(groups.items()):
            run.finding(Finding(R4, fz, "effect before the reply is verified: %s" % name, site=c.site_of(f, bs[0]),
                                detail="reachable without the Ok-edge of complete_tx; effects %s" % sorted(set().union(*[eb[b2] for b2 in bs]))))
    R5 = "C07.R5"
    run.rule(R5, "a receive adds an entry of its own: the log id comes from the counter of the destination account, under which the entry is saved", floor=1)
    from .shared import log_id_account
    if not log_id_account(ctx, R5, only={c.LW + "internal::selection::build_recipient_output"}):
        run.error("C07.R5: build_recipient_output no longer draws a log id and saves an entry (anchor missing)")
    R6 = "C07.R6"
    run.rule(R6, "a receive into the account the slate's deliverer names takes its key from that account's own counter (a key index the destination account has used already would overwrite its record: an existing output changes status and value)", floor=1)
    from .shared import next_child_one_account
    next_child_one_account(ctx, R6)
    run.not_decided += ["'spendable balance never decreases' as a number", "that complete_tx's signature checks reject every forged reply (cryptographic)"]
