"""C18 - A reorganised-away incoming payment is found reverted, never spendable (structural clauses)."""
from . import common as c
from .. import cfg, dectree, valueflow as vf, pp
from ..engine import Finding

UPD = c.LW + "internal::updater::"
OD = c.LW + "types::OutputData"
TLE = c.LW + "types::TxLogEntry"
TLT = c.LW + "types::TxLogEntryType"
STATUSES = ["Unconfirmed", "Unspent", "Locked", "Spent", "Reverted"]
TRANSITIONS = {
    "mark_unspent": {"Unconfirmed": "Unspent", "Reverted": "Unspent"},
    "mark_spent": {"Unspent": "Spent", "Locked": "Spent"},
    "mark_reverted": {"Unspent": "Reverted"},
}


def _tuple3(pr):
    return ("field", "()", "3") in pr


def run(ctx):
    run = ctx.run
    db = ctx.db
    R1 = "C18.R1"
    run.rule(R1, "reverted outputs are never selected (eligible_to_spend false for Reverted)", floor=1)
    el = ctx.fn(OD + "::eligible_to_spend")
    U = {"_1.status": frozenset(STATUSES)}
    if el:
        pe = dectree.PathEnum(el, db)
        may_true = False
        n = 0
        for p in pe.paths(0, init_state={"_1.status": frozenset(["Reverted"])}, universe=U):
            n += 1
            v = [e[2] for e in p.events if e[0] == "set" and e[1] == "_0"]
            if not v or v[-1] != "0":
                may_true = True
        run.instance(R1, {"fn": "eligible_to_spend", "status": "Reverted", "paths": n}, held=n > 0 and not may_true)
        if may_true or n == 0:
            run.finding(Finding(R1, el.id, "a Reverted output can be eligible to spend", site=el.loc()))

    R2 = "C18.R2"
    run.rule(R2, "Reverted is excluded from spendable and total (only amount_reverted)", floor=2)
    ri = ctx.fn(UPD + "retrieve_info")
    if ri:
        # reuse C04's enumeration for the Reverted row and the WalletInfo literal
        nx = [b for b, t in cfg.find_calls(ri, "core::iter::traits::iterator::Iterator::next")]
        from .C04 import accumulator_roles
        wl = vf.struct_literals(ri, c.LW + "types::WalletInfo")
        accs = accumulator_roles(ri, wl[0][1])[0] if len(wl) == 1 else {}
        if len(nx) == 1:
            head = nx[0]
            body = ri.bbs[head]["t"]["t"]
            pe = dectree.PathEnum(ri, db)
            seen = set()
            feas = 0
            for p in pe.paths(body, stops={head}):
                if p.end != head:
                    continue
                ok = True
                has = False
                for e in p.events:
                    if e[0] == "lit" and e[1].endswith(".status"):
                        has = True
                        ns = {e[2]} if isinstance(e[2], str) else set(e[2])
                        if ("Reverted" in ns) != e[3]:
                            ok = False
                if ok and has:
                    feas += 1
                    seen |= {accs[int(e[1][1:])] for e in p.events if e[0] == "set" and e[1][1:].isdigit() and int(e[1][1:]) in accs}
            held = seen == {"reverted_total"} and feas > 0
            run.instance(R2, {"fn": "retrieve_info", "status": "Reverted", "accumulators": sorted(seen)}, held=held)
            if not held:
                run.finding(Finding(R2, ri.id, "Reverted outputs feed %s" % sorted(seen), site=ri.loc()))
        lits = vf.struct_literals(ri, c.LW + "types::WalletInfo")
        if lits:
            fl = vf.get_flow(ri)

            def deps(o):
                p = vf.op_place(o)
                seen_, stack, res = set(), [p[0]] if p else [], set()
                while stack:
                    l = stack.pop()
                    if l in seen_:
                        continue
                    seen_.add(l)
                    if l in accs:
                        res.add(accs[l])
                        continue
                    stack.extend(fl.deps[l])
                return res

            bad = [fld for fld in ("total", "amount_currently_spendable", "amount_locked", "amount_immature", "amount_awaiting_confirmation", "amount_awaiting_finalization") if "reverted_total" in deps(vf.literal_field(lits[0][1], fld))]
            held = not bad and deps(vf.literal_field(lits[0][1], "amount_reverted")) == {"reverted_total"}
            run.instance(R2, {"fn": "retrieve_info", "obligation": "reverted_total feeds only WalletInfo.amount_reverted", "other_fields_fed": bad}, held=held)
            if not held:
                run.finding(Finding(R2, ri.id, "reverted value is reported in %s" % bad, site=ri.loc()))

    R3 = "C18.R3"
    run.rule(R3, "output state machine: transition tables of mark_unspent / mark_spent / mark_reverted", floor=15)
    for name, table in sorted(TRANSITIONS.items()):
        f = ctx.fn(OD + "::" + name)
        if not f:
            continue
        pe = dectree.PathEnum(f, db)
        for st in STATUSES:
            finals = set()
            for p in pe.paths(0, init_state={"_1.status": frozenset([st])}, universe=U):
                cur = st
                for e in p.events:
                    if e[0] == "set" and e[1] == "_1.status":
                        cur = e[2]
                finals.add(cur)
            exp = {table.get(st, st)}
            held = finals == exp
            run.instance(R3, {"fn": name, "from": st, "to": sorted(map(str, finals)), "expected": sorted(exp)}, held=held)
            if not held:
                run.finding(Finding(R3, f.id, "%s: %s -> %s (expected %s)" % (name, st, sorted(map(str, finals)), sorted(exp)), site=f.loc()))

    R4 = "C18.R4"
    run.rule(R4, "refresh branches: revert only on (absent from node, not coinbase, kernel reverted); re-confirm restores the entry", floor=5)
    ap = ctx.fn(UPD + "apply_api_outputs")
    if ap:
        fl = vf.get_flow(ap)
        mr = cfg.find_calls(ap, OD + "::mark_reverted")
        ms = cfg.find_calls(ap, OD + "::mark_spent")
        mu = cfg.find_calls(ap, OD + "::mark_unspent")
        if len(mr) != 1 or len(ms) != 1 or len(mu) != 1:
            run.error("C18.R4: expected exactly one mark_reverted / mark_spent / mark_unspent call in apply_api_outputs")
        else:
            rb = {mr[0][0]}
            # api_outputs.get(commit): None edge
            g_api = None
            for b, t in ap.calls():
                if "HashMap::" in (t.get("f") or "") and (t.get("f") or "").endswith("::get"):
                    if any(x[0] == "arg" and x[1] == c.param(ap, "api_outputs", "(alloc::string::String, u64, u64)") for x in vf.producers(ap, t["a"][0])):
                        g_api = cfg.call_guard(ap, b)
            held = g_api is not None and bool(g_api.fail) and cfg.must_pass(ap, g_api.fail, rb)[0]
            run.instance(R4, {"obligation": "mark_reverted only when the output is absent from the node's answer"}, held=held)
            if not held:
                run.finding(Finding(R4, ap.id, "mark_reverted reachable for an output the node still reports", site=c.site_of(ap, mr[0][0])))
            held2 = g_api is not None and cfg.must_pass(ap, g_api.ok, {mu[0][0]})[0] and cfg.must_pass(ap, g_api.fail, {ms[0][0]})[0]
            run.instance(R4, {"obligation": "mark_unspent only for outputs the node reports; mark_spent only for absent ones"}, held=held2)
            if not held2:
                run.finding(Finding(R4, ap.id, "mark_unspent / mark_spent not tied to the node's answer", site=ap.loc()))
            # reverted_kernels.contains(tx_log_entry) true edge and !is_coinbase
            cont = None
            for k in db.closures_of(ap.id):
                g = db.fns[k]
                if any(("HashSet::" in (t.get("f") or "") and (t.get("f") or "").endswith("::contains")) for _b, t in g.calls()):
                    cont = g
            mp = [(b, t) for b, t in ap.calls() if t.get("f") == "core::option::Option::<T>::map" and vf.has_field(vf.origins(ap, t["a"][0]), OD, "tx_log_entry")]
            held3 = cont is not None and len(mp) >= 1
            if held3:
                # the map(..).unwrap_or(false) result guards the call
                uo = [(b, t) for b, t in ap.calls() if t.get("f") == "core::option::Option::<T>::unwrap_or" and vf.has_call(vf.producers(ap, t["a"][0]), "core::option::Option::<T>::map")]
                held3 = False
                for b, t in uo:
                    g = cfg.call_guard(ap, b)
                    if g.ok and cfg.must_pass(ap, g.ok, rb)[0]:
                        held3 = True
            run.instance(R4, {"obligation": "mark_reverted only if reverted_kernels contains the output's log id"}, held=held3)
            if not held3:
                run.finding(Finding(R4, ap.id, "mark_reverted not guarded by reverted_kernels.contains(tx_log_entry)", site=c.site_of(ap, mr[0][0])))
            cbg = []
            for b, bb in enumerate(ap.bbs):
                t = bb["t"]
                if t["k"] == "sw":
                    l = cfg._plain_local(t["o"])
                    for d in ap.defs().get(l, []) if l is not None else []:
                        if d[0] == "a" and d[3]["r"]["k"] == "use":
                            p = vf.op_place(d[3]["r"]["o"])
                            if p and p[1] and isinstance(p[1][-1], dict) and p[1][-1].get("n") == "is_coinbase":
                                g = cfg.local_guard(ap, l)
                                cbg.append(g)
            held4 = any(g.fail and cfg.must_pass(ap, g.fail, rb)[0] for g in cbg)
            run.instance(R4, {"obligation": "mark_reverted only for non-coinbase outputs"}, held=held4)
            if not held4:
                run.finding(Finding(R4, ap.id, "coinbase outputs can be marked reverted", site=c.site_of(ap, mr[0][0])))
        # re-confirm branch: TxReverted -> TxReceived, reverted_after = None, confirmed = true
        asg_t = [(b, s) for b, s in vf.field_assignments(ap, TLE, "tx_type")]
        to_recv = [b for b, s in asg_t if vf.const_of_operand(ap, s["r"]["o"]) == TLT + "::TxReceived"]
        to_rev = [b for b, s in asg_t if vf.const_of_operand(ap, s["r"]["o"]) == TLT + "::TxReverted"]
        ra_none = [b for b, s in vf.field_assignments(ap, TLE, "reverted_after") if s["r"]["k"] == "use" and vf.const_of_operand(ap, s["r"]["o"]) == "core::option::Option::None"]
        conf_true = [b for b, s in vf.field_assignments(ap, TLE, "confirmed") if s["r"]["k"] == "use" and vf.const_of_operand(ap, s["r"]["o"]) == "1"]
        conf_false = [b for b, s in vf.field_assignments(ap, TLE, "confirmed") if s["r"]["k"] == "use" and vf.const_of_operand(ap, s["r"]["o"]) == "0"]
        held = len(to_recv) == 1 and len(ra_none) == 1 and to_recv[0] == ra_none[0] and bool(conf_true)
        if held:
            # the TxReceived assignment is guarded by tx_type == TxReverted
            cm = [x for x in cfg.comparisons(ap) if x.op in ("Eq", "Ne") and ("agg", TLT, "TxReverted") in (fl.of_operand(x.l) | fl.of_operand(x.r))]
            held = any(cfg.must_pass(ap, (x.true_edges if x.op == "Eq" else x.false_edges), {to_recv[0]})[0] for x in cm)
        run.instance(R4, {"obligation": "re-confirm: a TxReverted entry becomes TxReceived with reverted_after = None and confirmed = true"}, held=held)
        # ... and that branch is open to an output whose status is Reverted (the output of a reverted payment is Reverted,
        # not Unconfirmed): a test `status == Reverted` whose true side reaches the restoring assignment
        if held:
            OSN = c.LW + "types::OutputStatus"
            cr = [x for x in cfg.comparisons(ap) if x.op == "Eq" and ("agg", OSN, "Reverted") in (fl.of_operand(x.l) | fl.of_operand(x.r))]
            h5 = any(to_recv[0] in cfg.reach(ap, starts=[d_ for (_s, d_) in x.true_edges]) for x in cr)
            run.instance(R4, {"obligation": "re-confirm: the restoring branch is entered for an output whose status is Reverted", "status == Reverted tests": len(cr)}, held=h5)
            if not h5:
                run.finding(Finding(R4, ap.id, "the branch that restores a TxReverted entry is not entered for a Reverted output: when the payment is mined again its output becomes Unspent but the entry stays reverted and unconfirmed", site=ap.loc()))
        if not held:
            run.finding(Finding(R4, ap.id, "re-confirmation no longer restores a reverted entry", site=ap.loc()))
        held = len(to_rev) == 1 and bool(conf_false)
        if held:
            h = [b for b, t in ap.calls() if ("HashSet::" in (t.get("f") or "") and (t.get("f") or "").endswith("::contains"))]
            gg = [cfg.call_guard(ap, b) for b in h]
            held = any(g.ok and cfg.must_pass(ap, g.ok, {to_rev[0]})[0] for g in gg)
        run.instance(R4, {"obligation": "an entry becomes TxReverted (confirmed = false) only if its id is in reverted_kernels"}, held=held)
        if not held:
            run.finding(Finding(R4, ap.id, "log entries can be marked TxReverted without a vanished kernel", site=ap.loc()))
    fr = ctx.fn(UPD + "find_reverted_kernels")
    if fr:
        gk = cfg.find_calls(fr, c.LW + "types::NodeClient::get_kernel")
        ins = [b for b, t in fr.calls() if ("HashSet::" in (t.get("f") or "") and (t.get("f") or "").endswith("::insert"))]
        held = len(gk) == 1
        if held:
            # reverted.insert (the one after the get_kernel call) only on the is_none() true edge of its answer
            after = cfg.reach(fr, starts=[fr.bbs[gk[0][0]]["t"]["t"]])
            late_ins = [b for b in ins if b in after]
            from .shared import option_value_none_edges
            GK = c.LW + "types::NodeClient::get_kernel"
            none_e = option_value_none_edges(fr, lambda srcs: vf.has_call(srcs, GK))
            held = bool(late_ins) and bool(none_e)
            if held:
                par = cfg.reach(fr, starts=[fr.bbs[gk[0][0]]["t"]["t"]], cut_edges=none_e)
                held = not any(b in par for b in late_ins)
        run.instance(R4, {"fn": "find_reverted_kernels", "obligation": "a kernel is 'reverted' only if the node's get_kernel answered Ok(None)"}, held=held)
        if not held:
            run.finding(Finding(R4, fr.id, "kernels are reported reverted without a negative answer from the node", site=fr.loc()))
        cls = [db.fns[k] for k in db.closures_of(fr.id)]
        held = any(("agg", TLT, "TxReceived") in (vf.get_flow(g).of_operand(x.l) | vf.get_flow(g).of_operand(x.r)) for g in cls for x in cfg.comparisons(g))
        run.instance(R4, {"fn": "find_reverted_kernels", "obligation": "only TxReceived entries are candidates"}, held=held)
        if not held:
            run.finding(Finding(R4, fr.id, "reverted-kernel candidates are no longer restricted to TxReceived", site=fr.loc()))
    if fr:
        # a transaction becomes a revert candidate only for an output that WAS unspent and IS absent from the node's answer
        early_ins = [b for b, t in fr.calls() if ("HashSet::" in (t.get("f") or "") and (t.get("f") or "").endswith("::insert")) and not (gk and b in cfg.reach(fr, starts=[fr.bbs[gk[0][0]]["t"]["t"]]))]
        ck = [(b, t) for b, t in fr.calls() if "HashMap::" in (t.get("f") or "") and (t.get("f") or "").endswith("::contains_key")]
        held = len(early_ins) == 1 and len(ck) == 1
        if held:
            ib = {early_ins[0]}
            g_ck = cfg.call_guard(fr, ck[0][0])
            absent = bool(g_ck.fail) and cfg.must_pass(fr, g_ck.fail, ib)[0]
            wu = False
            for l in range(1, len(fr.locals)):
                if fr.locals[l]["ty"] != "bool":
                    continue
                pr = vf.producers(fr, {"c": [l, []]})
                if _tuple3(pr):
                    g_l = cfg.local_guard(fr, l)
                    if g_l.ok and cfg.must_pass(fr, g_l.ok, ib)[0]:
                        wu = True
            held = absent and wu
            run.instance(R4, {"fn": "find_reverted_kernels", "obligation": "candidate only if (was unspent) and (absent from the node's answer)", "absent_guard": absent, "was_unspent_guard": wu}, held=held)
        else:
            run.instance(R4, {"fn": "find_reverted_kernels", "obligation": "one candidate insertion guarded by one contains_key test", "insertions": len(early_ins), "contains_key": len(ck)}, held=False)
        if not held:
            run.finding(Finding(R4, fr.id, "a transaction can become a revert candidate without its output having been unspent and now absent from the node", site=fr.loc()))
    from .shared import was_unspent_flag
    was_unspent_flag(ctx, R4)
    R5 = "C18.R5"
    run.rule(R5, "a refresh at an unchanged tip still applies the node's answer (the give-up test is strictly 'node behind wallet')", floor=1)
    from .shared import refresh_not_skipped
    refresh_not_skipped(ctx, R5)
    R6 = "C18.R6"
    run.rule(R6, "a reverted output is not reserved either: inputs are chosen when the context is built, the reservation step reads each record again and refuses one that a scan has marked Reverted in the meantime", floor=2)
    from .shared import reservation_recheck
    reservation_recheck(ctx, R6)
    R7 = "C18.R7"
    run.rule(R7, "a reverted payment stays re-confirmable: the automatic expiry step of a refresh does not cancel a TxReverted entry (which would delete its output)", floor=1)
    from .shared import expiry_step_scope
    expiry_step_scope(ctx, R7, ("reverted",))
    R8 = "C18.R8"
    run.rule(R8, "a received output that is reserved by a pending send when its block is reorganised away is still attributed to the payment that created it", floor=1)
    lk8 = ctx.fn(c.LW + "internal::selection::lock_tx_context")
    mw8 = ctx.fn(c.LW + "internal::updater::map_wallet_outputs")
    if lk8 is None or mw8 is None:
        run.error("C18.R8: lock_tx_context / map_wallet_outputs not found")
    else:
        OD8 = c.LW + "types::OutputData"
        relinked = bool(vf.field_assignments(lk8, OD8, "tx_log_entry"))
        # which statuses make a vanished output a revert candidate
        lits = set()
        for x in cfg.comparisons(mw8):
            pl, pr = vf.producers(mw8, x.l), vf.producers(mw8, x.r)
            for a, b_ in ((pl, pr), (pr, pl)):
                if x.op == "Eq" and vf.has_field(a, OD8, "status"):
                    lits |= {y[2] for y in b_ if y[0] == "agg" and y[1] == c.LW + "types::OutputStatus"}
        held = not relinked or "Locked" in lits
        run.instance(R8, {"fn": "lock_tx_context / map_wallet_outputs", "obligation": "a reservation keeps the output's link to the entry that created it, or reserved outputs are revert candidates too", "reservation re-points tx_log_entry": relinked, "candidate statuses": sorted(lits)}, held=held)
        if not held:
            run.finding(Finding(R8, lk8.id, "reserving an output re-points its tx_log_entry to the pending send and only outputs that were Unspent are examined for a revert: a payment whose output is reserved when its block is reorganised away is never reported reverted (the output is marked Spent, the entry stays confirmed)", site=lk8.loc()))
    R9 = "C18.R9"
    run.rule(R9, "the scan the owner asks for starts from a refresh of all the account's records (update_outputs(.., update_all = true)): that refresh is the only place where confirmed outputs are compared with the node, i.e. where a reorganised-away payment can be noticed", floor=1)
    osc = ctx.fn(c.LW + "api_impl::owner::scan")
    if osc is None:
        run.error("C18.R9: api_impl::owner::scan not found")
    else:
        UO9 = c.LW + "api_impl::owner::update_outputs"
        scs = {b for b, _t in cfg.find_calls(osc, c.LW + "internal::scan::scan")}
        full = [(ub, ut) for ub, ut in cfg.find_calls(osc, UO9) if vf.const_of_operand(osc, ut["a"][2]) == "1"]
        full += [(ub, ut) for ub, ut in cfg.find_calls(osc, c.LW + "internal::updater::refresh_outputs") if len(ut["a"]) > 3 and vf.const_of_operand(osc, ut["a"][3]) == "1"]
        from .shared import refreshed_before
        held = refreshed_before(osc, scs, full)
        run.instance(R9, {"fn": "owner::scan", "obligation": "scan::scan only after update_outputs(.., true) Ok (the constant true, not a condition on the start height)"}, held=held)
        if not held:
            run.finding(Finding(R9, osc.id, "the refresh in front of a scan no longer covers all records on every path: confirmed outputs that a reorganisation removed are not compared with the node, the payment stays confirmed and spendable", site=osc.loc()))
        # ... of every account: the scan matches the chain against the records of all accounts and only looks at the status
        # of the records it matches, so a payment into an account that is not the active one is reverted only if that
        # account was refreshed too (seed C18m: update_outputs(.., true, false))
        uo_all = [(ub, ut) for ub, ut in full if ut.get("f", "").startswith(UO9) and len(ut["a"]) > 3 and vf.const_of_operand(osc, ut["a"][3]) == "1"]
        uo_all += [(ub, ut) for ub, ut in full if not ut.get("f", "").startswith(UO9)]
        held = refreshed_before(osc, scs, uo_all)
        run.instance(R9, {"fn": "owner::scan", "obligation": "that refresh covers every account: update_outputs(.., update_all = true, all_accounts = true)"}, held=held)
        if not held:
            run.finding(Finding(R9, osc.id, "the refresh in front of a scan covers the active account only: a payment into another account that a reorganisation removed stays confirmed and spendable after the scan", site=osc.loc()))
        uo9 = ctx.fn(UO9)
        if uo9 is None:
            run.error("C18.R9: api_impl::owner::update_outputs not found")
        else:
            ap = cfg.find_calls(uo9, "*::acct_path_iter")
            ro = cfg.find_calls(uo9, c.LW + "internal::updater::refresh_outputs")
            aa = c.param(uo9, "all_accounts", "bool")
            held = bool(ap) and bool(ro) and aa is not None
            if held:
                g9 = cfg.local_guard(uo9, aa)
                # acct_path_iter is on the all_accounts == true side only, parent_key_id on the false side only
                apb = {b for b, _t in ap}
                held = bool(g9.ok) and cfg.must_pass(uo9, g9.ok, apb)[0] and not cfg.must_pass(uo9, g9.fail, apb)[0] if g9.fail else False
            run.instance(R9, {"fn": "owner::update_outputs", "obligation": "all_accounts = true refreshes the accounts listed by acct_path_iter"}, held=held)
            if not held:
                run.finding(Finding(R9, uo9.id, "update_outputs(all_accounts = true) no longer walks the account list", site=uo9.loc()))
    R10 = "C18.R10"
    run.rule(R10, "a payment re-created by a restore can later be recognised as reverted: its log entry carries the kernel excess the revert detection looks up", floor=1)
    rmo = ctx.fn(c.LW + "internal::scan::restore_missing_output")
    if rmo is None:
        run.error("C18.R10: restore_missing_output not found")
    else:
        TLE10 = c.LW + "types::TxLogEntry"
        saves10 = cfg.find_calls(rmo, c.WOB + "save_tx_log_entry")
        ke = vf.field_assignments(rmo, TLE10, "kernel_excess")
        held = not saves10 or bool(ke)
        run.instance(R10, {"fn": "restore_missing_output", "obligation": "the TxReceived entry written for a restored output has a kernel_excess", "entries written": len(saves10), "kernel_excess assignments": len(ke)}, held=held)
        if not held:
            run.finding(Finding(R10, rmo.id, "log entries re-created by a restore carry no kernel excess: when such a payment is reorganised away later the output is marked Spent, the entry stays confirmed, and after re-mining the entry ends cancelled while its output is spendable", site=rmo.loc()))
    run.not_decided += ["fork depths, repeated flip-flops, what a scan reports after a reorganisation (histories over a chain)"]
