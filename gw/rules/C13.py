"""C13 - The owner listener acts only on requests authenticated by the session key."""
from . import common as c
from .. import cfg, valueflow as vf, pp
from ..engine import Finding

H = c.CTL + "controller::OwnerV3Helpers::"
CALL_API = c.CTL + "controller::OwnerAPIHandlerV3::<L, C, K>::call_api::{closure#0}"
HANDLE = "easy_jsonrpc_mw::Handler::handle_request"


def is_owner_dispatch(t):
    return t.get("f") == HANDLE and "owner_rpc::OwnerRpc" in (t.get("fa") or "")


def reply_sinks(fn):
    """Ok(..) return blocks whose payload is the Reply(..) binding of the dispatch result."""
    reply_locals = set()
    for b, bb in enumerate(fn.bbs):
        for s in bb["s"]:
            if s["k"] == "a" and s["r"]["k"] == "use":
                p = vf.op_place(s["r"]["o"])
                if p and any(isinstance(e, dict) and e.get("dc") == "Reply" for e in p[1]):
                    reply_locals.add(s["d"][0])
    sinks = set()
    for b in cfg.ok_value_blocks(fn):
        for s in fn.bbs[b]["s"]:
            if s["k"] == "a" and s["d"] == [0, []] and s["r"]["k"] == "agg":
                for _n, o in s["r"]["f"]:
                    if vf.base_local_of_ref(fn, o) in reply_locals:
                        sinks.add(b)
    return sinks


def run(ctx):
    run = ctx.run
    R1 = "C13.R1"
    run.rule(R1, "dispatch gate in OwnerAPIHandlerV3::call_api", floor=4)
    fn = ctx.fn(CALL_API)
    if fn:
        disp = [(b, t) for b, t in fn.calls() if is_owner_dispatch(t)]
        if len(disp) != 1:
            run.error("C13.R1: expected exactly one OwnerRpc::handle_request dispatch in call_api, found %d" % len(disp))
        else:
            db_, dt = disp[0]
            sink = ("blocks", {db_}, "OwnerRpc::handle_request dispatch")
            init_sites = sorted(b for b, _ in cfg.find_calls(fn, H + "is_init_secure_api"))
            if len(init_sites) < 1:
                run.error("C13.R1: is_init_secure_api not called in call_api")
            else:
                first = init_sites[0]
                g_init = cfg.call_guard(fn, first)
                dec_ok, n = c.guard_edges(ctx, fn, H + "decrypt_request", R1)
                # only the branches evaluated *before* the dispatch count as gate
                pre = cfg.reach(fn, cut_nodes={db_})
                init_true = {e for e in g_init.ok if e[0] in pre}
                if not init_true:
                    run.error("C13.R1: first is_init_secure_api result is not branched on before the dispatch")
                c.require_pass(ctx, R1, CALL_API, ("edges", init_true | dec_ok, "{is_init_secure_api true-edge, decrypt_request Ok-edge}"), sink,
                               "dispatch requires plaintext init_secure_api or a successfully decrypted request")
                # on the non-init path: both check_encryption_started Ok and decrypt Ok are needed
                ces_ok, _ = c.guard_edges(ctx, fn, H + "check_encryption_started", R1)
                c.require_pass(ctx, R1, CALL_API, ("edges", init_true | ces_ok, "{init true-edge, check_encryption_started Ok-edge}"), sink,
                               "non-init dispatch requires check_encryption_started Ok")
                # decrypt is not reachable on the plaintext-init path and the dispatched value
                # on the decrypt path is the decrypted one
                val_arg = dt["a"][1]
                srcs = vf.origins(fn, val_arg)
                held = vf.has_call(srcs, H + "decrypt_request") and vf.has_call(srcs, c.CTL + "controller::parse_body")
                run.instance(R1, {"fn": "call_api", "obligation": "dispatched value derives from parse_body and (on the encrypted path) from decrypt_request's result"}, held=held)
                if not held:
                    run.finding(Finding(R1, CALL_API, "dispatched request value does not derive from decrypt_request result", site=c.site_of(fn, db_)))
                # the assignment val = v.1 happens on the Ok edge: val is assigned from the Ok payload
                val_local = vf.base_local_of_ref(fn, val_arg)
                asg = [d for d in fn.defs().get(val_local, []) if d[0] == "a"]
                ok_payload = False
                for d in asg:
                    o = vf.get_flow(fn).of_rvalue(d[3]["r"])
                    if vf.has_call(o, H + "decrypt_request"):
                        # must be in a block only reachable via decrypt Ok edge
                        holds, _p = cfg.must_pass(fn, dec_ok, {d[1]})
                        ok_payload = holds
                run.instance(R1, {"fn": "call_api", "obligation": "val is overwritten with the decrypted payload only on the Ok-edge of decrypt_request"}, held=ok_payload)
                if not ok_payload:
                    run.finding(Finding(R1, CALL_API, "request value overwritten from decrypt_request outside its Ok-edge", site=fn.loc()))

    R2 = "C13.R2"
    run.rule(R2, "decrypt means authenticated decrypt under the handler's shared key", floor=4)
    dec = c.API + "types::EncryptedBody::decrypt"
    c.require_pass(ctx, R2, dec, "ring::aead::LessSafeKey::open_in_place", ("okret",), "EncryptedBody::decrypt Ok requires open_in_place Ok")
    dfn = ctx.fn(dec)
    if dfn:
        # key operand derives from dec_key parameter
        for b, t in cfg.find_calls(dfn, "ring::aead::UnboundKey::new"):
            o = vf.origins(dfn, t["a"][1])
            held = ("arg", 2) in o
            run.instance(R2, {"fn": "EncryptedBody::decrypt", "obligation": "AES key derives from the dec_key parameter"}, held=held)
            if not held:
                run.finding(Finding(R2, dec, "AES key does not derive from dec_key parameter", site=c.site_of(dfn, b)))
    dr = H + "decrypt_request"
    c.require_pass(ctx, R2, dr, c.API + "types::EncryptedRequest::decrypt", ("okret",), "decrypt_request Ok requires EncryptedRequest::decrypt Ok")
    drf = ctx.fn(dr)
    if drf:
        for b, t in cfg.find_calls(drf, c.API + "types::EncryptedRequest::decrypt"):
            o = vf.origins(drf, t["a"][1])
            held = ("arg", 1) in o and vf.has_call(o, "lock_api::mutex::Mutex::<R, T>::lock")
            run.instance(R2, {"fn": "decrypt_request", "obligation": "decryption key is the locked shared key parameter"}, held=held)
            if not held:
                run.finding(Finding(R2, dr, "decryption key is not the handler's shared key", site=c.site_of(drf, b)))
    er = ctx.fn(c.API + "types::EncryptedRequest::decrypt")
    if er:
        n = len(cfg.find_calls(er, dec))
        run.instance(R2, {"fn": "EncryptedRequest::decrypt", "obligation": "delegates to EncryptedBody::decrypt"}, held=n == 1)
        if n != 1:
            run.finding(Finding(R2, er.id, "EncryptedRequest::decrypt does not delegate to EncryptedBody::decrypt", site=er.loc()))
    ces = H + "check_encryption_started"
    cesf = ctx.fn(ces)
    if cesf:
        c.require_pass(ctx, R2, ces, H + "encryption_enabled", ("okret",), "check_encryption_started Ok requires encryption_enabled true", )

    # the one plaintext method: is_init_secure_api is true only for method == "init_secure_api"
    iis = ctx.fn(H + "is_init_secure_api")
    if iis:
        trues = {b for b, bb in enumerate(iis.bbs) for st in bb["s"] if st["k"] == "a" and st["d"] == [0, []] and st["r"]["k"] == "use" and vf.const_of_operand(iis, st["r"]["o"]) == "1"}
        direct = [b for b, bb in enumerate(iis.bbs) for st in bb["s"] if st["k"] == "a" and st["d"] == [0, []] and not (st["r"]["k"] == "use" and vf.const_of_operand(iis, st["r"]["o"]) in ("0", "1"))]
        idx = [tt for _bb, tt in iis.calls() if (tt.get("f") or "").endswith("Index::index") and vf.const_of_operand(iis, tt["a"][1]) == '"method"']
        # ... of the request value itself: a request judged by one of its parts (the first element of a batch, say)
        # lets the rest of it through undecrypted
        whole = bool(idx) and all(vf.producers(iis, tt["a"][0]) == {("arg", 1)} for tt in idx)
        run.instance(R1, {"fn": "is_init_secure_api", "obligation": "the method that is tested is the request's own (`val[\"method\"]` of the parameter, not of a part of it)"}, held=whole)
        if not whole:
            run.finding(Finding(R1, iis.id, "is_init_secure_api judges a request by a part of it (e.g. the first element of a batch): the other elements are dispatched in plaintext without the session key", site=iis.loc()))

        def is_lit(o):
            """the operand is the literal "init_secure_api" or Some("init_secure_api")"""
            if vf.const_of_operand(iis, o) == '"init_secure_api"':
                return True
            pr = vf.producers(iis, o)
            if ("const", '"init_secure_api"') in pr and not any(x[0] in ("call", "arg") for x in pr):
                return True
            return False

        eqs = []
        for b, t in iis.calls():
            if (t.get("f") or "").endswith("PartialEq::eq") and len(t["a"]) == 2:
                for lit, other in ((t["a"][1], t["a"][0]), (t["a"][0], t["a"][1])):
                    if is_lit(lit):
                        po = vf.producers(iis, other) | vf.origins(iis, other)
                        if vf.has_call(po, "serde_json::value::Value::as_str") and idx:
                            eqs.append((b, t))
        held = len(eqs) == 1
        if held:
            b, t = eqs[0]
            if t["d"] == [0, []] and not trues:
                # `a == b` returned directly: the result *is* the equality
                held = len(direct) == 0 and len(list(iis.calls())) == 3
            else:
                g_ = cfg.call_guard(iis, b)
                held = bool(trues) and not direct and bool(g_.ok) and cfg.must_pass(iis, g_.ok, trues)[0]
        run.instance(R1, {"fn": "is_init_secure_api", "obligation": "true only when request[\"method\"] == \"init_secure_api\""}, held=held)
        if not held:
            run.finding(Finding(R1, iis.id, "is_init_secure_api accepts something other than method == \"init_secure_api\" (a plaintext request could bypass decryption)", site=iis.loc()))
    # every sealing uses a fresh random nonce (AES-GCM under one session key: a repeated nonce reveals plaintext relations
    # and allows forgeries, i.e. the reply would no longer be "encrypted under that key" in any useful sense)
    fj = ctx.fn(c.API + "types::EncryptedBody::from_json")
    if fj:
        seals = [(b, t) for b, t in fj.calls() if (t.get("f") or "").startswith("ring::aead::") and "seal_in_place" in (t.get("f") or "")]
        held = len(seals) == 1
        if held:
            t = seals[0][1]
            # nonce argument -> Nonce::assume_unique_for_key(x) with x = Rng::gen(thread_rng())
            ok = False
            for a in t["a"]:
                for x in vf.producers(fj, a):
                    if x[0] == "call" and x[1].endswith("Nonce::assume_unique_for_key"):
                        nt = fj.bbs[x[2]]["t"]
                        pn = vf.producers(fj, nt["a"][0])
                        gens = [y for y in pn if y[0] == "call" and y[1] == "rand::Rng::gen"]
                        if len(gens) == 1 and len(pn) == 1:
                            gt = fj.bbs[gens[0][2]]["t"]
                            pg = vf.producers(fj, gt["a"][0])
                            if pg and all(y[0] == "call" and y[1] == "rand::rngs::thread::thread_rng" for y in pg):
                                ok = True
            held = ok
        run.instance(R2, {"fn": "EncryptedBody::from_json", "obligation": "the AEAD nonce of every sealing is thread_rng().gen() (fresh per message)"}, held=held)
        if not held:
            run.finding(Finding(R2, fj.id, "the AES-GCM nonce used to seal a reply is not a fresh random value", site=fj.loc()))
    R4 = "C13.R4"
    run.rule(R4, "key rotation: init_secure_api reply updates the handler's shared key", floor=2)
    # key agreement: every init_secure_api draws a fresh ECDH secret (so a re-key really supersedes the old session key)
    isa = ctx.fn("<" + c.API + "owner::Owner<L, C, K> as " + c.API + "owner_rpc::OwnerRpc>::init_secure_api")
    if isa:
        fresh = lambda pr: bool(pr) and all(x[0] == "call" and x[1] == "secp256k1zkp::key::SecretKey::new" for x in pr) and all(
            any(y[0] == "call" and y[1] == "rand::rngs::thread::thread_rng" for y in vf.producers(isa, isa.bbs[x[2]]["t"]["a"][1])) for x in pr)
        mul = cfg.find_calls(isa, "secp256k1zkp::key::PublicKey::mul_assign")
        fsk = cfg.find_calls(isa, "secp256k1zkp::key::PublicKey::from_secret_key")
        h = len(mul) == 1 and len(fsk) == 1
        if h:
            p_mul = vf.producers(isa, mul[0][1]["a"][2])
            p_pub = vf.producers(isa, fsk[0][1]["a"][1])
            # our secret: SecretKey::new(secp, thread_rng()) created in this very call, used both for the shared point
            # and for the public key handed back; the client's point is the request parameter
            h = fresh(p_mul) and p_mul == p_pub and vf.has_field(vf.producers(isa, mul[0][1]["a"][0]), c.API + "types::ECDHPubkey", "ecdh_pubkey")
        run.instance(R4, {"fn": "OwnerRpc::init_secure_api", "obligation": "the ECDH secret is SecretKey::new(thread_rng()) drawn in this call (not cached), multiplied into the client's public key, and its public key is what is returned"}, held=h)
        if not h:
            run.finding(Finding(R4, isa.id, "init_secure_api does not derive the session key from a secret freshly drawn for this handshake (a re-key could reproduce the superseded key)", site=isa.loc()))
        # the stored session key is derived from that shared point
        asg = [(b, st) for b, bb in enumerate(isa.bbs) if not bb["cleanup"] for st in bb["s"] if st["k"] == "a" and st["d"][1] == ["*"] and st["r"]["k"] in ("agg", "use")]
        h = False
        for b, st in asg:
            src = st["r"]["f"][0][1] if st["r"]["k"] == "agg" and st["r"]["f"] else st["r"].get("o")
            if src is None:
                continue
            o_ = vf.origins(isa, src)
            if vf.has_call(o_, "secp256k1zkp::key::PublicKey::serialize_vec") and vf.has_call(o_, "secp256k1zkp::key::SecretKey::from_slice"):
                h = True
        run.instance(R4, {"fn": "OwnerRpc::init_secure_api", "obligation": "the handler's shared key := x coordinate of the shared point"}, held=h)
        if not h:
            run.finding(Finding(R4, isa.id, "the stored session key is not derived from the ECDH shared point", site=isa.loc()))
    R3 = "C13.R3"
    run.rule(R3, "replies to encrypted calls are encrypted (was_encrypted path split)", floor=2)
    if fn:
        # locate the was_encrypted local
        # the "request was encrypted" flag, found by role (not by name): the user bool local with only
        # constant assignments whose true-edge guards every encrypt_response call
        enc_calls = {b for b, _t in cfg.find_calls(fn, H + "encrypt_response")}
        we = []
        for l in range(fn.argc + 1, len(fn.locals)):
            if fn.locals[l]["ty"] != "bool" or not fn.locals[l].get("u"):
                continue
            ds = [d for d in fn.defs().get(l, [])]
            if not ds or any(d[0] != "a" or d[3]["r"]["k"] != "use" or vf.const_of_operand(fn, d[3]["r"]["o"]) not in ("0", "1") for d in ds):
                continue
            gl = cfg.local_guard(fn, l)
            if enc_calls and gl.ok and cfg.must_pass(fn, gl.ok, enc_calls)[0]:
                we.append(l)
        if len(we) != 1:
            run.error("C13.R3: the encrypted-request flag (bool local guarding encrypt_response) not found in call_api (%d candidates)" % len(we))
        else:
            W = we[0]
            sets = [(d[1], vf.const_of_operand(fn, d[3]["r"]["o"]) if d[3]["r"]["k"] == "use" else None) for d in fn.defs().get(W, []) if d[0] == "a"]
            true_blocks = [b for b, v in sets if v == "1"]
            false_blocks = [b for b, v in sets if v == "0"]
            if len(true_blocks) != 1 or len(sets) != len(true_blocks) + len(false_blocks):
                run.error("C13.R3: unexpected assignments to was_encrypted: %s" % sets)
            else:
                tb = true_blocks[0]
                # was_encrypted=true only after decrypt Ok
                dec_ok, _ = c.guard_edges(ctx, fn, H + "decrypt_request", R3)
                h, _p = cfg.must_pass(fn, dec_ok, {tb})
                run.instance(R3, {"fn": "call_api", "obligation": "was_encrypted := true only on the decrypt Ok path"}, held=h)
                if not h:
                    run.finding(Finding(R3, CALL_API, "was_encrypted set to true outside the decrypt Ok path", site=c.site_of(fn, tb)))
                # and on every path that decrypted, it is set to true before dispatch
                disp = [b for b, t in fn.calls() if is_owner_dispatch(t)]
                starts = [d for (_s, d) in dec_ok]
                par = cfg.reach(fn, starts=starts, cut_nodes={tb})
                h2 = not any(b in par for b in disp)
                run.instance(R3, {"fn": "call_api", "obligation": "every decrypted request sets was_encrypted before dispatch"}, held=h2)
                if not h2:
                    run.finding(Finding(R3, CALL_API, "decrypted request can be dispatched with was_encrypted unset", site=fn.loc()))
                # from tb: the reply (Ok(r) where r derives from handle_request) requires encrypt_response Ok,
                # with the false-edge of `if was_encrypted` removed (value known true; no false assignment reachable)
                g = cfg.local_guard(fn, W)
                after = cfg.reach(fn, starts=[tb])
                if any(b in after for b in false_blocks):
                    run.error("C13.R3: was_encrypted may be reset to false after being set")
                enc_ok, _ = c.guard_edges(ctx, fn, H + "encrypt_response", R3)
                fl = vf.get_flow(fn)
                sinks = reply_sinks(fn)
                if not sinks:
                    run.error("C13.R3: reply return Ok(r) deriving from handle_request not found")
                else:
                    par = cfg.reach(fn, starts=[tb], cut_edges=g.fail | enc_ok)
                    bad = [b for b in sinks if b in par]
                    run.instance(R3, {"fn": "call_api", "obligation": "with was_encrypted true the reply is returned only through the Ok-edge of encrypt_response", "reply_returns": len(sinks)}, held=not bad)
                    if bad:
                        run.finding(Finding(R3, CALL_API, "plaintext reply reachable for an encrypted request", site=c.site_of(fn, bad[0]), witness={"blocks": cfg.path_to(par, bad[0])}))
                    # the returned r is the encrypt_response result on that path
                    for b in sinks:
                        o = set()
                        for s in fn.bbs[b]["s"]:
                            if s["k"] == "a" and s["d"] == [0, []]:
                                o |= fl.of_rvalue(s["r"])
                        h3 = vf.has_call(o, H + "encrypt_response")
                        run.instance(R3, {"fn": "call_api", "obligation": "returned reply value may be the encrypt_response result"}, held=h3)
                        if not h3:
                            run.finding(Finding(R3, CALL_API, "returned reply does not derive from encrypt_response", site=c.site_of(fn, b)))
                    # encrypt_response key = same key parameter as decrypt_request
                    keys = []
                    for pat in (H + "decrypt_request", H + "encrypt_response"):
                        for b, t in cfg.find_calls(fn, pat):
                            keys.append(frozenset(x for x in vf.origins(fn, t["a"][0]) if x[0] == "field"))
                    h4 = len(set(keys)) == 1 and len(keys) >= 2 and all(keys)
                    run.instance(R3, {"fn": "call_api", "obligation": "encrypt_response uses the same key handle as decrypt_request", "keys": [sorted(map(str, k)) for k in keys]}, held=h4)
                    if not h4:
                        run.finding(Finding(R3, CALL_API, "encrypt_response key handle differs from decrypt_request's", site=fn.loc()))

    uk = ctx.fn(H + "update_owner_api_shared_key")
    if uk:
        # the helper really stores the new key: `*key.lock() = new_key` (write through the guard of the key parameter)
        held = False
        for b, bb in enumerate(uk.bbs):
            if bb["cleanup"]:
                continue
            for st in bb["s"]:
                if st["k"] == "a" and st["d"][1] == ["*"] and st["r"]["k"] == "use":
                    src = vf.producers(uk, st["r"]["o"])
                    dst = vf.producers(uk, {"c": [st["d"][0], []]})
                    from ..locks import LOCK_FNS
                    if any(x[0] == "arg" and x[1] == 3 for x in src) and any(x[0] in ("call", "mutcall") and x[1] in LOCK_FNS for x in dst | vf.origins(uk, {"c": [st["d"][0], []]})):
                        held = True
        run.instance(R4, {"fn": "update_owner_api_shared_key", "obligation": "the new key parameter is written through the lock guard of the key parameter"}, held=held)
        if not held:
            run.finding(Finding(R4, uk.id, "update_owner_api_shared_key does not store the new key", site=uk.loc()))
    if fn:
        upd = cfg.find_calls(fn, H + "update_owner_api_shared_key")
        if not upd:
            run.error("C13.R4: update_owner_api_shared_key not called")
        else:
            init_sites = sorted(b for b, _ in cfg.find_calls(fn, H + "is_init_secure_api"))
            disp = [b for b, t in fn.calls() if is_owner_dispatch(t)]
            if disp and len(init_sites) >= 2:
                # after dispatch: reply return requires (is_init false) or update call
                W2 = fn.bbs[init_sites[-1]]["t"]["d"][0]
                g = cfg.call_guard(fn, init_sites[-1])
                # the user variable is re-assigned from the temp; also collect switches on the user var after dispatch
                names = [l for l in range(fn.argc + 1, len(fn.locals)) if fn.locals[l].get("u") and fn.locals[l]["ty"] == "bool" and any(x[0] == "call" and x[1] == H + "is_init_secure_api" for x in vf.producers(fn, {"c": [l, []]}))]
                gv = cfg.local_guard(fn, names[0]) if names else g
                post = cfg.reach(fn, starts=[fn.bbs[disp[0]]["t"]["t"]])
                false_edges = {e for e in (g.fail | gv.fail) if e[0] in post}
                calls = c.after_call_edges(fn, H + "update_owner_api_shared_key")
                sinks = reply_sinks(fn)
                par = cfg.reach(fn, starts=[fn.bbs[disp[0]]["t"]["t"]], cut_edges=false_edges | calls)
                bad = [b for b in sinks if b in par]
                held = bool(false_edges) and not bad
                run.instance(R4, {"fn": "call_api", "obligation": "a reply to init_secure_api is returned only after update_owner_api_shared_key"}, held=held)
                if not held:
                    run.finding(Finding(R4, CALL_API, "init_secure_api reply returned without updating the handler's shared key", site=fn.loc()))
                for b, t in upd:
                    o = vf.origins(fn, t["a"][2])
                    h = vf.has_field(o, c.API + "owner::Owner", "shared_key")
                    run.instance(R4, {"fn": "call_api", "obligation": "new key is read from api.shared_key"}, held=h)
                    if not h:
                        run.finding(Finding(R4, CALL_API, "update_owner_api_shared_key not given api.shared_key", site=c.site_of(fn, b)))
            else:
                run.error("C13.R4: anchors missing (dispatch or second is_init_secure_api)")
    # OwnerRpc::init_secure_api assigns Owner.shared_key on its Ok path
    isa = [f for k, f in ctx.db.fns.items() if k.endswith("::init_secure_api") and "OwnerRpc" in k and "owner::Owner" in k]
    if len(isa) != 1:
        run.error("C13.R4: OwnerRpc::init_secure_api impl for Owner not found (%d)" % len(isa))
    else:
        f = isa[0]
        asg = vf.field_assignments(f, c.API + "owner::Owner", "shared_key")
        locks = [b for b, t in cfg.find_calls(f, "lock_api::mutex::Mutex::<R, T>::lock") if vf.has_field(vf.origins(f, t["a"][0]), c.API + "owner::Owner", "shared_key")]
        held = bool(asg) or bool(locks)
        run.instance(R4, {"fn": pp.short(f.id), "obligation": "init_secure_api stores the new ECDH key into Owner.shared_key"}, held=held)
        if not held:
            run.finding(Finding(R4, f.id, "init_secure_api does not write Owner.shared_key", site=f.loc()))

    R5 = "C13.R5"
    run.rule(R5, "OwnerRpc::handle_request has exactly one production caller", floor=1)
    callers = []
    for fid, f in ctx.db.fns.items():
        from ..callgraph import non_production
        if non_production(fid):
            continue
        for b, t in f.calls():
            if is_owner_dispatch(t):
                callers.append((fid, c.site_of(f, b)))
    held = [x[0] for x in callers] == [CALL_API]
    run.instance(R5, {"obligation": "only call_api dispatches to dyn OwnerRpc", "callers": callers}, held=held)
    if not held:
        for fid, site in callers:
            if fid != CALL_API:
                run.finding(Finding(R5, fid, "additional dispatcher of OwnerRpc::handle_request", site=site))
        if not callers:
            run.error("C13.R5: no dispatcher found")
    R6 = "C13.R6"
    run.rule(R6, "a malformed envelope is refused before anything is decrypted: the nonce is exactly 12 bytes, the envelope is a JSON object and names the encrypted method", floor=3)
    dec = ctx.fn(c.API + "types::EncryptedBody::decrypt")
    if dec is None:
        run.error("C13.R6: EncryptedBody::decrypt not found")
    else:
        fl6 = vf.get_flow(dec)
        exact = False
        seen = []
        for x in cfg.comparisons(dec):
            for a, b_ in ((x.l, x.r), (x.r, x.l)):
                if vf.const_of_operand(dec, b_) == "12" and vf.has_call(fl6.of_operand(a) | vf.producers(dec, a), "alloc::vec::Vec::<T, A>::len"):
                    seen.append(x.op)
                    err = cfg.error_return_blocks(dec)
                    bad_edges = x.true_edges if x.op == "Ne" else (x.false_edges if x.op == "Eq" else set())
                    # the unequal edge leads to an error, nothing else
                    if bad_edges and all(d in err or not (set(cfg.reach(dec, starts=[d], cut_nodes=err)) & cfg.return_blocks(dec)) for (_s, d) in bad_edges):
                        exact = True
        run.instance(R6, {"fn": "EncryptedBody::decrypt", "obligation": "nonce length == 12, anything else is an error", "comparisons with 12": seen}, held=exact)
        if not exact:
            run.finding(Finding(R6, dec.id, "a nonce longer than 12 bytes is accepted (its first 12 bytes are used): a tampered nonce field is not answered with an error", site=dec.loc()))
    dq = ctx.fn(H + "decrypt_request")
    if dq is None:
        run.error("C13.R6: decrypt_request not found")
    else:
        sinks6 = {b for b, _t in cfg.find_calls(dq, c.API + "types::EncryptedRequest::decrypt")}
        obj = set()
        for b, t in dq.calls():
            if (t.get("f") or "") == "serde_json::value::Value::is_object" and vf.producers(dq, t["a"][0]) == {("arg", 2)}:
                obj |= cfg.call_guard(dq, b).ok
        h_obj = bool(obj) and bool(sinks6) and cfg.must_pass(dq, obj, sinks6)[0]
        run.instance(R6, {"fn": "decrypt_request", "obligation": "decryption only for a request that is a JSON object (serde would also accept a positional array for the envelope struct)"}, held=h_obj)
        if not h_obj:
            run.finding(Finding(R6, dq.id, "an array-shaped envelope is deserialised positionally and served: a malformed envelope is not answered with an error", site=dq.loc()))
        meth = set()
        for b, t in dq.calls():
            if (t.get("f") or "").endswith("PartialEq::eq") or (t.get("f") or "").endswith("PartialEq::ne"):
                lits = [vf.const_of_operand(dq, a_) for a_ in t["a"]] + [y[1] for a_ in t["a"] for y in vf.producers(dq, a_) if y[0] == "const"]
                if '"encrypted_request_v3"' in lits:
                    g6 = cfg.call_guard(dq, b)
                    meth |= (g6.ok if (t.get("f") or "").endswith("eq") else g6.fail)
        h_m = bool(meth) and bool(sinks6) and cfg.must_pass(dq, meth, sinks6)[0]
        run.instance(R6, {"fn": "decrypt_request", "obligation": "decryption only for an envelope whose method is encrypted_request_v3"}, held=h_m)
        if not h_m:
            run.finding(Finding(R6, dq.id, "the envelope's method is never compared with encrypted_request_v3: an envelope with any other method is decrypted and served", site=dq.loc()))
    R7 = "C13.R7"
    run.rule(R7, "the reply is sealed under the key that opened the request: decrypt_request and encrypt_response are handed one per-request key (a single read of the listener's key), not the listener's shared key handle read twice - another connection can re-key the listener while the request is being served", floor=1)
    if fn:
        dcs = cfg.find_calls(fn, H + "decrypt_request")
        ecs = cfg.find_calls(fn, H + "encrypt_response")
        if not dcs or not ecs:
            run.error("C13.R7: decrypt_request / encrypt_response calls not found in call_api")
        else:
            def _fresh(o):
                pr = vf.producers(fn, {"c": [vf.strip_clones(fn, o), []]})
                return bool(pr) and all(x[0] == "call" for x in pr)
            bases = {vf.strip_clones(fn, t["a"][0]) for _b, t in dcs + ecs}
            held = len(bases) == 1 and all(_fresh(t["a"][0]) for _b, t in dcs + ecs)
            run.instance(R7, {"fn": "call_api", "obligation": "one key value per request: the key operands of decrypt_request and encrypt_response are the same local, created for this request", "key locals": sorted(fn.local_name(l) for l in bases)}, held=held)
            if not held:
                run.finding(Finding(R7, CALL_API, "decrypt_request and encrypt_response each read the listener's shared key: if another connection calls init_secure_api while the request is being served, the reply is sealed under that other party's key (the caller cannot read it, the other party can)", site=fn.loc()))
    run.not_decided += ["AES-GCM itself", "HTTP framing / hyper", "that a superseded key cannot decrypt (follows from R4 + AEAD semantics, not decided here)"]
