"""C11 - Payment proofs are sound end to end."""
from . import common as c
from .. import cfg, valueflow as vf, pp
from ..callgraph import non_production
from ..engine import Finding

TX = c.LW + "internal::tx::"
OWNER = c.LW + "api_impl::owner::"
FOREIGN = c.LW + "api_impl::foreign::"
SEL = c.LW + "internal::selection::"
VSPP = TX + "verify_slate_payment_proof"
PPM = TX + "payment_proof_message"
VERIFY = "signature::verifier::Verifier::verify"
PI = c.LW + "slate::PaymentInfo"
SPI = c.LW + "types::StoredProofInfo"
PP = c.LW + "api_impl::types::PaymentProof"


def cmp_with(fn, pred_a, pred_b):
    fl = vf.get_flow(fn)
    out = []
    for x in cfg.comparisons(fn):
        if x.op not in ("Eq", "Ne"):
            continue
        lo, ro = fl.of_operand(x.l), fl.of_operand(x.r)
        if (pred_a(lo) and pred_b(ro)) or (pred_a(ro) and pred_b(lo)):
            out.append(x)
    return out


def eq_edges(x):
    return x.true_edges if x.op == "Eq" else x.false_edges


def run(ctx):
    run = ctx.run
    db = ctx.db
    R1 = "C11.R1"
    run.rule(R1, "sender-side verifier: Ok needs every comparison and the signature check", floor=8)
    f = ctx.fn(VSPP)

    def _stored_proof(fn_, o):
        """origin set o derives from TxLogEntry.payment_proof - read directly, or inside a closure handed to an
        Option / iterator adaptor (`entries.iter().find(..).and_then(|t| t.payment_proof.clone())`)"""
        TLE_ = c.LW + "types::TxLogEntry"
        if vf.has_field(o, TLE_, "payment_proof"):
            return True
        for x in o:
            if x[0] in ("call", "mutcall") and len(x) > 2:
                t_ = fn_.bbs[x[2]]["t"]
                for a_ in t_["a"][1:]:
                    pl_ = vf.op_place(a_)
                    for bb_ in fn_.bbs:
                        for st_ in bb_["s"]:
                            if st_["k"] == "a" and pl_ and st_["d"] == [pl_[0], []] and st_["r"]["k"] == "agg" and st_["r"].get("ak") == "closure":
                                g_ = db.fns.get(st_["r"]["adt"])
                                if g_ and '"n": "payment_proof", "a": "%s"' % TLE_ in __import__("json").dumps(g_.bbs):
                                    return True
        return False

    if f:
        fl = vf.get_flow(f)
        errs = cfg.error_return_blocks(f)
        rets = cfg.return_blocks(f)
        # (a) stored proof present and slate proof absent -> Err
        is_some = [(b, t) for b, t in cfg.find_calls(f, "core::option::Option::<T>::is_some") if _stored_proof(f, vf.origins(f, t["a"][0]))]
        is_none = [(b, t) for b, t in cfg.find_calls(f, "core::option::Option::<T>::is_none") if vf.has_field(vf.origins(f, t["a"][0]), c.LW + "slate::Slate", "payment_proof")]
        if len(is_some) != 1 or len(is_none) != 1:
            run.error("C11.R1: proof-presence tests not found in verify_slate_payment_proof (%d, %d)" % (len(is_some), len(is_none)))
        else:
            gs = cfg.call_guard(f, is_some[0][0])
            gn = cfg.call_guard(f, is_none[0][0])
            # Ok requires: stored absent (is_some false) or slate proof present (is_none false)
            h, p = cfg.must_pass(f, gs.fail | gn.fail, rets, cut_nodes=errs)
            run.instance(R1, {"fn": "verify_slate_payment_proof", "obligation": "requested proof stripped from the reply => Err"}, held=h)
            if not h:
                run.finding(Finding(R1, VSPP, "Ok reachable when the stored entry has a proof request but the slate carries none", site=f.loc()))
        # (b) inside the Some(p) arm of slate.payment_proof
        # start: the Some-edge of the discriminant switch on slate.clone().payment_proof
        arm_starts = set()
        for b, bb in enumerate(f.bbs):
            t = bb["t"]
            if t["k"] != "sw":
                continue
            l = cfg._plain_local(t["o"])
            ds = f.defs().get(l, []) if l is not None else []
            for d in ds:
                if d[0] == "a" and d[3]["r"]["k"] == "disc":
                    pl_ = d[3]["r"]["p"]
                    o = fl.of_place(pl_)
                    last = pl_[1][-1] if pl_[1] else None
                    if isinstance(last, dict) and last.get("n") == "payment_proof" and last.get("a") == c.LW + "slate::Slate":
                        for v, tb in t["t"]:
                            if v == "1":
                                arm_starts.add(tb)
        if len(arm_starts) != 1:
            run.error("C11.R1: Some(p) arm on slate.payment_proof not found (%d)" % len(arm_starts))
        else:
            start = next(iter(arm_starts))

            def need(edges, what):
                par = cfg.reach(f, starts=[start], cut_edges=edges, cut_nodes=errs)
                bad = [b for b in rets if b in par]
                held = bool(edges) and not bad
                run.instance(R1, {"fn": "verify_slate_payment_proof", "obligation": what}, held=held)
                if not held:
                    run.finding(Finding(R1, VSPP, what, site=f.loc(), detail="Ok return reachable from the proof arm without this guard" if edges else "guard not found"))

            # stored info present
            e = set()
            for b, bb in enumerate(f.bbs):
                t = bb["t"]
                if t["k"] == "sw":
                    l = cfg._plain_local(t["o"])
                    for d in f.defs().get(l, []) if l is not None else []:
                        if d[0] == "a" and d[3]["r"]["k"] == "disc":
                            pl = d[3]["r"]["p"]
                            o = fl.of_place(pl)
                            if _stored_proof(f, o) and not pl[1]:
                                e |= {(b, tb) for v, tb in t["t"] if v == "1"}
            need(e, "stored proof request present (match orig_proof_info Some)")
            e = set()
            for b, bb in enumerate(f.bbs):
                t = bb["t"]
                if t["k"] == "sw":
                    l = cfg._plain_local(t["o"])
                    for d in f.defs().get(l, []) if l is not None else []:
                        if d[0] == "a" and d[3]["r"]["k"] == "disc":
                            pl = d[3]["r"]["p"]
                            if any(isinstance(x, dict) and x.get("n") == "payment_proof_derivation_index" for x in pl[1]):
                                e |= {(b, tb) for v, tb in t["t"] if v == "1"}
                            if any(isinstance(x, dict) and x.get("n") == "receiver_signature" for x in pl[1]):
                                pass
            need(e, "context carries the derivation index of the sender address")
            sc = cmp_with(f, lambda o: vf.has_field(o, PI, "sender_address"), lambda o: vf.has_call(o, c.UTIL + "ov3::OnionV3Address::to_ed25519"))
            need(set().union(*[eq_edges(x) for x in sc]) if len(sc) == 1 else set(), "sender address on the slate == address derived from this wallet's derivation index")
            if len(sc) == 1:
                x = sc[0]
                o = fl.of_operand(x.l) | fl.of_operand(x.r)
                h = vf.has_call(o, c.LW + "address::address_from_derivation_path") and vf.has_field(o, c.LW + "types::Context", "payment_proof_derivation_index")
                run.instance(R1, {"fn": "verify_slate_payment_proof", "obligation": "reference sender address derives from address_from_derivation_path(context index)"}, held=h)
                if not h:
                    run.finding(Finding(R1, VSPP, "reference sender address does not derive from the context's derivation index", site=x.site()))
            rc = cmp_with(f, lambda o: vf.has_field(o, SPI, "receiver_address"), lambda o: vf.has_field(o, PI, "receiver_address") and not vf.has_field(o, SPI, "receiver_address"))
            need(set().union(*[eq_edges(x) for x in rc]) if len(rc) == 1 else set(), "receiver address on the slate == stored requested receiver address")
            e = set()
            for b, bb in enumerate(f.bbs):
                t = bb["t"]
                if t["k"] == "sw":
                    l = cfg._plain_local(t["o"])
                    for d in f.defs().get(l, []) if l is not None else []:
                        if d[0] == "a" and d[3]["r"]["k"] == "disc":
                            pl = d[3]["r"]["p"]
                            if any(isinstance(x, dict) and x.get("n") == "receiver_signature" for x in pl[1]):
                                e |= {(b, tb) for v, tb in t["t"] if v == "1"}
            need(e, "reply carries a receiver signature")
            vs = cfg.find_calls(f, VERIFY)
            if len(vs) != 1:
                run.error("C11.R1: expected one signature verify call, found %d" % len(vs))
            else:
                vb, vt = vs[0]
                g = cfg.call_guard(f, vb)
                need(g.ok, "receiver signature verifies (Ok-edge of verify)")
                # key = slate's receiver address (already compared with stored), message = payment_proof_message(slate.amount, calc_excess, orig sender)
                ko = vf.origins(f, vt["a"][0])
                h = vf.has_field(ko, PI, "receiver_address")
                run.instance(R1, {"fn": "verify_slate_payment_proof", "obligation": "verification key is the (compared) receiver address"}, held=h)
                if not h:
                    run.finding(Finding(R1, VSPP, "signature verified under a key other than the receiver address", site=c.site_of(f, vb)))
                mo = vf.origins(f, vt["a"][1])
                h = vf.has_call(mo, PPM)
                run.instance(R1, {"fn": "verify_slate_payment_proof", "obligation": "verified message is payment_proof_message(..)"}, held=h)
                if not h:
                    run.finding(Finding(R1, VSPP, "verified message is not payment_proof_message", site=c.site_of(f, vb)))

    R2 = "C11.R2"
    run.rule(R2, "the verifier is on the finalize path, after complete_tx and before the entry is updated", floor=3)
    fz = FOREIGN + "finalize_tx"
    # only the Standard2 arm calls update_stored_tx(.., false): sinks = that call and Ok-return through it
    ff = ctx.fn(fz)
    if ff:
        # the send arm: the true edge of `state == Standard2`
        SS = c.LW + "slate::SlateState"
        arm = set()
        for x in cfg.comparisons(ff):
            if x.op == "Eq" and any(("agg", SS, "Standard2") in p for p in (vf.producers(ff, x.l), vf.producers(ff, x.r))):
                arm |= x.true_edges
        cts = [(b, t) for b, t in cfg.find_calls(ff, TX + "complete_tx") if arm and cfg.must_pass(ff, arm, {b})[0]]
        if len(cts) != 1:
            run.error("C11.R2: complete_tx call of the send arm (state == Standard2) not found (%d)" % len(cts))
        else:
            start = cts[0][1]["t"]
            after = cfg.reach(ff, starts=[start])
            eb = ctx.eff.effect_blocks(ff, {"store_tx", "delete_private_context"})
            sinks = {b for b in eb if b in after}
            vok, _n = c.guard_edges(ctx, ff, VSPP, R2)
            par = cfg.reach(ff, starts=[start], cut_edges=vok)
            bad = sorted(b for b in sinks if b in par)
            held = bool(sinks) and bool(vok) and not bad
            run.instance(R2, {"fn": "foreign::finalize_tx", "obligation": "send arm: after complete_tx, the finalized transaction is stored / the context deleted only after verify_slate_payment_proof Ok", "effect_sites": len(sinks)}, held=held)
            if not held:
                run.finding(Finding(R2, fz, "update_stored_tx (send arm) requires verify_slate_payment_proof Ok", site=c.site_of(ff, bad[0]) if bad else ff.loc(),
                                    detail="a store_tx / delete_private_context effect after complete_tx is reachable without the Ok-edge of verify_slate_payment_proof"))
            # the verifier runs after complete_tx Ok, inside the send arm
            c.require_pass(ctx, R2, fz, TX + "complete_tx", ("call", VSPP), "verify_slate_payment_proof runs after complete_tx Ok")
            vb = {b for b, _t in cfg.find_calls(ff, c.ok_wrappers(ctx, [VSPP]) | {VSPP})}
            h = bool(vb) and cfg.must_pass(ff, arm, vb)[0]
            run.instance(R2, {"fn": "foreign::finalize_tx", "obligation": "the verifier is called in the send arm"}, held=h)
            if not h:
                run.finding(Finding(R2, fz, "verify_slate_payment_proof is not on the send (Standard2) path", site=ff.loc()))

    R3 = "C11.R3"
    run.rule(R3, "exported-proof verifier: Ok needs kernel on chain and both signatures, over one message", floor=5)
    vp = OWNER + "verify_payment_proof"
    f = ctx.fn(vp)
    if f:
        fl = vf.get_flow(f)
        errs = cfg.error_return_blocks(f)
        gk = cfg.find_calls(f, c.LW + "types::NodeClient::get_kernel")
        if len(gk) != 1:
            run.error("C11.R3: get_kernel call not found")
        else:
            b, t = gk[0]
            g = cfg.call_guard(f, b)
            # Ok(Some(_)): Ok-edge then Some-edge of the payload
            some_edges = set()
            dl = t["d"][0]
            for bb_i, bb in enumerate(f.bbs):
                tt = bb["t"]
                if tt["k"] == "sw":
                    l = cfg._plain_local(tt["o"])
                    for d in f.defs().get(l, []) if l is not None else []:
                        if d[0] == "a" and d[3]["r"]["k"] == "disc":
                            pl = d[3]["r"]["p"]
                            if pl[0] == dl and any(isinstance(x, dict) and x.get("dc") == "Ok" for x in pl[1]):
                                some_edges |= {(bb_i, tb) for v, tb in tt["t"] if v == "1"}
            h1, _ = cfg.must_pass(f, g.ok, cfg.return_blocks(f), cut_nodes=errs)
            h2, _ = cfg.must_pass(f, some_edges, cfg.return_blocks(f), cut_nodes=errs) if some_edges else (False, None)
            run.instance(R3, {"fn": "verify_payment_proof", "obligation": "Ok requires get_kernel -> Ok(Some(_))"}, held=h1 and h2)
            if not (h1 and h2):
                run.finding(Finding(R3, vp, "Ok reachable without the kernel being found on chain", site=c.site_of(f, b)))
            ko = vf.origins(f, t["a"][1])
            h = vf.has_field(ko, PP, "excess")
            run.instance(R3, {"fn": "verify_payment_proof", "obligation": "kernel looked up is the proof's excess"}, held=h)
            if not h:
                run.finding(Finding(R3, vp, "kernel lookup is not keyed by the proof's excess", site=c.site_of(f, b)))
        vs = cfg.find_calls(f, VERIFY)
        roles = {}
        for b, t in vs:
            ko = vf.origins(f, t["a"][0])
            so = vf.origins(f, t["a"][2])
            mo = vf.origins(f, t["a"][1])
            role = None
            if vf.has_field(ko, PP, "recipient_address") and vf.has_field(so, PP, "recipient_sig"):
                role = "recipient"
            elif vf.has_field(ko, PP, "sender_address") and vf.has_field(so, PP, "sender_sig"):
                role = "sender"
            if role:
                roles[role] = (b, t, mo)
        for role in ("recipient", "sender"):
            if role not in roles:
                run.instance(R3, {"fn": "verify_payment_proof", "obligation": "%s signature verified with the %s's key" % (role, role)}, held=False)
                run.finding(Finding(R3, vp, "%s signature/key pairing not found" % role, site=f.loc()))
                continue
            b, t, mo = roles[role]
            g = cfg.call_guard(f, b)
            h, _ = cfg.must_pass(f, g.ok, cfg.return_blocks(f), cut_nodes=errs)
            run.instance(R3, {"fn": "verify_payment_proof", "obligation": "Ok requires the %s signature to verify under the %s address" % (role, role)}, held=h)
            if not h:
                run.finding(Finding(R3, vp, "Ok reachable without verifying the %s signature" % role, site=c.site_of(f, b)))
            hm = vf.has_call(mo, PPM)
            run.instance(R3, {"fn": "verify_payment_proof", "obligation": "%s signature verified over payment_proof_message" % role}, held=hm)
            if not hm:
                run.finding(Finding(R3, vp, "%s signature not verified over payment_proof_message" % role, site=c.site_of(f, b)))

    R4 = "C11.R4"
    run.rule(R4, "one message format: (amount, kernel excess, sender address) bound at all four call sites", floor=4)
    expect = {
        FOREIGN + "receive_tx": ("via", TX + "create_payment_proof_signature"),
        TX + "update_stored_tx": ("via", TX + "create_payment_proof_signature"),
        VSPP: ("direct", None),
        vp: ("direct", None),
    }
    sites = []
    for fid, fn_ in db.fns.items():
        if non_production(fid):
            continue
        for b, t in fn_.calls():
            if t.get("f") in (PPM, TX + "create_payment_proof_signature"):
                sites.append((fid, fn_, b, t))
    for fid, fn_, b, t in sites:
        a_amount, a_excess, a_sender = (vf.origins(fn_, t["a"][i]) for i in range(3))
        if fid == TX + "create_payment_proof_signature":
            held = ("arg", 1) in a_amount and ("arg", 2) in a_excess and ("arg", 3) in a_sender
            what = "create_payment_proof_signature forwards (amount, excess, sender) in order"
        elif fid == vp:
            held = vf.has_field(a_amount, PP, "amount") and vf.has_field(a_excess, PP, "excess") and vf.has_field(a_sender, PP, "sender_address")
            what = "message built from the proof's own amount, excess, sender_address"
        else:
            held = (
                vf.has_field(a_amount, c.LW + "slate::Slate", "amount")
                and vf.has_call(a_excess, c.LW + "slate::Slate::calc_excess")
                and (vf.has_field(a_sender, PI, "sender_address") or vf.has_call(a_sender, c.UTIL + "ov3::OnionV3Address::to_ed25519"))
            )
            what = "message built from slate.amount, slate.calc_excess(), sender address"
        run.instance(R4, {"fn": pp.short(fid), "obligation": what, "site": t["sp"].split(":")[1]}, held=held)
        if not held:
            run.finding(Finding(R4, fid, what + " - violated", site=c.site_of(fn_, b)))
    callers = {fid for fid, _f, _b, _t in sites}
    missing = [k for k in expect if k not in callers]
    for k in missing:
        run.error("C11.R4: expected proof-message call site missing in %s" % k)
    pm = ctx.fn(PPM)
    if pm:
        # the message covers all three parameters
        fl = vf.get_flow(pm)
        o = set()
        for b, bb in enumerate(pm.bbs):
            for s in bb["s"]:
                if s["k"] == "a" and s["d"] == [0, []]:
                    o |= fl.of_rvalue(s["r"])
        held = all(("arg", i) in o for i in (1, 2, 3))
        run.instance(R4, {"fn": "payment_proof_message", "obligation": "returned message depends on amount, kernel commitment and sender address"}, held=held)
        if not held:
            run.finding(Finding(R4, PPM, "payment_proof_message no longer covers all of amount/excess/sender", site=pm.loc()))

    # the amount that is signed over is the wallet's own: finalize restores slate.amount from the context first
    from .shared import amount_restored
    amount_restored(ctx, R4)
    ffz = ctx.fn(FOREIGN + "finalize_tx")
    if ffz:
        c.require_pass(ctx, R4, ffz.id, c.LW + "internal::selection::repopulate_tx", ("call", VSPP), "verify_slate_payment_proof runs after repopulate_tx Ok (slate.amount is the agreed amount)")
    R5 = "C11.R5"
    run.rule(R5, "export completeness: retrieve_payment_proof errs unless proof, excess and both signatures present", floor=4)
    rp = OWNER + "retrieve_payment_proof"
    f = ctx.fn(rp)
    if f:
        fl = vf.get_flow(f)
        errs = cfg.error_return_blocks(f)
        for fld, owner_adt in (("payment_proof", c.LW + "types::TxLogEntry"), ("kernel_excess", c.LW + "types::TxLogEntry"), ("receiver_signature", SPI), ("sender_signature", SPI)):
            e = set()
            for b, bb in enumerate(f.bbs):
                t = bb["t"]
                if t["k"] == "sw":
                    l = cfg._plain_local(t["o"])
                    for d in f.defs().get(l, []) if l is not None else []:
                        if d[0] == "a" and d[3]["r"]["k"] == "disc":
                            pl = d[3]["r"]["p"]
                            if pl[1] and isinstance(pl[1][-1], dict) and pl[1][-1].get("n") == fld:
                                e |= {(b, tb) for v, tb in t["t"] if v == "1"}
            h, _ = cfg.must_pass(f, e, cfg.return_blocks(f), cut_nodes=errs) if e else (False, None)
            run.instance(R5, {"fn": "retrieve_payment_proof", "obligation": "Ok requires %s to be Some" % fld}, held=h)
            if not h:
                run.finding(Finding(R5, rp, "proof exported without %s" % fld, site=f.loc()))

    R6 = "C11.R6"
    run.rule(R6, "the requested receiver address stored at reservation is the wallet's own record, not a counterparty slate's", floor=1)
    lk = ctx.fn(SEL + "lock_tx_context")
    if lk:
        lits = []
        for b, bb in enumerate(lk.bbs):
            for s in bb["s"]:
                if s["k"] == "a" and s["r"]["k"] == "agg" and s["r"].get("adt") == SPI:
                    lits.append((b, s))
        if not lits:
            run.error("C11.R6: StoredProofInfo literal not found in lock_tx_context")
        slp = c.param(lk, "slate", "slate::Slate")
        slate_param = [slp] if slp is not None else []
        for b, s in lits:
            ra = [o for n, o in s["r"]["f"] if n == "receiver_address"][0]
            o = vf.origins(lk, ra)
            from_slate = bool(slate_param) and ("arg", slate_param[0]) in o
            if not from_slate:
                run.instance(R6, {"fn": "lock_tx_context", "obligation": "StoredProofInfo.receiver_address does not come from the slate parameter"}, held=True)
                continue
            bad, seen_sites = counterparty_slate_sites(ctx, lk, slate_param[0])
            run.instance(R6, {"fn": "lock_tx_context", "obligation": "no call chain hands a counterparty-controlled slate to the reservation step that records the requested receiver address", "call_sites_examined": len(seen_sites), "violations": len(bad)}, held=not bad)
            for cf, cb, csp, why, chain in bad:
                run.finding(Finding(R6, cf.id, "requested receiver address recorded from %s" % why.split(" (")[0], site=":".join(csp.split(":")[:2]),
                                    detail="%s -> ... -> lock_tx_context stores slate.payment_proof.receiver_address; argument is %s; chain %s" % (pp.short(cf.id), why, [pp.short(x[0]) for x in chain])))
    R7 = "C11.R7"
    run.rule(R7, "the proof check cannot be side-stepped by re-labelling the reply: the finalize arm without a proof check (invoice) is closed to a send, because update_stored_tx ties the entry type to the flow and fails without an entry", floor=2)
    from .shared import flow_tied_entry
    flow_tied_entry(ctx, R7)
    R8 = "C11.R8"
    run.rule(R8, "one sender proof key per transaction: once a transaction exists (functions working on its Context), the sender's proof address is derived from the transaction's own account (Context / log entry), never from whichever account is active", floor=3)
    AFD = c.LW + "address::address_from_derivation_path"
    CTXT = c.LW + "types::Context"
    PKI = c.WB + "parent_key_id"

    def _acct_ok(f, o, depth=0):
        """(ok, why) for the account operand o in f."""
        pr = vf.producers(f, o)
        if any(x[0] in ("call", "mutcall") and x[1] == PKI for x in pr):
            return False, "the active account (WalletBackend::parent_key_id)"
        if any(x[0] == "field" and x[2] == "parent_key_id" and x[1] in (CTXT, c.LW + "types::TxLogEntry") for x in pr):
            return True, "record"
        args = [x[1] for x in pr if x[0] == "arg"]
        if args and depth < 2:
            for cf_ in ctx.cg.callers(f.id):
                g = db.fns.get(cf_)
                if g is None or non_production(cf_):
                    continue
                for _cb, t in cfg.find_calls(g, f.id):
                    for ai in args:
                        if ai - 1 < len(t["a"]):
                            ok, why = _acct_ok(g, t["a"][ai - 1], depth + 1)
                            if not ok:
                                return False, "%s (passed by %s)" % (why, pp.short(cf_))
            return True, "parameter, callers pass the record"
        return False, "unrecognised source %s" % sorted(pr, key=str)[:3]

    for fid, f in sorted(db.fns.items()):
        if non_production(fid):
            continue
        if not any(CTXT in (f.locals[i].get("ty") or "") for i in range(1, f.argc + 1)):
            continue
        for b, t in f.calls():
            if t.get("f") != AFD:
                continue
            ok, why = _acct_ok(f, t["a"][1])
            run.instance(R8, {"fn": pp.short(fid), "obligation": "account of the sender's proof key comes from the transaction's record", "source": why, "site": c.site_of(f, b)}, held=ok)
            if not ok:
                run.finding(Finding(R8, fid, "the sender's proof key is derived from %s instead of the transaction's own account: for a send from a non-active account the stored sender address/signature do not match the slate and the exported proof does not verify" % why.split(" (passed")[0], site=c.site_of(f, b), detail=why))
    R9 = "C11.R9"
    run.rule(R9, "the amount an exported proof states is recomputed from the sent entry (debited - credited - fee): the entry is booked with the sums of the inputs locked and of the change outputs created", floor=2)
    from .C04 import sent_entry_figures
    lk9 = ctx.fn(SEL + "lock_tx_context")
    if lk9 is None:
        run.error("C11.R9: lock_tx_context not found")
    else:
        sent_entry_figures(ctx, R9, lk9)
    R10 = "C11.R10"
    run.rule(R10, "the proof expectation is read from the sender's own entry: verify_slate_payment_proof selects the TxSent entry of the slate (a self-send has a TxReceived entry under the same slate id, which never carries proof info)", floor=1)
    vsp = ctx.fn(TX + "verify_slate_payment_proof")
    if vsp is None:
        run.error("C11.R10: verify_slate_payment_proof not found")
    else:
        TLT10 = c.LW + "types::TxLogEntryType"
        tied = False
        for g in [vsp] + [db.fns[k] for k in db.closures_of(vsp.id)]:
            for x in cfg.comparisons(g):
                if x.op != "Eq":
                    continue
                pl, pr = vf.producers(g, x.l) | vf.get_flow(g).of_operand(x.l), vf.producers(g, x.r) | vf.get_flow(g).of_operand(x.r)
                for a, b_ in ((pl, pr), (pr, pl)):
                    if vf.has_field(a, c.LW + "types::TxLogEntry", "tx_type") and ("agg", TLT10, "TxSent") in b_:
                        tied = True
        run.instance(R10, {"fn": "verify_slate_payment_proof", "obligation": "the entry whose payment_proof is the expectation is selected by tx_type == TxSent"}, held=tied)
        if not tied:
            run.finding(Finding(R10, vsp.id, "the expected proof is read from the first log entry of the slate whatever its type: for a self-send inside one account that is the TxReceived entry, so an honest reply is refused and the same reply with the proof stripped is finalized", site=vsp.loc()))
    run.not_decided += ["unforgeability of ed25519", "the amount arithmetic in retrieve_payment_proof", "that the exported proof *verifies* (value-level)"]


def counterparty_slate_sites(ctx, lk, slate_local):
    """Call chains that hand a counterparty-controlled slate to lock_tx_context's slate parameter:
    [(caller fn, block, span, why, chain)], and the set of call sites examined."""
    # trace the slate parameter back to counterparty-controlled sources
    bad = []
    SOURCES_CALL = ("*::send_tx", c.CTL + "command::try_slatepack_sync_workflow", c.API + "owner::try_slatepack_sync_workflow", "*::slate_from_slatepack_message", "*::get_slate")
    COUNTERPARTY_PARAMS = {(FOREIGN + "finalize_tx", "slate"), (FOREIGN + "receive_tx", "slate")}
    seen_sites = set()
    is_slate = lambda ty: "slate::Slate" in ty and "Slatepack" not in ty
    for chain, cf, cb, csp, org in vf.backward_param_slice(ctx, lk.id, slate_local, type_filter=is_slate):
        key = (cf.id, csp)
        if key in seen_sites:
            continue
        seen_sites.add(key)
        why = None
        for x in org:
            if x[0] in ("call", "mutcall") and any(cfg.match_name(x[1], p) for p in SOURCES_CALL):
                why = "slate returned by the counterparty (%s)" % pp.short(x[1])
            if x[0] == "arg":
                pname = [n for n, p, a in cf.vars if not p[1] and p[0] == x[1] and a > 0]
                if pname and (cf.id, pname[0]) in COUNTERPARTY_PARAMS:
                    why = "the incoming slate parameter of %s" % pp.short(cf.id)
        if why and not any(x[0].id == cf.id and x[3] == why for x in bad):
            bad.append((cf, cb, csp, why, chain))
    return bad, seen_sites
