"""C15 - No key derivation path is ever used for two outputs (structural conditions)."""
from . import common as c
from .. import cfg, valueflow as vf, pp
from ..callgraph import non_production
from ..engine import Finding

OD = c.LW + "types::OutputData"
LM = c.IMPLS + "backends::lmdb::"
BACKEND = "<" + LM + "LMDBBackend<'ck, C, K> as " + c.LW + "types::WalletBackend<'ck, C, K>>::"
SCAN = c.LW + "internal::scan::"
SEL = c.LW + "internal::selection::"
KEYS = c.LW + "internal::keys::"

# where the key id of each saved OutputData may come from
KEY_SOURCES = {
    SEL + "build_recipient_output": ("fresh", "next_available_key in the same call"),
    SEL + "lock_tx_context": ("context", "Context.output_ids filled by inputs_and_change from next_child"),
    c.LW + "internal::updater::receive_coinbase": ("fresh-or-candidate", "fresh key, or the guarded unconfirmed coinbase candidate (C07.R2)"),
    SCAN + "restore_missing_output": ("chain", "key id recovered from the chain output's rewind data"),
}


def run(ctx):
    run = ctx.run
    db = ctx.db
    R1 = "C15.R1"
    run.rule(R1, "provenance of the key id of every saved output / built output", floor=5)
    found = {}
    for fid, f in db.fns.items():
        if non_production(fid):
            continue
        if f.impl_trait in ("core::clone::Clone", "serde::de::Visitor", "serde::de::Deserialize", "core::default::Default"):
            continue  # derive-generated copies / decoders of an existing record
        for b, s in vf.struct_literals(f, OD):
            found.setdefault(fid, []).append((b, s))
    for fid in sorted(found):
        if fid not in KEY_SOURCES:
            for b, s in found[fid]:
                run.instance(R1, {"fn": pp.short(fid), "obligation": "OutputData literal is at a known site"}, held=False)
                run.finding(Finding(R1, fid, "new OutputData construction site with unclassified key id provenance", site=c.site_of(db.fns[fid], b)))
    for fid, (kind, why) in sorted(KEY_SOURCES.items()):
        f = ctx.fn(fid)
        if not f:
            continue
        lits = found.get(fid, [])
        if len(lits) != 1:
            run.error("C15.R1: expected one OutputData literal in %s, found %d" % (fid, len(lits)))
            continue
        b, s = lits[0]
        ko = vf.literal_field(s, "key_id")
        prod = vf.producers(f, ko)
        org = vf.origins(f, ko)
        if kind == "fresh":
            held = vf.has_call(prod, KEYS + "next_available_key") and not vf.has_call(prod, c.WB + "get")
        elif kind == "context":
            held = vf.has_call(org, c.LW + "types::Context::get_outputs") and not vf.has_call(prod, c.WB + "get")
        elif kind == "fresh-or-candidate":
            held = vf.has_call(prod, KEYS + "next_available_key")
            # any other producer must be the guarded record (checked by C07.R2; re-checked here)
            from .C07 import existing_key_guards
            fresh, existing, ok = existing_key_guards(ctx, R1, f, b, s, "receive_coinbase")
            held = held and ok
        elif kind == "chain":
            held = vf.has_field(org, SCAN + "OutputResult", "key_id") and not vf.has_call(prod, c.WB + "next_child")
        run.instance(R1, {"fn": pp.short(fid), "obligation": "key_id provenance: " + why, "producers": sorted(map(str, prod))[:6]}, held=held)
        if not held:
            run.finding(Finding(R1, fid, "saved output's key id no longer comes from: " + why, site=c.site_of(f, b)))
    # Context.output_ids is filled only from fresh keys: inputs_and_change -> select_send_tx -> build_send_tx
    iac = ctx.fn(SEL + "inputs_and_change")
    if iac:
        calls = cfg.find_calls(iac, c.WB + "next_child")
        pushes = [(b, t) for b, t in iac.calls() if (t.get("f") or "") == "alloc::vec::Vec::<T, A>::push" and "grin_keychain::types::Identifier" in (t.get("fa") or "") and "u64" in (t.get("fa") or "")]
        held = bool(calls) and bool(pushes)
        for b, t in pushes:
            o = vf.origins(iac, t["a"][1])
            if not vf.has_call(o, c.WB + "next_child") or vf.has_field(o, OD, "key_id"):
                held = False
        run.instance(R1, {"fn": "inputs_and_change", "obligation": "change (amount, key id) tuples carry keys from next_child, never an input's key", "pushes": len(pushes)}, held=held)
        if not held:
            run.finding(Finding(R1, iac.id, "change output key ids do not come from next_child", site=iac.loc()))
    sst = ctx.fn(SEL + "select_send_tx")
    if sst:
        fl = vf.get_flow(sst)
        held = False
        for b in cfg.ok_value_blocks(sst):
            for s in sst.bbs[b]["s"]:
                if s["k"] == "a" and s["d"] == [0, []]:
                    if vf.has_call(fl.of_rvalue(s["r"]), SEL + "inputs_and_change"):
                        held = True
        run.instance(R1, {"fn": "select_send_tx", "obligation": "returned change derivations come from inputs_and_change"}, held=held)
        if not held:
            run.finding(Finding(R1, sst.id, "select_send_tx no longer returns inputs_and_change's change derivations", site=sst.loc()))
    FRESH_VIA = {
        SEL + "build_send_tx": SEL + "select_send_tx",
    }
    for fid, f in sorted(db.fns.items()):
        if non_production(fid):
            continue
        for b, t in f.calls():
            if t.get("f") == c.LW + "types::Context::add_output":
                p = vf.producers(f, t["a"][1])
                o = vf.origins(f, t["a"][1])
                held = vf.has_call(p, KEYS + "next_available_key") or vf.has_call(p, c.WB + "next_child")
                if not held and fid in FRESH_VIA:
                    held = vf.has_call(o, FRESH_VIA[fid]) and not vf.has_field(o, OD, "key_id")
                run.instance(R1, {"fn": pp.short(fid), "obligation": "Context::add_output is given a fresh key"}, held=held)
                if not held:
                    run.finding(Finding(R1, fid, "Context::add_output given a key that is not fresh", site=c.site_of(f, b), detail=str(sorted(map(str, p)))))

    # an output built for the caller (build_output, mwixnet) leaves no record: the advanced index is all that
    # reserves its path
    BO = c.LW + "api_impl::types::BuiltOutput"
    nbo = 0
    for fid, f in sorted(db.fns.items()):
        if non_production(fid) or f.impl_trait in ("core::clone::Clone", "serde::de::Visitor", "serde::de::Deserialize", "core::default::Default"):
            continue
        for b, s_ in vf.struct_literals(f, BO):
            nbo += 1
            ko = vf.literal_field(s_, "key_id")
            prod = vf.producers(f, ko)
            held = vf.has_call(prod, KEYS + "next_available_key") or vf.has_call(prod, c.WB + "next_child")
            run.instance(R1, {"fn": pp.short(fid), "obligation": "the key id of a built output is handed out by the index (next_available_key / next_child)", "producers": sorted(map(str, prod))[:4]}, held=held)
            if not held:
                run.finding(Finding(R1, fid, "the key of an output built for the caller does not come from next_available_key: the index is not advanced, and since a built output leaves no record the next output of the account is built on the same path", site=c.site_of(f, b)))
    if nbo == 0:
        run.error("C15.R1: no BuiltOutput construction site found (anchor missing)")

    R2 = "C15.R2"
    run.rule(R2, "next_child: the index is bumped and committed before the path is returned; path uses the pre-increment index", floor=4)
    nc = BACKEND + "next_child"
    f = ctx.fn(nc)
    if f:
        c.require_pass(ctx, R2, nc, c.WOB + "save_child_index", ("okret",), "Ok(path) requires save_child_index Ok")
        c.require_pass(ctx, R2, nc, c.WOB + "commit", ("okret",), "Ok(path) requires commit Ok")
        c.require_pass(ctx, R2, nc, c.WOB + "save_child_index", ("call", c.WOB + "commit"), "commit follows save_child_index Ok")
        # bump is +1 and the returned path is built from the value before the bump:
        fl = vf.get_flow(f)
        bumps = []
        for b, bb in enumerate(f.bbs):
            for s in bb["s"]:
                if s["k"] == "a" and s["r"]["k"] == "bin" and s["r"]["op"] in ("AddWithOverflow", "Add") and vf.const_of_operand(f, s["r"]["r"]) == "1":
                    bumps.append((b, s))
        sci = cfg.find_calls(f, c.WOB + "save_child_index")
        held = len(bumps) >= 1 and len(sci) == 1
        if held:
            # the ChildNumber::from(deriv_idx) call must precede the bump: it is not reachable from the bump block
            bump_b = [b for b, s in bumps if f.locals[s["d"][0]]["ty"].startswith("(u32") or True]
            froms = [b for b, t in f.calls() if (t.get("fa") or "").startswith("<grin_keychain::extkey_bip32::ChildNumber as core::convert::From<u32>>::from")]
            if not froms:
                held = False
            else:
                after = cfg.reach(f, starts=[bumps[-1][0]])
                # `from` must not be after the last bump
                held = not any(x in after and x != bumps[-1][0] for x in froms)
                # and the saved index derives from the bumped value
                o = vf.origins(f, sci[0][1]["a"][2])
                held = held and any(x[0] == "const" and x[1] == "1" for x in o)
        run.instance(R2, {"fn": "LMDBBackend::next_child", "obligation": "path built from the index before `+= 1`; saved index is the bumped one"}, held=held)
        if not held:
            run.finding(Finding(R2, nc, "next_child no longer returns the pre-increment index / saves the bumped one", site=f.loc()))
        # one account throughout: the counter that is read, the path that is built and the counter that is
        # saved belong to the same account operand
        accts = []
        for b, t in f.calls():
            n_ = t.get("f") or ""
            if n_ == "grin_keychain::types::Identifier::to_bytes" or n_ == "grin_keychain::types::Identifier::to_path":
                accts.append((n_.split("::")[-1], frozenset(vf.producers(f, t["a"][0]))))
            elif n_ == c.WOB + "save_child_index":
                accts.append(("save_child_index", frozenset(vf.producers(f, t["a"][1]))))
        kinds = {k for k, _p in accts}
        held = kinds == {"to_bytes", "to_path", "save_child_index"} and len({p_ for _k, p_ in accts}) == 1
        run.instance(R2, {"fn": "LMDBBackend::next_child", "obligation": "counter read, path built and counter saved for one and the same account", "operands": [(k, sorted(map(str, p_))) for k, p_ in accts]}, held=held)
        if not held:
            run.finding(Finding(R2, nc, "next_child reads / derives / bumps under different accounts (the counter of one account, the path of another): paths get handed out twice", site=f.loc()))
        sm = [n for n, p, a in f.vars if n == "self" and a == 1]
        held = bool(sm) and f.locals[1]["ty"].startswith("&mut")
        run.instance(R2, {"fn": "LMDBBackend::next_child", "obligation": "takes &mut self (no two concurrent callers on one backend)"}, held=held)
        if not held:
            run.finding(Finding(R2, nc, "next_child no longer takes &mut self", site=f.loc()))

    R3 = "C15.R3"
    run.rule(R3, "who moves the child index: only next_child and scan; scan never moves it backwards", floor=3)
    callers = {}
    for fid, f in db.fns.items():
        if non_production(fid):
            continue
        for b, t in f.calls():
            if t.get("f") == c.WOB + "save_child_index":
                callers.setdefault(fid, []).append(b)
    allowed = {nc, SCAN + "scan"}
    for fid in sorted(callers):
        held = fid in allowed
        run.instance(R3, {"fn": pp.short(fid), "obligation": "save_child_index only from next_child / scan"}, held=held)
        if not held:
            run.finding(Finding(R3, fid, "child index written outside next_child/scan", site=c.site_of(db.fns[fid], callers[fid][0])))
    sc = ctx.fn(SCAN + "scan")
    if sc and (SCAN + "scan") in callers:
        fl = vf.get_flow(sc)
        is_max = lambda o: any(x[0] == "call" and "hash_map::Iter" in x[1] or x[0] == "call" and x[1].endswith("Iterator::next") for x in o) and not vf.has_call(o, c.WB + "current_child_index")
        is_cur = lambda o: vf.has_call(o, c.WB + "current_child_index")
        cmps = [(x, x.normalized(is_max, is_cur, fl)) for x in cfg.comparisons(sc)]
        cmps = [(x, op) for x, op in cmps if op in ("Ge", "Gt", "Lt", "Le")]
        held = len(cmps) == 1 and cmps[0][1] in ("Ge", "Lt")
        if held:
            x, op = cmps[0]
            ge = x.true_edges if op == "Ge" else x.false_edges
            held = cfg.must_pass(sc, ge, set(callers[SCAN + "scan"]))[0]
        run.instance(R3, {"fn": "scan", "obligation": "save_child_index only on the max_found >= current edge", "found": [(op, x.site()) for x, op in cmps]}, held=held)
        if not held:
            run.finding(Finding(R3, SCAN + "scan", "scan may move the child index without `max_child_index >= current_child_index`", site=sc.loc()))
        # value written is max + 1
        for b in callers[SCAN + "scan"]:
            t = sc.bbs[b]["t"]
            o = vf.origins(sc, t["a"][2])
            prod_ok = any(x == ("const", "1") for x in o) and not vf.has_call(o, c.WB + "current_child_index")
            adds = False
            pr = vf.producers(sc, t["a"][2])
            for x in pr:
                if x[0] == "call" and x[1] == "core::ops::arith::Add::add":
                    at = sc.bbs[x[2]]["t"]
                    if vf.const_of_operand(sc, at["a"][1]) == "1" or vf.const_of_operand(sc, at["a"][0]) == "1":
                        adds = True
                if x[0] == "binop" and x[1].startswith("Add"):
                    adds = True
            held = prod_ok and adds
            run.instance(R3, {"fn": "scan", "obligation": "index written is max_child_index + 1"}, held=held)
            if not held:
                run.finding(Finding(R3, SCAN + "scan", "scan writes a child index other than max found + 1", site=c.site_of(sc, b)))

    R4 = "C15.R4"
    run.rule(R4, "no caller continues with a path after a failed bump (result of next_child is propagated or unwrapped)", floor=3)
    for fid, f in sorted(db.fns.items()):
        if non_production(fid):
            continue
        for b, t in f.calls():
            if t.get("f") in (c.WB + "next_child", KEYS + "next_available_key"):
                g = cfg.call_guard(f, b)
                # the Err edge must not lead to an Ok return / further use: from fail edges, only error returns or panics
                if not g.ok and not g.fail:
                    # returned directly as tail expression?
                    held = t["d"] == [0, []]
                    detail = "result neither branched on nor returned"
                else:
                    starts = [d for (_s, d) in g.fail]
                    par = cfg.reach(f, starts=starts, cut_nodes=cfg.error_return_blocks(f))
                    bad = [x for x in cfg.return_blocks(f) if x in par]
                    # a fallback that derives another fresh key is fine (receive_coinbase falls back to next_available_key)
                    held = not bad
                    detail = "Err edge reaches a non-error return"
                run.instance(R4, {"fn": pp.short(fid), "site": t["sp"].split(":")[1], "callee": t["f"].split("::")[-1]}, held=held)
                if not held:
                    run.finding(Finding(R4, fid, "failed key-index bump is swallowed", site=c.site_of(f, b), detail=detail))
    R5 = "C15.R5"
    run.rule(R5, "a new account gets a parent path beyond every existing one (highest first component + 1) and a fresh label", floor=3)
    KEYS_M = c.LW + "internal::keys::"
    na = ctx.fn(KEYS_M + "new_acct_path")
    if na:
        mx = cfg.find_calls(na, "core::iter::traits::iterator::Iterator::max_by")
        adds = []
        for b, bb in enumerate(na.bbs):
            for st in bb["s"]:
                if st["k"] == "a" and st["r"]["k"] == "bin" and st["r"]["op"].startswith("Add"):
                    for var, con in ((st["r"]["l"], st["r"]["r"]), (st["r"]["r"], st["r"]["l"])):  # x + k  or  k + x
                        pl = vf.producers(na, var) | vf.origins(na, var)
                        kv = vf.const_of_operand(na, con)
                        if kv is not None and (vf.has_call(pl, "core::iter::traits::iterator::Iterator::max_by") or vf.has_field(pl, "grin_keychain::types::ExtKeychainPath", "path")):
                            adds.append((b, kv))
                            break
        held = len(mx) == 1 and len(adds) == 1 and adds[0][1] == "1"
        run.instance(R5, {"fn": "keys::new_acct_path", "obligation": "new first path component = highest existing + 1", "additions": adds}, held=held)
        if not held:
            run.finding(Finding(R5, na.id, "a new account's parent path is not (highest existing first component) + 1", site=na.loc(), detail=str(adds)))
        # the highest entry is taken over the accounts the wallet knows, comparing the first path component
        h = False
        if mx:
            h = vf.has_call(vf.producers(na, mx[0][1]["a"][0]), c.WB + "acct_path_iter")
        run.instance(R5, {"fn": "keys::new_acct_path", "obligation": "the maximum is taken over acct_path_iter()"}, held=h)
        if not h:
            run.finding(Finding(R5, na.id, "the highest existing account path is not taken over all stored accounts", site=na.loc()))
        # duplicate labels refused before anything is saved
        anyc = [(b, t) for b, t in na.calls() if (t.get("f") or "").endswith("Iterator::any")]
        sv = {b for b, _t in cfg.find_calls(na, c.WOB + "save_acct_path")}
        h = False
        for b, _t in anyc:
            g_ = cfg.call_guard(na, b)
            if g_.fail and sv and cfg.must_pass(na, g_.fail, sv)[0]:
                h = True
        run.instance(R5, {"fn": "keys::new_acct_path", "obligation": "an existing label is refused before save_acct_path"}, held=h)
        if not h:
            run.finding(Finding(R5, na.id, "save_acct_path is reachable for a label that already exists (the mapping of the existing account would be overwritten)", site=na.loc()))
    R6 = "C15.R6"
    run.rule(R6, "the highest child index a scan records per account is a running maximum: it is only raised, never replaced by the index of a later, smaller output", floor=2)
    MAP_T = "HashMap<grin_keychain::types::Identifier, u32>"
    HM = "std::collections::hash::map::HashMap::<K, V, S, A>::"
    for fid, f in sorted(db.fns.items()):
        if non_production(fid) or not fid.startswith(SCAN):
            continue
        writes = []  # (block, value operand or None, how)
        for b, t in f.calls():
            if t.get("f") == HM + "insert" and len(t["a"]) == 3:
                p0 = vf.op_place(t["a"][0])
                if p0 and MAP_T in (f.locals[p0[0]].get("ty") or ""):
                    writes.append((b, t["a"][2], "insert"))
        for b, bb in enumerate(f.bbs):
            for st in bb["s"]:
                if st["k"] == "a" and st["d"][1] and st["d"][1] == ["*"] and (f.locals[st["d"][0]].get("ty") or "") == "&mut u32":
                    pr = vf.producers(f, {"m": [st["d"][0], []]})
                    if any(x[0] in ("call", "mutcall") and ("hash::map" in x[1] or "hash_map" in x[1]) for x in pr) and st["r"]["k"] == "use":
                        writes.append((b, st["r"]["o"], "entry"))
        if not writes:
            continue
        fl = vf.get_flow(f)
        old = lambda o: any(x[0] in ("call", "mutcall") and ("hash::map" in x[1] or "hash_map" in x[1]) and not x[1].endswith("::insert") for x in o)
        for b, val, how in writes:
            kv = vf.const_of_operand(f, val)
            if kv is not None:
                # a constant start value only for a key that is not there yet
                held = False
                if kv == "0":
                    for cb, _ct in cfg.find_calls(f, HM + "contains_key"):
                        g_ = cfg.call_guard(f, cb)
                        if g_.fail and cfg.must_pass(f, g_.fail, {b})[0]:
                            held = True
                    if how == "entry":
                        held = False
                run.instance(R6, {"fn": pp.short(fid), "obligation": "a start value is written only for a key not yet in the map", "value": kv}, held=held)
                if not held:
                    run.finding(Finding(R6, fid, "the recorded highest child index can be reset to a constant for an account already seen", site=c.site_of(f, b)))
                continue
            vo = fl.of_operand(val)
            vsrc = {x for x in vo if x[0] == "field"}
            newer = lambda o: bool(vsrc & set(o)) and not old(o)
            held = any(x[0] == "call" and (x[1].endswith("::max") or x[1].endswith("cmp::max")) for x in vf.producers(f, val))
            found = []
            for x in cfg.comparisons(f):
                op = x.normalized(newer, old, fl)
                if op is None:
                    continue
                found.append((op, x.site()))
                edges = x.true_edges if op in ("Ge", "Gt") else (x.false_edges if op in ("Lt", "Le") else set())
                if edges and cfg.must_pass(f, edges, {b})[0]:
                    held = True
            run.instance(R6, {"fn": pp.short(fid), "obligation": "the index is recorded only on the edge `new >= recorded` (or through max())", "comparisons": found}, held=held)
            if not held:
                run.finding(Finding(R6, fid, "the highest child index recorded for an account can be lowered by a later output with a smaller index (after the restore the next path would not lie beyond every path found)", site=c.site_of(f, b)))
    R7 = "C15.R7"
    run.rule(R7, "the child index a scan restores covers every output found on chain, not only those missing in this run (an interrupted restore leaves outputs that a later scan finds present)", floor=1)
    scan_index_covers_all(ctx, R7)
    R8 = "C15.R8"
    run.rule(R8, "no key is handed out while a wallet restored from its seed still awaits its scan (init_status InitNeedsScanning): until then the wallet does not know which paths are in use", floor=1)
    ncf = ctx.fn(nc)
    if ncf is None:
        run.error("C15.R8: LMDBBackend::next_child not found")
    else:
        gated = False
        for g in [ncf] + [db.fns[k] for k in ctx.cg.callers(ncf.id) if k in db.fns and not non_production(k)]:
            if any((t.get("f") or "").endswith("::init_status") for _b, t in g.calls()):
                gated = True
        run.instance(R8, {"fn": "LMDBBackend::next_child and its callers", "obligation": "the restore mark (init_status) is consulted before a key is derived"}, held=gated)
        if not gated:
            run.finding(Finding(R8, nc, "keys are derived without looking at the restore mark: a wallet restored from its seed that receives (or mines, builds an output, issues an invoice) before its first refresh starts again at index 0, a path that already has an output on chain", site=ncf.loc()))
    run.not_decided += ["uniqueness over all histories/restarts as such (R1-R3 are the conditions under which the counter discipline implies it)", "LMDB durability of the committed index"]

def scan_index_covers_all(ctx, R7):
    """scan(): the per-account maximum that feeds the restored child index is updated for every output found on chain and
    reaches the index step unshrunk (an interrupted restore is finished by the next scan)."""
    run = ctx.run
    db = ctx.db
    MAP_T = "HashMap<grin_keychain::types::Identifier, u32>"
    sc7 = ctx.fn(SCAN + "scan")
    if sc7 is None:
        run.error("C15.R7: scan not found")
    else:
        PASS = ("IntoIterator::into_iter", "::iter", "Clone::clone", "Deref::deref", "Iterator::cloned", "Iterator::copied", "Iterator::by_ref", "Iterator::enumerate", "Iterator::rev")

        def _base(f, o, depth=0):
            pr = vf.producers(f, o)
            calls = [x for x in pr if x[0] == "call"]
            if len(pr) == 1 and calls and calls[0][1].endswith(PASS) and depth < 8:
                return _base(f, f.bbs[calls[0][2]]["t"]["a"][0], depth + 1)
            return pr

        heads = [b for b, t in sc7.calls() if (t.get("f") or "").endswith("Iterator::next") and vf.has_call(_base(sc7, t["a"][0]), SCAN + "collect_chain_outputs")]
        # blocks that write the per-account maximum: a call handed `&mut HashMap<Identifier, u32>`
        wr = set()
        for b, t in sc7.calls():
            for a in t["a"]:
                pl = vf.op_place(a)
                if pl and not pl[1] and (sc7.locals[pl[0]].get("ty") or "").startswith("&mut ") and MAP_T in sc7.locals[pl[0]]["ty"]:
                    wr.add(b)
        if not heads:
            run.error("C15.R7: no loop over the outputs returned by collect_chain_outputs found in scan")
        covered = False
        for h in heads:
            err = cfg.error_return_blocks(sc7)
            # can an iteration get from the loop head back to it without writing the map?
            starts = tuple(s_ for s_ in sc7.succ(h))
            par = cfg.reach(sc7, starts=starts, cut_nodes=frozenset(wr | err))
            back = any(h in sc7.succ(b) for b in par)
            if not back and wr:
                covered = True
        # ... and what was gathered reaches the index step: nothing empties or replaces the map on the way
        shrink = [b for b, t in sc7.calls() if (t.get("f") or "").startswith("std::collections::hash::map::HashMap::<K, V, S, A>::") and (t.get("f") or "").split("::")[-1] in ("clear", "remove", "retain", "drain", "remove_entry") and vf.op_place(t["a"][0]) and MAP_T in (sc7.locals[vf.op_place(t["a"][0])[0]].get("ty") or "")]
        owners = [l for l, loc in enumerate(sc7.locals) if (loc.get("ty") or "").startswith("std::collections::hash::map::HashMap<") and MAP_T in loc["ty"] and loc.get("u")]
        redefs = [l for l in owners if len(sc7.defs().get(l, [])) > 1]
        if shrink or redefs:
            covered = False
        run.instance(R7, {"fn": "scan", "obligation": "every output found on chain counts towards the restored child index (each iteration of a loop over collect_chain_outputs' result updates the per-account maximum; the map is neither emptied nor replaced before the index step)", "loops": [c.site_of(sc7, h) for h in heads], "map writes": len(wr), "emptied/replaced at": [c.site_of(sc7, b) for b in shrink]}, held=covered)
        if not covered:
            run.finding(Finding(R7, sc7.id, "the restored child index only counts outputs restored in this run: after an interrupted restore (outputs committed, index not yet) no later scan raises the index and paths that are on chain are handed out again", site=sc7.loc()))

