"""C12 - Secrets never leave the wallet in clear; signing nonces are never reused (structural clauses)."""
from . import common as c
from .. import cfg, valueflow as vf, pp
from ..callgraph import non_production
from ..engine import Finding

CTXT = c.LW + "types::Context"
LM = c.IMPLS + "backends::lmdb::"
BATCH = "<" + LM + "Batch<'a, C, K> as " + c.LW + "types::WalletOutputBatch<K>>::"
BACKEND = "<" + LM + "LMDBBackend<'ck, C, K> as " + c.LW + "types::WalletBackend<'ck, C, K>>::"
SEED = c.IMPLS + "lifecycle::seed::"
DLC = "<" + c.IMPLS + "lifecycle::default::DefaultLCProvider<'a, C, K> as " + c.LW + "types::WalletLCProvider<'a, C, K>>::"

SECRET_TYPES = {
    "secp256k1zkp::key::SecretKey",
    "ed25519_dalek::secret::SecretKey",
    "ed25519_dalek::secret::ExpandedSecretKey",
    "ed25519_dalek::keypair::Keypair",
    "x25519_dalek::x25519::StaticSecret",
    "grin_util::types::ZeroingString",
    "grin_keychain::extkey_bip32::ExtendedPrivKey",
    "grin_keychain::keychain::ExtKeychain",
    "grin_keychain::types::BlindingFactor",
    SEED + "WalletSeed",
    CTXT,
}
# (type, field) pairs allowed to carry a listed type outward, with reason
OUTWARD_ALLOW = {
    (c.LW + "slate::Slate", "offset"): "kernel offset is public by protocol (sum of offsets travels with the slate)",
    (c.LW + "slate_versions::v4::SlateV4", "off"): "kernel offset is public by protocol",
}
OUTWARD_ROOTS = [
    c.LW + "slate::Slate",
    c.LW + "slate_versions::v4::SlateV4",
    c.LW + "slate_versions::v4_bin::SlateV4Bin",
    c.LW + "slate_versions::VersionedSlate",
    c.LW + "slate_versions::VersionedBinSlate",
    c.LW + "slate_versions::VersionedCoinbase",
    c.LW + "slatepack::types::Slatepack",
    c.LW + "api_impl::types::VersionInfo",
    c.LW + "types::CbData",
]


def _xor_sites(fn):
    """[(stmt, fields of Context being XOR-ed, locals of type Context the destination belongs to)]"""
    fl = vf.get_flow(fn)
    out = []
    for b, bb in enumerate(fn.bbs):
        if bb["cleanup"]:
            continue
        for s in bb["s"]:
            if s["k"] == "a" and s["r"]["k"] == "bin" and s["r"]["op"] == "BitXor":
                flds = {e["n"] for e in s["d"][1] if isinstance(e, dict) and e.get("a") == CTXT}
                roots = {s["d"][0]} if flds else set()
                if not flds and s["d"][1] == ["*"]:
                    # `*b ^= *k` with b obtained from iter_mut() over a field of the context
                    seen, stack = set(), [s["d"][0]]
                    while stack:
                        l = stack.pop()
                        if l in seen:
                            continue
                        seen.add(l)
                        stack.extend(fl.deps[l])
                    flds = {x[2] for x in fl.of_operand({"c": [s["d"][0], []]}) if x[0] == "field" and x[1] == CTXT}
                    roots = {l for l in seen if fn.locals[l]["ty"].replace("&mut ", "").replace("&", "") == pp_ctx_ty(fn)}
                if flds:
                    out.append((s, flds, roots))
    return out


def pp_ctx_ty(fn):
    for l in fn.locals:
        t = l["ty"].replace("&mut ", "").replace("&", "")
        if t.endswith("types::Context"):
            return t
    return CTXT


def xor_pairs(fn):
    """{field: key component} - which component of private_ctx_xor_keys' result masks which Context field
    (None when it cannot be read off the operand)."""
    out = {}
    fl = vf.get_flow(fn)
    for s, flds, _r in _xor_sites(fn):
        rhs = s["r"]["r"]
        idx = {x[2] for x in vf.producers(fn, rhs) if x[0] == "field" and x[1] == "()"}
        if len(idx) != 1 or not any(x[0] == "call" and x[1].endswith("private_ctx_xor_keys") for x in vf.producers(fn, rhs)):
            idx = set()  # not readable off the operand (e.g. iterator form): the pairing is then not decided
        for f_ in flds:
            out[f_] = next(iter(idx)) if len(idx) == 1 else None
    return out


def xor_masked_fields(fn):
    out = set()
    for _s, flds, _r in _xor_sites(fn):
        out |= flds
    return out


def run(ctx):
    run = ctx.run
    db = ctx.db
    R1 = "C12.R1"
    run.rule(R1, "every SecretKey field of the stored Context is XOR-masked, symmetrically in save and get", floor=5)
    adt = db.adts.get(CTXT)
    if not adt:
        run.error("C12.R1: ADT Context not found")
    else:
        secret_fields = [f["name"] for f in adt["variants"][0]["fields"] if any(a in SECRET_TYPES for a in f["adts"])]
        sv = ctx.fn(BATCH + "save_private_context")
        gt = ctx.fn(BACKEND + "get_private_context")
        if sv and gt:
            ms, mg = xor_masked_fields(sv), xor_masked_fields(gt)
            if len(secret_fields) < 2:
                run.error("C12.R1: fewer than 2 secret fields found in Context (%s)" % secret_fields)
            for fld in secret_fields:
                held = fld in ms and fld in mg
                run.instance(R1, {"field": "Context." + fld, "masked_on_save": fld in ms, "unmasked_on_get": fld in mg}, held=held)
                if not held:
                    run.finding(Finding(R1, sv.id, "Context.%s is a secret key stored without the XOR mask" % fld, site=sv.loc(),
                                        detail="save masks %s; get unmasks %s" % (sorted(ms), sorted(mg))))
            ps, pg = xor_pairs(sv), xor_pairs(gt)
            if all(v is not None for v in list(ps.values()) + list(pg.values())):
                h = ps == pg and len(set(ps.values())) == len(ps)
                run.instance(R1, {"obligation": "each field is unmasked with the key component it was masked with, one component per field", "save": ps, "get": pg}, held=h)
                if not h:
                    run.finding(Finding(R1, gt.id, "save/get_private_context pair the mask keys with the fields differently (%s vs %s)" % (sorted(ps.items()), sorted(pg.items())), site=gt.loc()))
            held = ms == mg
            run.instance(R1, {"obligation": "save and get mask the same field set", "save": sorted(ms), "get": sorted(mg)}, held=held)
            if not held:
                run.finding(Finding(R1, gt.id, "save/get_private_context mask different field sets", site=gt.loc()))
            # the masked clone is what is written; keys derive from private_ctx_xor_keys
            for f_ in (sv, gt):
                n = len(cfg.find_calls(f_, LM + "private_ctx_xor_keys"))
                run.instance(R1, {"fn": pp.short(f_.id), "obligation": "mask keys come from private_ctx_xor_keys"}, held=n == 1)
                if n != 1:
                    run.finding(Finding(R1, f_.id, "mask keys not derived by private_ctx_xor_keys", site=f_.loc()))
            ps = cfg.find_calls(sv, "grin_store::lmdb::Batch::<'a>::put_ser")
            held = len(ps) == 1
            if held:
                base = vf.base_local_of_ref(sv, ps[0][1]["a"][2])
                # the serialised value is the local that was XOR-ed (the clone), not the parameter
                xl = set()
                for _s, _f, roots in _xor_sites(sv):
                    xl |= roots
                held = base in xl
            run.instance(R1, {"fn": "save_private_context", "obligation": "the value serialised is the masked clone"}, held=held)
            if not held:
                run.finding(Finding(R1, sv.id, "value written to the store is not the masked clone", site=sv.loc()))
        # no other put_ser of a Context
        others = []
        for fid, f in db.fns.items():
            if non_production(fid):
                continue
            for b, t in f.calls():
                if (t.get("f") or "").endswith("put_ser") and CTXT in t.get("gadts", []):
                    if fid != BATCH + "save_private_context":
                        others.append((fid, c.site_of(f, b)))
        run.instance(R1, {"obligation": "Context is serialised to storage only by save_private_context", "others": others}, held=not others)
        for fid, site in others:
            run.finding(Finding(R1, fid, "Context serialised to storage outside save_private_context", site=site))

    R2 = "C12.R2"
    run.rule(R2, "types handed to a peer / written outside LMDB contain no secret types (field-type closure)", floor=6)
    for root in OUTWARD_ROOTS:
        if root not in db.adts:
            run.error("C12.R2: outward type %s not found" % root)
            continue
        seen = set()
        hits = []
        stack = [(root, [root.split("::")[-1]])]
        nfields = 0
        while stack:
            a, path = stack.pop()
            if a in seen:
                continue
            seen.add(a)
            ad = db.adts.get(a)
            if not ad:
                continue
            for v in ad["variants"]:
                for f in v["fields"]:
                    nfields += 1
                    for sub in f["adts"]:
                        if sub in SECRET_TYPES:
                            if (a, f["name"]) in OUTWARD_ALLOW:
                                continue
                            hits.append((a, f["name"], sub, path))
                        elif sub in db.adts:
                            stack.append((sub, path + [f["name"]]))
        run.instance(R2, {"type": pp.short(root), "types_in_closure": len(seen), "fields": nfields, "secret_fields": [(pp.short(a), n, s) for a, n, s, _p in hits]}, held=not hits)
        for a, n, sub, path in hits:
            run.finding(Finding(R2, a, "outward type %s reaches secret type %s through field %s" % (pp.short(root), sub, n), site=db.adts[a]["sp"]))
    for (a, n), why in OUTWARD_ALLOW.items():
        run.note("C12.R2 allow-list: %s.%s: %s" % (pp.short(a), n, why))

    R3 = "C12.R3"
    run.rule(R3, "seed file: who writes it, and only the AEAD-sealed form", floor=5)
    writers = {}
    for fid, f in db.fns.items():
        if non_production(fid) or not fid.startswith(SEED):
            continue
        for b, t in f.calls():
            if t.get("f") in ("std::fs::File::create", "std::io::Write::write_all", "std::fs::write"):
                writers.setdefault(fid, []).append((b, t))
    allowed = {SEED + "WalletSeed::init_file", SEED + "WalletSeed::recover_from_phrase"}
    for fid in sorted(writers):
        held = fid in allowed
        run.instance(R3, {"fn": pp.short(fid), "obligation": "seed-file writes only in init_file / recover_from_phrase"}, held=held)
        if not held:
            run.finding(Finding(R3, fid, "file write in the seed module outside init_file/recover_from_phrase", site=c.site_of(db.fns[fid], writers[fid][0][0])))
        f = db.fns[fid]
        for b, t in writers[fid]:
            if t["f"].endswith("write_all"):
                p = vf.producers(f, t["a"][1])
                o = vf.origins(f, t["a"][1])
                held = vf.has_call(o, "serde_json::ser::to_string_pretty") and vf.has_call(o, SEED + "EncryptedWalletSeed::from_seed")
                # and not directly the seed bytes
                held = held and not vf.has_field(p, SEED + "WalletSeed", "0")
                run.instance(R3, {"fn": pp.short(fid), "obligation": "bytes written = to_string_pretty(EncryptedWalletSeed::from_seed(..))"}, held=held)
                if not held:
                    run.finding(Finding(R3, fid, "seed file content is not the serialised EncryptedWalletSeed", site=c.site_of(f, b)))
    if set(writers) != allowed:
        run.error("C12.R3: expected seed writers %s, found %s" % (sorted(allowed), sorted(writers)))
    fs_ = SEED + "EncryptedWalletSeed::from_seed"
    c.require_pass(ctx, R3, fs_, "ring::aead::LessSafeKey::seal_in_place_append_tag", ("okret",), "EncryptedWalletSeed::from_seed Ok requires AEAD seal Ok")
    f = ctx.fn(fs_)
    if f:
        lits = vf.struct_literals(f, SEED + "EncryptedWalletSeed")
        held = len(lits) == 1
        if held:
            o = vf.producers(f, vf.literal_field(lits[0][1], "encrypted_seed"))
            oo = vf.origins(f, vf.literal_field(lits[0][1], "encrypted_seed"))
            # the hex-encoded buffer is the one handed (by &mut) to seal_in_place_append_tag
            held = any(x[0] == "mutcall" and x[1] == "ring::aead::LessSafeKey::seal_in_place_append_tag" for x in oo)
        run.instance(R3, {"fn": "EncryptedWalletSeed::from_seed", "obligation": "encrypted_seed is the buffer sealed in place"}, held=held)
        if not held:
            run.finding(Finding(R3, fs_, "encrypted_seed field is not the sealed buffer", site=f.loc()))

    fs = ctx.fn(SEED + "EncryptedWalletSeed::from_seed")
    if fs:
        from .shared import fresh_random
        seals = [(b, t) for b, t in fs.calls() if (t.get("f") or "").startswith("ring::aead::") and "seal_in_place" in (t.get("f") or "")]
        kd = cfg.find_calls(fs, "ring::pbkdf2::derive")
        h_n = False
        if len(seals) == 1:
            for a in seals[0][1]["a"]:
                for x in vf.producers(fs, a):
                    if x[0] == "call" and x[1].endswith("Nonce::assume_unique_for_key"):
                        h_n = fresh_random(fs, fs.bbs[x[2]]["t"]["a"][0])
        run.instance(R3, {"fn": "EncryptedWalletSeed::from_seed", "obligation": "the AEAD nonce sealing the seed is thread_rng().gen()"}, held=h_n)
        if not h_n:
            run.finding(Finding(R3, fs.id, "the seed file is sealed with a nonce that is not fresh random", site=fs.loc()))
        h_s = len(kd) == 1 and fresh_random(fs, {"c": [vf.base_local_of_ref(fs, kd[0][1]["a"][2]), []]} if vf.base_local_of_ref(fs, kd[0][1]["a"][2]) is not None else kd[0][1]["a"][2])
        run.instance(R3, {"fn": "EncryptedWalletSeed::from_seed", "obligation": "the key-derivation salt is thread_rng().gen()"}, held=h_s)
        if not h_s:
            run.finding(Finding(R3, fs.id, "the password-based key of the seed file is derived with a salt that is not fresh random", site=fs.loc()))
    R4 = "C12.R4"
    run.rule(R4, "wrong password => error: decrypt Ok requires AEAD open Ok", floor=2)
    dc = SEED + "EncryptedWalletSeed::decrypt"
    c.require_pass(ctx, R4, dc, "ring::aead::LessSafeKey::open_in_place", ("okret",), "EncryptedWalletSeed::decrypt Ok requires open_in_place Ok")
    ff = SEED + "WalletSeed::from_file"
    c.require_pass(ctx, R4, ff, dc, ("okret",), "WalletSeed::from_file Ok requires decrypt Ok")

    # "only with the password it was last saved under": the key is derived from the whole password, in both directions.
    # The secret handed to pbkdf2::derive is password.as_bytes() itself: no slice, truncation, trimming or case folding in
    # between (seed C12m: `[..len.min(64)]` - any password sharing the first 64 bytes opens the file)
    for fid_ in (SEED + "EncryptedWalletSeed::from_seed", dc):
        fk = ctx.fn(fid_)
        if fk is None:
            run.error("C12.R4: %s not found" % fid_)
            continue
        kd_ = cfg.find_calls(fk, "ring::pbkdf2::derive")
        pw = c.param(fk, "password", "&str")
        held = len(kd_) == 1 and pw is not None
        why = ""
        if held:
            o_ = kd_[0][1]["a"][3]
            chain = []
            for _ in range(8):
                pr = vf.producers(fk, o_)
                calls = [x for x in pr if x[0] == "call"]
                if not calls:
                    held = any(x[0] == "arg" and x[1] == pw for x in pr)
                    chain.append("password" if held else "?%s" % sorted(map(str, pr))[:3])
                    break
                if len(calls) != 1 or not calls[0][1].endswith(("::as_bytes", "Deref::deref", "AsRef::as_ref", "String::as_str")):
                    held = False
                    chain.append("?" + (calls[0][1].split("::")[-1] if calls else ""))
                    break
                chain.append(calls[0][1].split("::")[-1])
                o_ = fk.bbs[calls[0][2]]["t"]["a"][0]
            else:
                held = False
            why = " <- ".join(chain)
        run.instance(R4, {"fn": pp.short(fid_), "obligation": "the secret given to pbkdf2::derive is the whole password (as_bytes of the parameter, nothing in between)", "chain": why}, held=held)
        if not held:
            run.finding(Finding(R4, fid_, "the seed file's key is not derived from the whole password: a different password that agrees on the part used opens the seed", site=fk.loc(), detail=why))

    R5 = "C12.R5"
    run.rule(R5, "interruption-safe password change / recovery: backup before delete/create; backup removed only after verification", floor=5)
    cp = DLC + "change_password"
    f = ctx.fn(cp)
    if f:
        c.require_pass(ctx, R5, cp, SEED + "WalletSeed::backup_seed", ("call", SEED + "WalletSeed::delete_seed_file"), "delete_seed_file requires backup_seed Ok")
        c.require_pass(ctx, R5, cp, SEED + "WalletSeed::backup_seed", ("call", SEED + "WalletSeed::init_file"), "init_file requires backup_seed Ok")
        c.require_pass(ctx, R5, cp, SEED + "WalletSeed::from_file", ("call", SEED + "WalletSeed::backup_seed"), "the old password opens the seed before anything is touched")
        rm = cfg.find_calls(f, "std::fs::remove_file")
        if len(rm) != 1:
            run.error("C12.R5: expected one remove_file in change_password")
        else:
            rb = {rm[0][0]}
            # requires from_file(new) Ok after init_file, and seeds-equal edge
            ffs = cfg.find_calls(f, SEED + "WalletSeed::from_file")
            initb = [b for b, _t in cfg.find_calls(f, SEED + "WalletSeed::init_file")]
            after_init = cfg.reach(f, starts=[f.bbs[initb[0]]["t"]["t"]]) if initb else {}
            later = [b for b, _t in ffs if b in after_init]
            e = set()
            for b in later:
                e |= cfg.call_guard(f, b).ok
            h = bool(e) and cfg.must_pass(f, e, rb)[0]
            run.instance(R5, {"fn": "change_password", "obligation": "backup removed only after from_file(new password) Ok"}, held=h)
            if not h:
                run.finding(Finding(R5, cp, "backup removed without re-opening the new seed file", site=c.site_of(f, rm[0][0])))
            cm = [x for x in cfg.comparisons(f) if x.is_call and x.op in ("Eq", "Ne")]
            cm = [x for x in cm if vf.has_call(vf.origins(f, x.l) | vf.origins(f, x.r), SEED + "WalletSeed::from_file")]
            e = set()
            for x in cm:
                e |= x.true_edges if x.op == "Eq" else x.false_edges
            h = len(cm) == 1 and cfg.must_pass(f, e, rb)[0]
            run.instance(R5, {"fn": "change_password", "obligation": "backup removed only on the seeds-equal edge"}, held=h)
            if not h:
                run.finding(Finding(R5, cp, "backup removed without comparing old and new seed", site=c.site_of(f, rm[0][0])))
            # backup file name removed is the one returned by backup_seed
            o = vf.origins(f, rm[0][1]["a"][0])
            h = vf.has_call(o, SEED + "WalletSeed::backup_seed")
            run.instance(R5, {"fn": "change_password", "obligation": "the file removed is the backup returned by backup_seed"}, held=h)
            if not h:
                run.finding(Finding(R5, cp, "remove_file target is not the backup name", site=c.site_of(f, rm[0][0])))
    rp = SEED + "WalletSeed::recover_from_phrase"
    f = ctx.fn(rp)
    if f:
        # File::create requires: seed file absent (exists != Ok(true)) or backup_seed Ok
        se = cfg.find_calls(f, SEED + "WalletSeed::seed_file_exists")
        bk, _n = c.guard_edges(ctx, f, SEED + "WalletSeed::backup_seed", R5)
        if len(se) != 1:
            run.error("C12.R5: seed_file_exists call not found in recover_from_phrase")
        else:
            # edges on which 'exists == Ok(true)' is false: everything leaving the pattern test other than the match
            b0 = se[0][0]
            bkb = {b for b, _t in cfg.find_calls(f, SEED + "WalletSeed::backup_seed")}
            # paths that avoid backup_seed entirely must have taken a non-(Ok(true)) edge. We check the
            # contrapositive structurally: File::create is unreachable when both the edges that skip the
            # backup call and the backup Ok edges are cut, i.e. every path either skips (file absent) or backed up Ok.
            skip = set()
            par = cfg.reach(f, cut_nodes=bkb)
            for s_ in par:
                for d in f.succ(s_):
                    if d not in bkb and d in par and s_ in cfg.reach(f, starts=[f.bbs[b0]["t"]["t"]]) and f.bbs[s_]["t"]["k"] == "sw":
                        skip.add((s_, d))
            # restrict skip edges to switch blocks that also can lead to the backup call (the pattern test)
            skip = {(s_, d) for (s_, d) in skip if any(x in bkb or x in cfg.reach(f, starts=[x2 for x2 in f.succ(s_) if x2 != d]) and bkb & set(cfg.reach(f, starts=[x2 for x2 in f.succ(s_) if x2 != d])) for x in f.succ(s_))}
            h = cfg.must_pass(f, skip | bk, {b for b, _t in cfg.find_calls(f, "std::fs::File::create")})[0] and bool(bk)
            # and the backup call sits on the Ok(true) arm: it is dominated by the seed_file_exists call
            h = h and cfg.must_pass(f, c.after_call_edges(f, SEED + "WalletSeed::seed_file_exists"), bkb)[0]
            run.instance(R5, {"fn": "recover_from_phrase", "obligation": "an existing seed file is backed up (Ok) before File::create truncates it"}, held=h)
            if not h:
                run.finding(Finding(R5, rp, "seed file can be overwritten without a successful backup", site=f.loc()))

    # the backup never lands on an existing file: the rename is reached only on the `!exists` edge of the name it uses
    bsf = ctx.fn(c.IMPLS + "lifecycle::seed::WalletSeed::backup_seed")
    if bsf is None:
        run.error("C12.R5: WalletSeed::backup_seed not found")
    else:
        ren = {b for b, _t in cfg.find_calls(bsf, "std::fs::rename")}
        free = set()
        for b, t in bsf.calls():
            if (t.get("f") or "").endswith("Path::exists"):
                free |= cfg.call_guard(bsf, b).fail
        # names are (re)built by format!(): after each such point an exists() == false edge must be passed before rename
        fmts = [b for b, t in bsf.calls() if (t.get("f") or "") in ("alloc::fmt::format", "alloc::fmt::format::format_inner") or (t.get("f") or "").endswith("fmt::format")]
        held = bool(ren) and bool(free)
        if held:
            for fb in fmts:
                # only formats whose result can reach the rename's target argument matter: take all, the first one
                # (the seed file's own name) is followed by the exists() test of the backup name as well
                par = cfg.reach(bsf, starts=[s_ for s_ in bsf.succ(fb)], cut_edges=frozenset(free))
                if any(r in par for r in ren):
                    held = False
        run.instance(R5, {"fn": "WalletSeed::backup_seed", "obligation": "rename(seed -> backup name) only after exists(backup name) == false for the name last built", "names built": len(fmts)}, held=held)
        if not held:
            run.finding(Finding(R5, bsf.id, "the seed backup can be renamed onto an existing backup file: an earlier backup (the only copy of the original seed after an interrupted recovery) is silently replaced", site=bsf.loc()))

    R6 = "C12.R6"
    run.rule(R6, "fresh nonce and excess per context: construction sites and writers of Context secrets", floor=6)
    lits = {}
    for fid, f in db.fns.items():
        if non_production(fid):
            continue
        if f.impl_trait in ("core::clone::Clone", "serde::de::Visitor", "serde::de::Deserialize"):
            continue
        for b, s in vf.struct_literals(f, CTXT):
            lits.setdefault(fid, []).append((b, s))
    held = sorted(lits) == [CTXT + "::with_excess"]
    run.instance(R6, {"obligation": "Context struct literals occur only in Context::with_excess", "found": [pp.short(k) for k in lits]}, held=held)
    if not held:
        for fid in lits:
            if fid != CTXT + "::with_excess":
                run.finding(Finding(R6, fid, "Context constructed outside Context::with_excess", site=db.fns[fid].loc()))
    we = ctx.fn(CTXT + "::with_excess")
    nw = ctx.fn(CTXT + "::new")
    if we and nw:
        # nonce: on use_test_rng == false edges comes from create_secnonce
        tpp = c.param(we, "use_test_rng", "bool", 0)
        tp = [tpp] if tpp is not None else []
        g = cfg.local_guard(we, tp[0]) if tp else None
        sn = cfg.find_calls(we, "grin_core::libtx::aggsig::create_secnonce")
        fixed = cfg.find_calls(we, "secp256k1zkp::key::SecretKey::from_slice")
        held = bool(g) and len(sn) == 1 and cfg.must_pass(we, g.fail, {sn[0][0]})[0]
        held = held and all(cfg.must_pass(we, g.ok, {b})[0] for b, _t in fixed)
        run.instance(R6, {"fn": "Context::with_excess", "obligation": "sec_nonce = create_secnonce() unless use_test_rng; the fixed nonce only on the test edge"}, held=held)
        if not held:
            run.finding(Finding(R6, we.id, "nonce is not freshly generated on the production edge", site=we.loc()))
        lit = lits.get(we.id, [None])[0]
        if lit:
            o = vf.producers(we, vf.literal_field(lit[1], "sec_nonce"))
            held = vf.has_call(o, "grin_core::libtx::aggsig::create_secnonce")
            o2 = vf.producers(we, vf.literal_field(lit[1], "sec_key"))
            held = held and ("arg", 2) in o2
            run.instance(R6, {"fn": "Context::with_excess", "obligation": "literal: sec_nonce from create_secnonce, sec_key from the parameter"}, held=held)
            if not held:
                run.finding(Finding(R6, we.id, "Context literal secrets have unexpected producers", site=we.loc()))
        tpp = c.param(nw, "use_test_rng", "bool", 0)
        tp = [tpp] if tpp is not None else []
        g = cfg.local_guard(nw, tp[0]) if tp else None
        # match on bool compiles to switchInt on the param directly
        rng = cfg.find_calls(nw, "rand::rngs::thread::thread_rng")
        step = cfg.find_calls(nw, "rand::rngs::mock::StepRng::new")
        held = bool(g) and len(rng) == 1 and cfg.must_pass(nw, g.fail, {rng[0][0]})[0] and all(cfg.must_pass(nw, g.ok, {b})[0] for b, _t in step) and bool(step)
        run.instance(R6, {"fn": "Context::new", "obligation": "sec_key = SecretKey::new(thread_rng) unless use_test_rng; StepRng only on the test edge"}, held=held)
        if not held:
            run.finding(Finding(R6, nw.id, "blinding excess not drawn from thread_rng on the production edge", site=nw.loc()))
    # writers of the secret fields elsewhere: must copy from another Context's same-kind field
    WRITERS = {
        c.LW + "api_impl::foreign::finalize_tx": "invoice temp_ctx: sec_* := context.initial_sec_* of the same slate's context",
        c.LW + "api_impl::owner::process_invoice_tx": "self-send merge: initial_sec_* := stored context (same slate id).initial_sec_*",
        c.LW + "internal::tx::new_tx_slate": "n/a",
        c.LW + "internal::tx::add_inputs_to_slate": "initial_sec_key := sec_key of the same fresh context (payer side)",
        c.LW + "internal::tx::add_output_to_slate": "initial_sec_key := sec_key of the same fresh context (recipient side)",
        BACKEND + "get_private_context": "XOR unmasking",
        BATCH + "save_private_context": "XOR masking of the clone",
        c.LW + "slate::Slate::fill_round_1": "n/a",
    }
    secret_fields = ("sec_key", "sec_nonce", "initial_sec_key", "initial_sec_nonce")
    for fid, f in sorted(db.fns.items()):
        if non_production(fid) or f.impl_trait in ("core::clone::Clone", "serde::de::Visitor"):
            continue
        for fld in secret_fields:
            for b, s in vf.field_assignments(f, CTXT, fld):
                r_ = s["r"]
                o = set()
                for key in ("o", "p", "l", "r"):
                    if isinstance(r_.get(key), (dict, list)):
                        o |= vf.producers(f, r_[key])
                from_ctx = any(x[0] == "field" and x[1] == CTXT and x[2] in secret_fields for x in o)
                held = fid in WRITERS and from_ctx
                if fid == CTXT + "::with_excess":
                    continue
                run.instance(R6, {"fn": pp.short(fid), "field": fld, "site": s["sp"].split(":")[1], "why": WRITERS.get(fid)}, held=held)
                if not held:
                    run.finding(Finding(R6, fid, "Context.%s overwritten from something other than a context secret of the same exchange" % fld, site=":".join(s["sp"].split(":")[:2]), detail=str(sorted(map(str, o)))[:300]))
    # every step that adds participant data creates its context with Context::new in the same call chain
    for fid in (c.LW + "internal::selection::build_send_tx", c.LW + "internal::selection::build_recipient_output", c.LW + "internal::tx::create_late_lock_context"):
        f = ctx.fn(fid)
        if f:
            n = len(cfg.find_calls(f, CTXT + "::new"))
            run.instance(R6, {"fn": pp.short(fid), "obligation": "creates its context with Context::new"}, held=n == 1)
            if n != 1:
                run.finding(Finding(R6, fid, "protocol step does not create a fresh Context::new", site=f.loc()))

    R7 = "C12.R7"
    run.rule(R7, "the test RNG cannot be switched on in production: roots of use_test_rng are literal false / doctest_mode", floor=8)
    from ..flags import FlagRoots
    fr = FlagRoots(ctx)
    roots = set()
    for fid, pname in [(CTXT + "::new", "use_test_rng"), (CTXT + "::with_excess", "use_test_rng"), (BACKEND + "set_keychain", "use_test_rng")]:
        f = db.fns.get(fid)
        if not f:
            run.error("C12.R7: sink %s not found" % fid)
            continue
        for n, p, a in f.vars:
            if n == pname and a > 0 and not p[1]:
                rs = fr.roots_of_operand(f, {"c": [p[0], []]})
                for r in rs:
                    roots.add((fid.split("::")[-1],) + r)
    ENTRY_OK = {}
    for sink, kind, val, fid, site in sorted(roots):
        held = kind == "const" and val in ("0", "1-under-false-flag")
        run.instance(R7, {"sink": sink, "root": "%s %s" % (kind, pp.short(str(val))), "in": pp.short(fid)}, held=held)
        if not held:
            run.finding(Finding(R7, fid, "use_test_rng of %s has root %s %s" % (sink, kind, pp.short(str(val))), site=site))
    R8 = "C12.R8"
    run.rule(R8, "a signing context is used once: after the wallet has signed, finalize deletes the stored context and commits the deletion", floor=2)
    from .shared import writes_committed
    fz = c.LW + "api_impl::foreign::finalize_tx"
    n8 = writes_committed(ctx, R8, only_fns={fz}, only_effects={"delete_private_context"})
    ffz = ctx.fn(fz)
    if ffz:
        # every Ok return of finalize_tx passed a delete_private_context call
        # (through helpers too: any call whose effect summary contains delete_private_context)
        de = {(b, ffz.bbs[b]["t"]["t"]) for b in ctx.eff.effect_blocks(ffz, {"delete_private_context"}) if ffz.bbs[b]["t"].get("t") is not None}
        h = bool(de) and cfg.must_pass(ffz, de, cfg.return_blocks(ffz), cut_nodes=cfg.error_return_blocks(ffz))[0]
        run.instance(R8, {"fn": "foreign::finalize_tx", "obligation": "Ok is returned only after delete_private_context (both arms)"}, held=h)
        if not h:
            run.finding(Finding(R8, fz, "finalize_tx can return Ok without deleting the signing context", site=ffz.loc()))
    R9 = "C12.R9"
    run.rule(R9, "secret-bearing values are never formatted (logged, printed, put into error texts)", floor=1)
    # types that (transitively) hold a secret type
    bearing = set(SECRET_TYPES)
    changed = True
    while changed:
        changed = False
        for a, ad in db.adts.items():
            if a in bearing or not a.startswith("grin_wallet"):
                continue
            for v in ad.get("variants", []):
                for f_ in v["fields"]:
                    if (a, f_["name"]) in OUTWARD_ALLOW:
                        continue
                    if any(sub in bearing for sub in f_["adts"]):
                        bearing.add(a)
                        changed = True
    nfmt = 0
    hits = []
    for fid, f in db.fns.items():
        if non_production(fid):
            continue
        for b, t in f.calls():
            n = t.get("f") or ""
            if n.startswith("core::fmt::rt::Argument") and "::new_" in n:
                nfmt += 1
                ga = (t.get("ga") or [""])[0]
                core_ty = ga.replace("&", "").replace("mut ", "").strip()
                import re as _re
                names = set(_re.findall(r"[A-Za-z_][A-Za-z0-9_]*(?:::[A-Za-z_][A-Za-z0-9_]*)+", core_ty))
                bad = [x for x in bearing if x in names]
                if bad and t.get("sp") and not any(m in (f.mac or []) for m in ()):
                    hits.append((fid, c.site_of(f, b), sorted(bad)[0]))
    run.instance(R9, {"obligation": "no fmt::Argument is built over a secret-bearing type", "format_arguments_examined": nfmt, "secret_bearing_types": len(bearing)}, held=not hits)
    for fid, site, ty in hits:
        run.finding(Finding(R9, fid, "a value of secret-bearing type %s is formatted" % pp.short(ty), site=site))
    R10 = "C12.R10"
    run.rule(R10, "paying an invoice never hands out the payer's secret excess: a stored context counts as 'the invoicer's own (self-sent invoice)' only if it holds no inputs; the payer's own context from an earlier call is a replay and is refused before anything is built", floor=1)
    pit = ctx.fn(c.LW + "api_impl::owner::process_invoice_tx")
    if pit is None:
        run.error("C12.R10: process_invoice_tx not found")
    else:
        gpc = cfg.find_calls(pit, c.WB + "get_private_context")
        ais = {b for b, _t in cfg.find_calls(pit, c.LW + "internal::tx::add_inputs_to_slate")}
        ok_edges = set()
        for b, _t in gpc:
            ok_edges |= cfg.call_guard(pit, b).fail  # no stored context: the ordinary case
        for b, t in pit.calls():
            if (t.get("f") or "").endswith("::is_empty") and vf.has_field(vf.producers(pit, t["a"][0]) | vf.origins(pit, t["a"][0]), c.LW + "types::Context", "input_ids") and vf.has_call(vf.origins(pit, t["a"][0]), c.WB + "get_private_context"):
                ok_edges |= cfg.call_guard(pit, b).ok
        held = bool(gpc) and bool(ais) and bool(ok_edges) and cfg.must_pass(pit, ok_edges, ais)[0]
        if not gpc or not ais:
            run.error("C12.R10: get_private_context / add_inputs_to_slate not found in process_invoice_tx")
        run.instance(R10, {"fn": "owner::process_invoice_tx", "obligation": "the invoice is answered only if no context is stored for it, or the stored one holds no inputs (the invoicer's, self-sent)"}, held=held)
        if not held:
            run.finding(Finding(R10, pit.id, "a second process_invoice_tx for the same invoice (before tx_lock_outputs) finds the payer's own stored context, takes it for the invoicer's of a self-sent invoice and leaves inputs and outputs out of the offset: the reply's offset is the negated secret excess of the payer", site=pit.loc()))
        # ... nor the context of a pending late-locked send with that id (it holds no inputs yet either): the
        # recipient of such a send knows its id and could issue an invoice under it
        from .shared import option_field_none_edges
        ll_none = option_field_none_edges(pit, c.LW + "types::Context", "late_lock_args")
        no_ctx = set()
        for b, _t in gpc:
            no_ctx |= cfg.call_guard(pit, b).fail
        held_ll = bool(gpc) and bool(ais) and bool(ll_none) and cfg.must_pass(pit, no_ctx | ll_none, ais)[0]
        run.instance(R10, {"fn": "owner::process_invoice_tx", "obligation": "a stored context with pending late-lock arguments (a late-locked send of this wallet under the same id) is not taken for the invoicer's", "none edges": len(ll_none)}, held=held_ll)
        if not held_ll:
            run.finding(Finding(R10, pit.id, "an invoice issued under the id of a pending late-locked send finds that send's stored context (no inputs yet), is answered as a self-sent invoice - the reply's offset is the negated secret excess of the payer - and the merged context overwrites the send's", site=pit.loc()))
    R11 = "C12.R11"
    run.rule(R11, "a context that has signed is not left in the store: an API step that hands out a partial signature made with a context's (sec_key, sec_nonce) does not also store that context for a later step, unless that step deletes it - a second signature with the same nonce over another message reveals the key", floor=3)
    TX11 = c.LW + "internal::tx::"
    FR2 = c.LW + "slate::Slate::fill_round_2"
    signers = {}
    for hid in (TX11 + "add_inputs_to_slate", TX11 + "add_output_to_slate", TX11 + "complete_tx"):
        h = ctx.fn(hid)
        if h is None:
            run.error("C12.R11: %s not found" % hid)
            continue
        fb = {b for b, _t in cfg.find_calls(h, FR2)}
        if not fb:
            continue
        cond = None
        for i in range(1, h.argc + 1):
            if h.locals[i]["ty"] != "bool":
                continue
            g = cfg.local_guard(h, i)
            if g.fail and cfg.must_pass(h, g.fail, fb)[0]:
                cond = i
        signers[hid] = cond  # None: signs unconditionally; i: signs iff parameter i is false
    n11 = 0
    for fid, f in sorted(db.fns.items()):
        if not (fid.startswith(c.LW + "api_impl::owner::") or fid.startswith(c.LW + "api_impl::foreign::")) or "{closure" in fid:
            continue
        signs = []
        for b, t in f.calls():
            callee = t.get("f") or ""
            if callee == FR2:
                signs.append((b, "fill_round_2"))
            elif callee in signers:
                ci = signers[callee]
                if ci is None or vf.const_of_operand(f, t["a"][ci - 1]) != "1":
                    signs.append((b, callee.split("::")[-1]))
        if not signs:
            continue
        n11 += 1
        saves = cfg.find_calls(f, c.WOB + "save_private_context")
        deletes = ctx.eff.effect_blocks(f, {"delete_private_context"})
        later = False
        if saves and not deletes and fid.endswith("::process_invoice_tx"):
            # the payer's part ends with the reservation step: tx_lock_outputs deletes the context of an Invoice2
            # slate, after lock_tx_context Ok and before it returns Ok (except on the branch of a look-up of the
            # wallet's own TxReceived entry: an invoice the wallet pays to itself is finalized from this context)
            tlo = ctx.fn(c.LW + "api_impl::owner::tx_lock_outputs")
            if tlo is not None:
                dl = ctx.eff.effect_blocks(tlo, {"delete_private_context"})
                lk = set()
                for lb, _lt in cfg.find_calls(tlo, c.LW + "internal::selection::lock_tx_context"):
                    lk |= cfg.call_guard(tlo, lb).ok
                inv2 = [x for x in cfg.comparisons(tlo) if ("agg", c.LW + "slate::SlateState", "Invoice2") in (vf.producers(tlo, x.l) | vf.producers(tlo, x.r) | vf.origins(tlo, x.l) | vf.origins(tlo, x.r))]
                guarded = False
                for x in inv2:
                    te = x.true_edges if x.op == "Eq" else x.false_edges
                    if dl and te and all(cfg.must_pass(tlo, te, {d})[0] for d in dl):
                        guarded = True
                later = bool(dl) and bool(lk) and all(cfg.must_pass(tlo, lk, {d})[0] for d in dl) and guarded
        held = not saves or bool(deletes) or later
        run.instance(R11, {"fn": pp.short(fid), "signs through": sorted({w for _b, w in signs}), "stores the context": bool(saves), "deletes it": bool(deletes), "deleted by the step that ends the signer's part (tx_lock_outputs, Invoice2)": later}, held=held)
        if not held:
            run.finding(Finding(R11, fid, "%s hands out a partial signature made with the context's key and nonce and stores that context; nothing in the payer's flow deletes it, and foreign finalize_tx (Standard2 arm) signs with whatever context is stored under the slate id: a crafted Standard2 slate with the id of a paid invoice gets a second signature with the same nonce over another message (key and nonce recoverable)" % fid.split("::")[-1], site=c.site_of(f, saves[0][0])))
    if n11 < 3:
        run.error("C12.R11: expected at least three signing API steps (receive_tx, process_invoice_tx, finalize_tx), found %d" % n11)
    run.not_decided += ["quality of the RNG; that no two nonces ever collide", "recoverability of plaintext from arbitrary emitted byte strings (runtime observation)", "crash points between file operations as executions (R5 gives the order constraints only)"]
