"""C10 - Encrypted slatepacks: confidentiality and tamper evidence (structural clauses)."""
from . import common as c
from .. import cfg, valueflow as vf, pp
from ..callgraph import non_production
from ..engine import Finding

T = c.LW + "slatepack::types::"
SP = T + "Slatepack"
META = T + "SlatepackEncMetadata"
ENC = SP + "::try_encrypt_payload"
DEC = SP + "::try_decrypt_payload"
ARMOR = c.LW + "slatepack::armor::"


def field_path(place):
    return [e["n"] for e in place[1] if isinstance(e, dict) and "f" in e]


def assigns(fn, path):
    """[(bb, stmt)] assigning exactly to self.<path> (through derefs)."""
    out = []
    for b, bb in enumerate(fn.bbs):
        if bb["cleanup"]:
            continue
        for s in bb["s"]:
            if s["k"] == "a" and field_path(s["d"]) == path and s["d"][0] == 1:
                out.append((b, s))
    return out


def run(ctx):
    run = ctx.run
    db = ctx.db
    f = ctx.fn(ENC)
    R1 = "C10.R1"
    run.rule(R1, "try_encrypt_payload: sender moves inside the ciphertext; payload replaced by encryptor output", floor=4)
    R2 = "C10.R2"
    run.rule(R2, "no sender address is left in a field that an encoder serialises next to the ciphertext", floor=2)
    if f:
        fl = vf.get_flow(f)
        mode1 = [(b, s) for b, s in assigns(f, ["mode"]) if vf.const_of_operand(f, s["r"]["o"]) == "1"] if assigns(f, ["mode"]) else []
        if len(mode1) != 1:
            run.error("C10.R1: assignment self.mode = 1 not found in try_encrypt_payload")
        else:
            mb = mode1[0][0]
            # sender cleared
            none_sender = [(b, s) for b, s in assigns(f, ["sender"]) if ("agg", "core::option::Option", "None") in fl.of_rvalue(s["r"])]
            edges = {(b, x) for b, _s in none_sender for x in f.succ(b)}
            h = bool(edges) and cfg.must_pass(f, edges, {mb})[0]
            run.instance(R1, {"fn": "try_encrypt_payload", "obligation": "every path to mode = 1 passes self.sender = None"}, held=h)
            if not h:
                run.finding(Finding(R1, ENC, "mode = 1 reachable without clearing the plaintext sender", site=f.loc()))
            # encrypted metadata gets the sender
            ms = assigns(f, ["encrypted_meta", "sender"])
            h = any(vf.has_field(fl.of_rvalue(s["r"]), SP, "sender") for _b, s in ms)
            run.instance(R1, {"fn": "try_encrypt_payload", "obligation": "encrypted metadata receives the sender before it is cleared"}, held=h)
            if not h:
                run.finding(Finding(R1, ENC, "sender is not copied into the encrypted metadata", site=f.loc()))
            # what is encrypted: writer.write_all(&to_encrypt) where to_encrypt derives from metadata bytes and payload
            wa = cfg.find_calls(f, "std::io::Write::write_all")
            h = False
            for b, t in wa:
                o = vf.origins(f, t["a"][1])
                if vf.has_call(o, c.UTIL + "byte_ser::to_bytes") and vf.has_field(o, SP, "payload") and vf.has_field(o, SP, "encrypted_meta"):
                    h = True
            run.instance(R1, {"fn": "try_encrypt_payload", "obligation": "plaintext handed to the age writer = to_bytes(encrypted_meta) ++ payload"}, held=h)
            if not h:
                run.finding(Finding(R1, ENC, "age plaintext no longer covers metadata and payload", site=f.loc()))
            # payload replaced by encryptor output; finish() Ok required
            pa = assigns(f, ["payload"])
            h = False
            for b, s in pa:
                o = fl.of_rvalue(s["r"])
                if vf.has_call(o, "age::Encryptor::wrap_output") or vf.has_call(o, "age::protocol::Encryptor::wrap_output") or any(x[0] in ("call", "mutcall") and "wrap_output" in x[1] for x in o):
                    if not vf.has_field(o, SP, "payload"):
                        h = cfg.must_pass(f, {(b, x) for x in f.succ(b)}, {mb})[0]
            run.instance(R1, {"fn": "try_encrypt_payload", "obligation": "self.payload is overwritten with the encryptor's output buffer before mode = 1"}, held=h)
            if not h:
                run.finding(Finding(R1, ENC, "payload not replaced by ciphertext before mode = 1", site=f.loc()))
            fin = [(b, t) for b, t in f.calls() if (t.get("f") or "").endswith("StreamWriter::<W>::finish") or (t.get("f") or "").endswith("::finish")]
            if fin:
                e = set()
                for b, _t in fin:
                    e |= cfg.call_guard(f, b).ok
                h = bool(e) and cfg.must_pass(f, e, {mb})[0]
            else:
                h = False
            run.instance(R1, {"fn": "try_encrypt_payload", "obligation": "mode = 1 requires the age stream to be finished Ok"}, held=h)
            if not h:
                run.finding(Finding(R1, ENC, "mode = 1 reachable without finishing the age stream", site=f.loc()))

            # R2: sender-bearing fields read by encoders must be None at mode = 1
            sender_fields = [["sender"], ["encrypted_meta", "sender"]]
            encoders = [k for k, fn_ in db.fns.items() if fn_.impl_trait in ("serde::ser::Serialize", "grin_core::ser::Writeable") and (fn_.self_adt in (SP, T + "SlatepackBin")) and "{closure" not in k]
            if len(encoders) < 3:
                run.error("C10.R2: expected >= 3 Slatepack encoders (derive Serialize, SlatepackBin Serialize/Writeable), found %d" % len(encoders))
            reads = {}
            for k in encoders:
                fn_ = db.fns[k]
                seen = set()
                for b, bb in enumerate(fn_.bbs):
                    for s in bb["s"]:
                        if s["k"] != "a":
                            continue
                        r = s["r"]
                        ps = []
                        if "p" in r:
                            ps.append(r["p"])
                        for key in ("o", "l", "r"):
                            if isinstance(r.get(key), dict) and vf.op_place(r[key]):
                                ps.append(vf.op_place(r[key]))
                        for p in ps:
                            for e in p[1]:
                                if isinstance(e, dict) and e.get("a") == SP:
                                    seen.add(e["n"])
                reads[k] = seen
            for path in sender_fields:
                readers = [k for k, s in reads.items() if path[0] in s]
                # the field must be None at mode=1: a None assignment must-pass to mb, with no later non-None assignment
                asg = assigns(f, path)
                nones = [(b, s) for b, s in asg if ("agg", "core::option::Option", "None") in fl.of_rvalue(s["r"]) and not vf.has_field(fl.of_rvalue(s["r"]), SP, "sender")]
                edges = {(b, x) for b, _s in nones for x in f.succ(b)}
                cleared = bool(edges) and cfg.must_pass(f, edges, {mb})[0]
                if cleared:
                    # no non-None assignment after the clearing one on the way to mb
                    for b, s in asg:
                        if (b, s) in nones:
                            continue
                        for nb, _ns in nones:
                            after = cfg.reach(f, starts=f.succ(nb))
                            if b in after and mb in cfg.reach(f, starts=[b]):
                                cleared = False
                held = cleared or not readers
                run.instance(R2, {"field": "Slatepack." + ".".join(path), "read_by_encoders": [pp.short(k) for k in readers], "cleared_before_mode_1": cleared}, held=held)
                if not held:
                    run.finding(Finding(R2, ENC, "Slatepack.%s still holds the sender when mode = 1 and is serialised by an encoder" % ".".join(path), site=f.loc(),
                                        detail="encoders reading it: %s" % [pp.short(k) for k in readers]))

    if f:
        # every recipient gets a key slot: the keys handed to age derive from the whole `recipients` parameter through
        # map/collect only (no slicing, take, skip, filter, first, ...)
        wr = [(b, t) for b, t in f.calls() if (t.get("f") or "").endswith("Encryptor::with_recipients")]
        held = len(wr) == 1
        chain = []
        if held:
            ALLOWED = ("IntoIterator::into_iter", "Iterator::map", "Iterator::collect", "::iter", "Iterator::cloned")
            o = wr[0][1]["a"][0]
            for _ in range(12):
                pr = vf.producers(f, o)
                calls = [x for x in pr if x[0] == "call"]
                if any(x[0] == "arg" and x[1] == 2 for x in pr) and not calls:
                    chain.append("recipients")
                    break
                if len(calls) != 1 or not calls[0][1].endswith(ALLOWED):
                    held = False
                    chain.append("?" + (calls[0][1].split("::")[-1] if calls else "none"))
                    break
                chain.append(calls[0][1].split("::")[-1])
                o = f.bbs[calls[0][2]]["t"]["a"][0]
            else:
                held = False
            held = held and chain and chain[-1] == "recipients"
        run.instance(R1, {"fn": "try_encrypt_payload", "obligation": "age::Encryptor::with_recipients receives one key per element of the recipients parameter", "chain": chain}, held=held)
        if not held:
            run.finding(Finding(R1, ENC, "the recipient keys handed to the encryptor are not derived from the whole recipients list", site=f.loc(), detail=" <- ".join(chain)))
    R3 = "C10.R3"
    run.rule(R3, "decryption gate: payload/sender/mode rewritten only after Decryptor::decrypt Ok; errors are returned", floor=4)
    d = ctx.fn(DEC)
    if d:
        decs = [(b, t) for b, t in d.calls() if (t.get("f") or "").endswith("RecipientsDecryptor::<R>::decrypt") or ((t.get("f") or "").startswith("age::") and (t.get("f") or "").endswith("::decrypt"))]
        if len(decs) != 1:
            run.error("C10.R3: age decrypt call not found in try_decrypt_payload (%d)" % len(decs))
        else:
            g = cfg.call_guard(d, decs[0][0])
            rd = cfg.find_calls(d, "std::io::Read::read_to_end")
            ge = g.ok
            for path in (["payload"], ["sender"], ["mode"]):
                bs = {b for b, _s in assigns(d, path)}
                h = bool(bs) and cfg.must_pass(d, ge, bs)[0]
                run.instance(R3, {"fn": "try_decrypt_payload", "obligation": "self.%s assigned only after age decrypt Ok" % ".".join(path)}, held=h)
                if not h:
                    run.finding(Finding(R3, DEC, "self.%s written without a successful age decryption" % ".".join(path), site=d.loc()))
            # provenance: what is written back is exactly what was decrypted, nothing from the clear-text envelope
            EM = c.LW + "slatepack::types::SlatepackEncMetadata"
            SPK = c.LW + "slatepack::types::Slatepack"
            want = {
                "payload": lambda pr: any(x[0] == "call" and x[1].endswith("::split_off") for x in pr),
                "sender": lambda pr: ("field", EM, "sender") in pr and any(x[0] == "call" and x[1].endswith("byte_ser::from_bytes") for x in pr),
                "recipients": lambda pr: ("field", EM, "recipients") in pr and any(x[0] == "call" and x[1].endswith("byte_ser::from_bytes") for x in pr),
            }
            for path, key in ((["payload"], "payload"), (["sender"], "sender"), (["encrypted_meta", "recipients"], "recipients")):
                for b, st in assigns(d, path):
                    r = st["r"]
                    pr = vf.producers(d, r["o"]) if r["k"] == "use" else set([("complex", r["k"], "")])
                    envelope = [x for x in pr if x[0] == "field" and x[1] == SPK]
                    other_calls = [x for x in pr if x[0] == "call" and not (x[1].endswith("::split_off") or x[1].endswith("byte_ser::from_bytes"))]
                    h = want[key](pr) and not envelope and not other_calls and not any(x[0] in ("complex", "arg", "const") for x in pr)
                    run.instance(R3, {"fn": "try_decrypt_payload", "obligation": "self.%s := the decrypted value only (no clear-text envelope field, no other source)" % ".".join(path), "producers": sorted(map(str, pr))[:6]}, held=h)
                    if not h:
                        run.finding(Finding(R3, DEC, "self.%s after decryption does not come solely from the decrypted data" % ".".join(path), site=c.site_of(d, b), detail=str(sorted(map(str, pr)))[:300]))
            # ... and it is written back unconditionally: no path reaches mode = 0 keeping the clear-text envelope's
            # own sender / payload (an inserted outer `sender` would otherwise survive decryption unnoticed)
            m0 = {b for b, _s in assigns(d, ["mode"])}
            for path in (["payload"], ["sender"]):
                ed = {(b, x) for b, _s in assigns(d, path) for x in d.succ(b)}
                h = bool(ed) and bool(m0) and cfg.must_pass(d, ed, m0)[0]
                run.instance(R3, {"fn": "try_decrypt_payload", "obligation": "every path to mode = 0 overwrites self.%s with the decrypted value" % ".".join(path)}, held=h)
                if not h:
                    run.finding(Finding(R3, DEC, "mode = 0 is reachable with self.%s still holding the clear-text envelope's value" % ".".join(path), site=d.loc()))
            # every read from the decrypting stream propagates its error (a failed chunk tag is an error, not end of data)
            reads = [(b, t) for b, t in d.calls() if (t.get("f") or "").startswith("std::io::Read::")]
            for b, t in reads:
                g_ = cfg.call_guard(d, b)
                okh = bool(g_.ok or g_.fail)
                if okh and g_.fail:
                    par = cfg.reach(d, starts=[dd for (_s, dd) in g_.fail], cut_nodes=cfg.error_return_blocks(d))
                    okh = not any(bb_ in par for bb_ in cfg.return_blocks(d))
                run.instance(R3, {"fn": "try_decrypt_payload", "obligation": "an error of %s on the decrypting reader is returned" % t["f"].split("::")[-1], "site": c.site_of(d, b)}, held=okh)
                if not okh:
                    run.finding(Finding(R3, DEC, "an error while reading the authenticated stream is swallowed (truncated or tampered ciphertext would be accepted)", site=c.site_of(d, b)))
            if rd:
                re_ = set()
                for b, _t in rd:
                    re_ |= cfg.call_guard(d, b).ok
                bs = {b for b, _s in assigns(d, ["mode"])}
                h = bool(re_) and cfg.must_pass(d, re_, bs)[0]
                run.instance(R3, {"fn": "try_decrypt_payload", "obligation": "mode = 0 requires the whole authenticated stream to be read Ok (read_to_end)"}, held=h)
                if not h:
                    run.finding(Finding(R3, DEC, "mode reset without reading the authenticated stream to its end", site=d.loc()))
            elif not reads:
                run.error("C10.R3: no read from the decrypting stream found in try_decrypt_payload")
    pk = c.LW + "slatepack::packer::Slatepacker::<'a>::deser_slatepack"
    pf = ctx.fn(pk)
    if pf:
        dpp = c.param(pf, "decrypt", "bool")
        dp = [dpp] if dpp is not None else []
        if not dp:
            run.error("C10.R3: parameter `decrypt` of deser_slatepack not found")
        else:
            gd = cfg.local_guard(pf, dp[0])
            de, _n = c.guard_edges(ctx, pf, DEC, R3)
            c.require_pass(ctx, R3, pk, ("edges", gd.fail | de, "{decrypt == false, try_decrypt_payload Ok}"), ("okret",), "deser_slatepack(decrypt = true): a decrypt error is returned, not swallowed")

    R4 = "C10.R4"
    run.rule(R4, "armor: decode Ok needs header, footer and checksum; one checksum function for encode and decode", floor=5)
    dec = ARMOR + "SlatepackArmor::decode"
    for g in ("check_header", "check_footer", "error_check"):
        c.require_pass(ctx, R4, dec, ARMOR + g, ("okret",), "SlatepackArmor::decode Ok requires %s Ok" % g)
    ec = ctx.fn(ARMOR + "error_check")
    if ec:
        eqs = [(b, t) for b, t in ec.calls() if (t.get("f") or "").endswith("Iterator::eq") or (t.get("f") or "") == "core::cmp::PartialEq::eq"]
        # a folded comparison: differences must be accumulated with |, never with ^ or + (differences would cancel)
        folds = [fn_ for k, fn_ in db.fns.items() if k.startswith(ARMOR + "error_check::{closure")]
        cancelling = [fn_ for fn_ in folds for bb in fn_.bbs for st in bb["s"]
                      if st["k"] == "a" and st["d"] == [0, []] and st["r"]["k"] == "bin" and st["r"]["op"] in ("BitXor", "Add", "AddWithOverflow", "Sub", "SubWithOverflow", "BitAnd")]
        if cancelling:
            run.instance(R4, {"fn": "error_check", "obligation": "Ok only if the supplied code equals all of generate_check(slate bytes)"}, held=False)
            run.finding(Finding(R4, ec.id, "error_check folds the byte differences with an operator under which they cancel (^, +, -, &): a corrupted text whose differences cancel passes the checksum", site=ec.loc()))
        elif len(eqs) != 1:
            run.error("C10.R4: iterator equality not found in error_check")
        else:
            b, t = eqs[0]
            g = cfg.call_guard(ec, b)
            h = cfg.must_pass(ec, g.ok, cfg.return_blocks(ec), cut_nodes=cfg.error_return_blocks(ec))[0]
            o0, o1 = vf.origins(ec, t["a"][0]), vf.origins(ec, t["a"][1])
            h2 = (("arg", 1) in o0 and vf.has_call(o1, ARMOR + "generate_check")) or (("arg", 1) in o1 and vf.has_call(o0, ARMOR + "generate_check"))
            # generate_check is applied to the slate bytes parameter
            gc = cfg.find_calls(ec, ARMOR + "generate_check")
            h3 = bool(gc) and all(("arg", 2) in vf.origins(ec, tt["a"][0]) for _b, tt in gc)
            # no truncation of either side: no slicing calls in error_check
            h4 = not any(((tt.get("f") or "").startswith("core::ops::index::Index") and "core::ops::range::RangeFull" not in (tt.get("ga") or [])) or "take" in (tt.get("f") or "").split("::")[-1] for _b, tt in ec.calls())
            run.instance(R4, {"fn": "error_check", "obligation": "Ok only if the supplied code equals all of generate_check(slate bytes)"}, held=h and h2 and h3 and h4)
            if not (h and h2 and h3 and h4):
                run.finding(Finding(R4, ec.id, "error_check no longer compares the whole code with generate_check(slate bytes)", site=ec.loc(), detail="okpath=%s operands=%s arg=%s nosubslice=%s" % (h, h2, h3, h4)))
    # decode passes (first 4 bytes, rest) ; encode uses generate_check via base58check
    df = ctx.fn(dec)
    if df:
        for b, t in cfg.find_calls(df, ARMOR + "error_check"):
            o0, o1 = vf.origins(df, t["a"][0]), vf.origins(df, t["a"][1])
            h = vf.has_call(o0, "bs58::decode::DecodeBuilder::<'a, I>::into_vec") and vf.has_call(o1, "bs58::decode::DecodeBuilder::<'a, I>::into_vec")
            run.instance(R4, {"fn": "SlatepackArmor::decode", "obligation": "code and data handed to error_check both come from the base58-decoded buffer"}, held=h)
            if not h:
                run.finding(Finding(R4, dec, "error_check arguments do not come from the decoded buffer", site=c.site_of(df, b)))
    b58 = ctx.fn(ARMOR + "base58check")
    if b58:
        n = len(cfg.find_calls(b58, ARMOR + "generate_check"))
        run.instance(R4, {"fn": "base58check", "obligation": "encoder computes the checksum with the same generate_check"}, held=n == 1)
        if n != 1:
            run.finding(Finding(R4, b58.id, "encoder does not use generate_check", site=b58.loc()))
    R5 = "C10.R5"
    run.rule(R5, "every slatepack the packer returns went through try_encrypt_payload (which encrypts whenever recipients are given): no condition in between", floor=1)
    PACK = c.LW + "slatepack::packer::Slatepacker::<'a>::create_slatepack"
    if ctx.fn(PACK) is None:
        run.error("C10.R5: Slatepacker::create_slatepack not found")
    else:
        c.require_pass(ctx, R5, PACK, c.LW + "slatepack::types::Slatepack::try_encrypt_payload", ("okret",), "create_slatepack Ok requires try_encrypt_payload Ok on every path")
    R6 = "C10.R6"
    run.rule(R6, "the address key of derivation index i depends on i ('no other key' includes the same wallet's keys at other indices): address_from_derivation_path writes the index into the last path element inside the depth it hands to the key derivation (which walks path[0..depth])", floor=1)
    afd = ctx.fn(c.LW + "address::address_from_derivation_path")
    if afd is None:
        run.error("C10.R6: address::address_from_derivation_path not found")
    else:
        KP = "grin_keychain::types::ExtKeychainPath"

        def _is_depth(pl):
            return bool(pl) and len(pl[1]) >= 1 and isinstance(pl[1][-1], dict) and pl[1][-1].get("n") == "depth" and (pl[1][-1].get("a") or "").startswith(KP)

        depth_writes = [(b, i, st) for b, bb in enumerate(afd.bbs) for i, st in enumerate(bb["s"]) if st["k"] == "a" and _is_depth(st["d"])]

        def _after(b, i, wb, wi):
            if b == wb:
                return i > wi
            return b not in cfg.reach(afd, cut_nodes=frozenset({wb}))

        def _ev(o, at, depth=0):
            """operand -> ('const', n) | ('depth', 'pre'|'post', k) | None"""
            if depth > 12:
                return None
            cv = vf.const_of_operand(afd, o)
            if cv is not None and str(cv).lstrip("-").isdigit():
                return ("const", int(cv))
            pl = vf.op_place(o)
            if pl is None:
                return None
            if _is_depth(pl):
                post = [w for w in depth_writes if _after(at[0], at[1], w[0], w[1])]
                return ("depth", "post" if post else "pre", 0)
            l = pl[0]
            proj = pl[1]
            ds = afd.defs().get(l, [])
            if len(ds) != 1 or ds[0][0] != "a":
                return None
            _k, db_, di_, st = ds[0]
            r = st["r"]
            if r["k"] == "use" or r["k"] == "cast":
                if proj:
                    return None
                return _ev(r["o"], (db_, di_), depth + 1)
            if r["k"] == "bin" and r["op"] in ("AddWithOverflow", "SubWithOverflow", "Add", "Sub"):
                a_, b_ = _ev(r["l"], (db_, di_), depth + 1), _ev(r["r"], (db_, di_), depth + 1)
                if a_ is None or b_ is None or b_[0] != "const":
                    return None
                sign = 1 if r["op"].startswith("Add") else -1
                if a_[0] == "const":
                    return ("const", a_[1] + sign * b_[1])
                return ("depth", a_[1], a_[2] + sign * b_[1])
            return None

        # the write of the index into the path
        idx_writes = []
        for b, bb in enumerate(afd.bbs):
            for i, st in enumerate(bb["s"]):
                d = st.get("d")
                if st["k"] == "a" and d and len(d[1]) >= 2 and isinstance(d[1][-1], dict) and "ix" in d[1][-1] and isinstance(d[1][-2], dict) and d[1][-2].get("n") == "path":
                    src = vf.origins(afd, st["r"]["o"]) if st["r"]["k"] == "use" else set()
                    if ("arg", 3) in src or any(x[0] == "arg" and x[1] == 3 for x in src):
                        idx_writes.append((b, i, d[1][-1]["ix"]))
        if len(idx_writes) != 1:
            run.error("C10.R6: expected one write of the index parameter into key_path.path[..], found %d" % len(idx_writes))
        else:
            b, i, ixl = idx_writes[0]
            slot = _ev({"c": [ixl, []]}, (b, i))
            # net change of depth (each write must be depth := depth + const)
            net, okd = 0, True
            for wb, wi, st in depth_writes:
                v = _ev(st["r"]["o"], (wb, wi)) if st["r"]["k"] == "use" else None
                if v is None or v[0] != "depth":
                    okd = False
                else:
                    net = v[2] if v[1] == "pre" else net + v[2]
            rel = None
            if slot is not None and okd and slot[0] == "depth":
                rel = slot[2] - (net if slot[1] == "pre" else 0)
            held = rel == -1
            run.instance(R6, {"fn": "address_from_derivation_path", "obligation": "index written to path[final depth - 1]", "slot": str(slot), "depth change": net, "slot - final depth": rel}, held=held)
            if not held:
                run.finding(Finding(R6, afd.id, "the derivation index is not written into the last path element inside the depth handed to the key derivation: every index of an account yields the same address key (a slatepack for the address at index i opens with the key at any index j)" if rel is not None else "the slot the derivation index is written to could not be related to the path depth", site=c.site_of(afd, b), detail="slot=%s, depth change=%s" % (slot, net)))
    run.not_decided += ["'no other key decrypts' / 'any payload edit is rejected' (age AEAD semantics)", "that a 4-byte checksum catches every edit (probabilistic)", "round-trip equality (C08)"]
