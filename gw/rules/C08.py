"""C08 - Slate and slatepack encodings round-trip and agree with each other (necessary structural conditions)."""
import re

from . import common as c
from .. import cfg, codec, dectree, valueflow as vf, pp
from ..callgraph import non_production
from ..engine import Finding

V4 = c.LW + "slate_versions::v4::"
V4B = c.LW + "slate_versions::v4_bin::"
SLATE = c.LW + "slate::"
SPT = c.LW + "slatepack::types::"

CODEC_PAIRS = [
    "SlateV4Bin", "SlateOptFields", "SigsWrap", "SlateOptStructs", "ComsWrap", "ProofWrap", "UuidWrap", "SlateStateV4",
    "SlatepackBin", "SlatepackVersion", "SlatepackEncMetadataBin", "SlatepackAddress",
    # stored wallet records (length-prefixed JSON)
    "OutputData", "TxLogEntry", "Context", "AcctPathMapping", "StoredProofInfo", "ScannedBlockInfo", "WalletInitStatus",
]


_SPLIMIT = "cannot exceed the prefix: the value is bounded by the slatepack size limits - a probe with 65537 recipients (4.2 MB) is refused by the reader with 'too large read' before any count could wrap (triage/build-phase/c08)"
R7_ALLOW = {
    ("<" + SPT + "SlatepackBin as grin_core::ser::Writeable>::write", "opt_fields_len as u32"): "length of the optional header fields (one slatepack address, < 100 bytes)",
    ("<" + SPT + "SlatepackEncMetadataBin as grin_core::ser::Writeable>::write", "encoded_len as u32"): _SPLIMIT,
    ("<" + SPT + "SlatepackEncMetadataBin as grin_core::ser::Writeable>::write", "len as u16"): _SPLIMIT,
}


def impl_fn(db, trait, name, method):
    for fid, f in db.fns.items():
        if f.impl_trait == trait and f.dk == "AssocFn" and fid.endswith("::" + method) and codec.norm_type(f.self_ty or "") == name and "{closure" not in fid:
            return f
    return None


# ---------------------------------------------------------------------------
# R2 helpers


def bitmask_tests(fn):
    """[(mask, Cmp)] for tests of the form (x & MASK) > 0 / != 0."""
    out = []
    for x in cfg.comparisons(fn):
        if x.is_call or x.op not in ("Gt", "Ne", "Eq"):
            continue
        p = vf.op_place(x.l)
        if p is None or p[1]:
            continue
        for d in fn.defs().get(p[0], []):
            if d[0] == "a" and d[3]["r"]["k"] == "bin" and d[3]["r"]["op"] == "BitAnd":
                m = vf.const_of_operand(fn, d[3]["r"]["r"])
                if m is not None and vf.const_of_operand(fn, x.r) == "0":
                    out.append((int(m), x))
    return out


def bit_sets(fn):
    """[(mask, block)] for statements status |= MASK."""
    out = []
    for b, bb in enumerate(fn.bbs):
        for s in bb["s"]:
            if s["k"] == "a" and s["r"]["k"] == "bin" and s["r"]["op"] == "BitOr":
                m = vf.const_of_operand(fn, s["r"]["r"])
                if m is not None:
                    out.append((int(m), b))
    return out


def self_fields(fn, o, adts):
    return {x[2] for x in vf.origins(fn, o) if x[0] == "field" and x[1] in adts}


def guards_dominating(fn, b):
    """Fields (any ADT) read by branch conditions whose edge dominates block b."""
    out = set()
    for x in cfg.comparisons(fn):
        for edges in (x.true_edges, x.false_edges):
            if edges and cfg.must_pass(fn, edges, {b})[0]:
                for o in (x.l, x.r):
                    out |= {(y[1], y[2]) for y in vf.origins(fn, o) if y[0] == "field"}
    for cb, t in fn.calls():
        if t.get("dty") == "bool" and t.get("f") not in cfg.CMP_CALLS and t["a"]:
            g = cfg.call_guard(fn, cb)
            for edges in (g.ok, g.fail):
                if edges and cfg.must_pass(fn, edges, {b})[0]:
                    out |= {(y[1], y[2]) for y in vf.origins(fn, t["a"][0]) if y[0] == "field"}
    # match / if-let on a field: a discriminant switch whose edge dominates b
    for sb, bb in enumerate(fn.bbs):
        t = bb["t"]
        if t["k"] != "sw":
            continue
        for st in bb["s"]:
            if st["k"] == "a" and st["r"]["k"] == "disc" and not st["d"][1] and vf.op_place(t["o"]) and vf.op_place(t["o"])[0] == st["d"][0]:
                q = st["r"]["p"]
                flds = {(e.get("a"), e.get("n")) for e in q[1] if isinstance(e, dict) and e.get("n")}
                if not flds:
                    flds = {(y[1], y[2]) for y in vf.producers(fn, {"c": [q[0], []]}) if y[0] == "field"}
                for s_ in fn.succ(sb):
                    if flds and cfg.must_pass(fn, {(sb, s_)}, {b})[0]:
                        out |= flds
    return out


# ---------------------------------------------------------------------------
# R5 helpers

_ATTR_SKIP = re.compile(r'skip_serializing_if\s*=\s*"([^"]+)"')
_ATTR_DEF = re.compile(r'default\s*=\s*"([^"]+)"')


def shape_of_default(f):
    """Descriptor of what a `default = g` function returns."""
    vals = set()
    for b, bb in enumerate(f.bbs):
        for s in bb["s"]:
            if s["k"] == "a" and s["d"] == [0, []]:
                r = s["r"]
                if r["k"] == "use":
                    cv = vf.const_of_operand(f, r["o"])
                    vals.add(("const", cv))
                elif r["k"] == "agg":
                    if r.get("var") == "None":
                        vals.add(("none",))
                    else:
                        vals.add(("agg", r.get("adt"), tuple(vf.const_of_operand(f, o) for _n, o in r["f"])))
        t = bb["t"]
        if t["k"] == "call" and t["d"] == [0, []]:
            vals.add(("call", t.get("f")))
    return vals


def shape_of_skip(f):
    """Descriptor of the predicate `skip_serializing_if = f`."""
    out = set()
    for x in cfg.comparisons(f):
        if x.op != "Eq":
            continue
        cr = vf.const_of_operand(f, x.r)
        pl = vf.producers(f, x.l)
        if cr is not None and any(y[0] == "arg" for y in pl):
            fld = [y for y in pl if y[0] == "field"]
            if fld:
                out.add(("field_eq", fld[0][2], cr))
            else:
                out.add(("eq_const", cr))
        pr = vf.producers(f, x.r)
        for y in pr:
            if y[0] == "call":
                out.add(("eq_call", y[1]))
    for b, t in f.calls():
        if t["d"] == [0, []] and t.get("f") not in cfg.CMP_CALLS:
            out.add(("method", t.get("f")))
    tests = tuple(sorted(t.get("f") for _b, t in f.calls() if t.get("f") in EMPTY_TESTS))
    if tests:
        out.add(("tests", tests))
    return out


ZERO_PAIRS = {
    "grin_core::core::transaction::FeeFields::zero": ("grin_core::core::transaction::FeeFields::is_zero",),
    "alloc::vec::Vec::<T>::new": ("alloc::vec::Vec::<T, A>::is_empty", "core::slice::<impl [T]>::is_empty"),
}
EMPTY_TESTS = ("core::option::Option::<T>::is_none", "alloc::vec::Vec::<T, A>::is_empty", "core::slice::<impl [T]>::is_empty")


def default_satisfies(dshape, sshape):
    # a struct whose every field is None / an empty vector, against a conjunction of is_none / is_empty tests
    aggs = [d for d in dshape if d[0] == "agg"]
    if aggs and all(all(v in ("core::option::Option::None", None) for v in d[2]) for d in aggs):
        methods = [s for s in sshape if s[0] == "method"]
        tests = [s for s in sshape if s[0] == "tests"]
        if tests and all(t in EMPTY_TESTS for t in tests[0][1]) and len(tests[0][1]) >= len(aggs[0][2]):
            return True
    for d in dshape:
        for s in sshape:
            if d[0] == "const" and s[0] == "eq_const" and d[1] == s[1]:
                return True
            if d[0] == "call" and s[0] == "eq_call" and d[1] == s[1]:
                return True
            if d[0] == "call" and s[0] == "method" and s[1] in ZERO_PAIRS.get(d[1], ()):
                return True
            if d[0] == "agg" and s[0] == "field_eq" and len(d[2]) == 1 and d[2][0] == s[2]:
                return True
    return False


def run(ctx):
    run = ctx.run
    db = ctx.db

    R1 = "C08.R1"
    run.rule(R1, "binary codec symmetry: every token string the writer can emit is accepted by the reader (NFA inclusion)", floor=18)
    words = []
    for name in CODEC_PAIRS:
        w = impl_fn(db, "grin_core::ser::Writeable", name, "write")
        r = impl_fn(db, "grin_core::ser::Readable", name, "read")
        if not w or not r:
            run.error("C08.R1: Writeable/Readable pair for %s not found" % name)
            continue
        wn, rn = codec.NFA(w, "w"), codec.NFA(r, "r")
        ok, cex, n = codec.language_included(wn, rn)
        if ok is None:
            run.error("C08.R1: state cap reached for %s" % name)
            continue
        ws = codec.sample_words(wn, 3)
        words.append({"type": name, "writer_words": ws})
        run.instance(R1, {"type": name, "writer_ops": len(wn.tokens), "reader_ops": len(rn.tokens), "product_states": n, "example": ws[-1] if ws else ""}, held=ok and len(wn.tokens) > 0)
        if not ok:
            run.finding(Finding(R1, w.id, "writer can emit a field sequence the reader does not accept", site=w.loc(), detail="prefix: %s" % " ".join(cex)))
        # and the converse for fixed layouts: reader's mandatory tokens are emitted (reader included in writer)
        ok2, cex2, _n2 = codec.language_included(rn, wn)
        if name in ("SlatepackBin", "SlatepackEncMetadataBin"):
            continue  # readers skip unknown future fields (extra u8 reads), by design
        run.instance(R1, {"type": name, "obligation": "reader accepts nothing the writer cannot emit (same optional structure)"}, held=bool(ok2))
        if not ok2:
            run.finding(Finding(R1, r.id, "reader expects a field sequence the writer never emits", site=r.loc(), detail="prefix: %s" % " ".join(cex2 or [])))
    run.samples.extend(words[:6])

    R2 = "C08.R2"
    run.rule(R2, "flag/field tables: the bit that announces an optional field is derived from, and guards, the same field on both sides", floor=6)
    for name, wadt, lit_adt in (("SlateOptFields", V4B + "SlateOptFields", V4B + "SlateOptFields"), ("SlateOptStructs", V4B + "SlateOptStructsRef", V4B + "SlateOptStructs"),
                                ("SlatepackBin", SPT + "Slatepack", SPT + "Slatepack"), ("SlatepackEncMetadataBin", SPT + "SlatepackEncMetadata", SPT + "SlatepackEncMetadata")):
        w = impl_fn(db, "grin_core::ser::Writeable", name, "write")
        r = impl_fn(db, "grin_core::ser::Readable", name, "read")
        if not w or not r:
            continue
        # writer: mask -> fields whose test sets the bit
        wmap = {}
        for m, b in bit_sets(w):
            flds = {f for (a, f) in guards_dominating(w, b) if a == wadt}
            wmap.setdefault(m, set()).update(flds)
        # writer (SlateOptFields form): mask test guarding a write of field F
        wwrite = {}
        for m, x in bitmask_tests(w):
            te = x.true_edges if x.op in ("Gt", "Ne") else x.false_edges
            for b, t in w.calls():
                tok = codec.token_of_call(t, "w")
                if tok and cfg.must_pass(w, te, {b})[0]:
                    flds = set()
                    for a in t["a"][(1 if tok != "T:FeeFields" and not tok.startswith("T:") else 0):]:
                        flds |= {y[2] for y in vf.producers(w, a) if y[0] == "field" and y[1] == wadt}
                    if tok.startswith("T:"):
                        flds = {y[2] for y in vf.producers(w, t["a"][0]) if y[0] == "field" and y[1] == wadt}
                    wwrite.setdefault(m, set()).update(flds)
        # reader: mask -> literal field filled by the guarded read
        rmap = {}
        lits = vf.struct_literals(r, lit_adt)
        tests = bitmask_tests(r)
        for m, x in tests:
            te = x.true_edges if x.op in ("Gt", "Ne") else x.false_edges
            guarded = {b for b, t in r.calls() if codec.token_of_call(t, "r") and cfg.must_pass(r, te, {b})[0]}
            for _lb, ls in lits:
                for fname, o in ls["r"]["f"]:
                    org = vf.origins(r, o)
                    if any(y[0] == "call" and y[2] in guarded for y in org):
                        rmap.setdefault(m, set()).add(fname)
        masks = sorted(set(wmap) | set(rmap) | set(wwrite))
        if not masks:
            run.error("C08.R2: no flag bits found for %s" % name)
        for m in masks:
            wf = wmap.get(m, set())
            rf = rmap.get(m, set())
            ww = wwrite.get(m)
            held = bool(wf) and wf == rf and (ww is None or ww == wf)
            # the reader of Slatepack fills `sender` etc. from locals; map literal names to writer field names directly
            run.instance(R2, {"type": name, "mask": "0x%02x" % m, "bit_set_from": sorted(wf), "write_guarded": sorted(ww) if ww is not None else None, "reader_fills": sorted(rf)}, held=held)
            if not held:
                run.finding(Finding(R2, w.id, "%s flag 0x%02x: set from %s, writes %s, reader fills %s" % (name, m, sorted(wf), sorted(ww or []), sorted(rf)), site=w.loc()))
    # the announcing condition must be 'field present/non-default', not a narrower test: SlateOptFields fee bit
    w = impl_fn(db, "grin_core::ser::Writeable", "SlateOptFields", "write")
    if w:
        for m, b in bit_sets(w):
            if m != 4:
                continue
            calls = set()
            for x in cfg.comparisons(w):
                for edges in (x.true_edges, x.false_edges):
                    if edges and cfg.must_pass(w, edges, {b})[0]:
                        for o in (x.l, x.r):
                            calls |= {y[1] for y in vf.producers(w, o) if y[0] == "call"}
            whole = "grin_core::core::transaction::FeeFields::is_zero" in calls
            held = whole or not any(cn.endswith("FeeFields::fee") for cn in calls)
            run.instance(R2, {"type": "SlateOptFields", "mask": "0x04", "obligation": "the fee bit is set whenever fee_fields is non-zero (not only when fee() > 0)", "condition_calls": sorted(calls)}, held=held)
            if not held:
                run.finding(Finding(R2, w.id, "fee bit tests FeeFields::fee() > 0: a non-zero fee_shift with zero fee is dropped by the binary form", site=w.loc()))

    # ... likewise the bits of SlateOptStructs: an optional struct that is present is announced and written, whatever
    # it holds (the reader turns "not announced" into None: Some([]) and None are different slates - JSON keeps them apart)
    w = impl_fn(db, "grin_core::ser::Writeable", "SlateOptStructs", "write")
    if w:
        PURE = ("Option::<T>::is_some", "Option::<T>::is_none", "Option::<T>::as_ref", "Deref::deref", "Clone::clone", "Option::<&T>::cloned", "Option::<&T>::copied")
        for m, b in bit_sets(w):
            narrowing = set()
            for gb, gt in w.calls():
                gname = gt.get("f") or ""
                if not gname.endswith(("is_some", "is_none")):
                    continue
                g = cfg.call_guard(w, gb)
                if not ((g.ok and cfg.must_pass(w, g.ok, {b})[0]) or (g.fail and cfg.must_pass(w, g.fail, {b})[0])):
                    continue
                for y in vf.producers(w, gt["a"][0]) | vf.origins(w, gt["a"][0]):
                    if y[0] in ("call", "mutcall") and not y[1].endswith(PURE):
                        narrowing.add(y[1])
            held = not narrowing
            run.instance(R2, {"type": "SlateOptStructs", "mask": "0x%02x" % m, "obligation": "the bit is set whenever the optional struct is present (a pure presence test of the field)", "other calls in the condition": sorted(narrowing)}, held=held)
            if not held:
                run.finding(Finding(R2, w.id, "SlateOptStructs flag 0x%02x is not a pure presence test (%s): a present but empty value is written as absent, and the binary / slatepack forms of a slate decode to a different slate than its JSON form" % (m, ", ".join(sorted(x.split("::")[-1] for x in narrowing))), site=w.loc()))

    R3 = "C08.R3"
    run.rule(R3, "enum tables are mutually inverse (SlateStateV4 <-> u8, <-> strings, <-> SlateState; OutputFeatures <-> OutputFeaturesV4)", floor=4)
    # SlateStateV4 <-> u8
    w = impl_fn(db, "grin_core::ser::Writeable", "SlateStateV4", "write")
    r = impl_fn(db, "grin_core::ser::Readable", "SlateStateV4", "read")
    if w and r:
        pw = dectree.PathEnum(w, db)
        wt = {}
        for p in pw.paths(0):
            var = [e[2] for e in p.events if e[0] == "lit" and e[3] is True and isinstance(e[2], str)]
            val = [e[2] for e in p.events if e[0] == "set" and isinstance(e[2], str) and e[2].lstrip("-").isdigit()]
            if var and val:
                wt[var[-1]] = val[-1]
        pr = dectree.PathEnum(r, db)
        rt = {}
        for p in pr.paths(0):
            iv = [e[2] for e in p.events if e[0] == "int"]
            var = [e[2] for e in p.events if e[0] == "set" and isinstance(e[2], str) and e[2] in wt]
            if iv and var and iv[-1] != "else":
                rt[iv[-1]] = var[-1]
        held = len(wt) >= 7 and all(rt.get(v) == k for k, v in wt.items()) and len(set(wt.values())) == len(wt)
        run.instance(R3, {"table": "SlateStateV4 <-> u8", "writer": wt, "reader": rt}, held=held)
        if not held:
            run.finding(Finding(R3, w.id, "SlateStateV4 byte table is not a bijection inverted by the reader", site=w.loc(), detail="%s / %s" % (wt, rt)))
    # string table in ser::slate_state_v4
    ss = ctx.fn(c.LW + "slate_versions::ser::slate_state_v4::serialize")
    sd = None
    for fid, f in db.fns.items():
        if fid.startswith(c.LW + "slate_versions::ser::slate_state_v4::deserialize") and cfg.find_calls(f, "core::cmp::PartialEq::eq") or (fid.startswith(c.LW + "slate_versions::ser::slate_state_v4::deserialize") and any((t.get("f") or "").endswith("as_str") for _b, t in f.calls())):
            sd = f
    if ss:
        pe = dectree.PathEnum(ss, db)
        st = {}
        for p in pe.paths(0):
            var = [e[2] for e in p.events if e[0] == "lit" and e[3] is True and isinstance(e[2], str)]
            strs = [e[2] for e in p.events if e[0] == "set" and isinstance(e[2], str) and e[2].startswith('"')]
            called = any(e[0] == "call" and (e[1] or "").endswith("serialize_str") for e in p.events)
            if var and strs and called:
                st[var[-1]] = strs[-1]
        held = len(st) >= 7 and len(set(st.values())) == len(st)
        # reader side: each string constant appears in the deserializer together with the same variant
        rd = {}
        if sd is not None:
            consts = {}
            for b, bb in enumerate(sd.bbs):
                for s in bb["s"]:
                    if s["k"] == "a" and s["r"]["k"] == "agg" and s["r"].get("adt") == V4 + "SlateStateV4":
                        consts.setdefault(b, s["r"]["var"])
            pe2 = dectree.PathEnum(sd, db)
            try:
                for p in pe2.paths(0, max_paths=4000):
                    lastvar = [e[2] for e in p.events if e[0] == "set" and isinstance(e[2], str) and e[2] in st]
                    # the string compared equal on this path: last true atom of a str eq call
                    eqs = [e for e in p.events if e[0] == "atom" and e[2] is True and e[1].startswith("call@eq")]
                    if lastvar and eqs:
                        sp = eqs[-1][1].split(":", 1)[1]
                        # find the constant string operand of that call
                        for b, t in sd.calls():
                            if t["sp"] == sp:
                                for a in t["a"]:
                                    cv = vf.const_of_operand(sd, a)
                                    if cv and cv.startswith('"'):
                                        rd[cv] = lastvar[-1]
            except dectree.TooManyPaths:
                pass
        ok_inv = bool(rd) and all(rd.get(v) == k for k, v in st.items() if v in rd) and len(rd) >= 7
        run.instance(R3, {"table": "SlateStateV4 <-> JSON strings", "serialize": st, "deserialize": rd}, held=held and (ok_inv or sd is None))
        if not (held and (ok_inv or sd is None)):
            run.finding(Finding(R3, ss.id, "SlateStateV4 string table is not inverted by its deserializer", site=ss.loc(), detail="%s / %s" % (st, rd)))
    # SlateState <-> SlateStateV4
    fwd = [f for fid, f in db.fns.items() if f.impl_trait == "core::convert::From" and f.self_ty == V4 + "SlateStateV4" and "SlateState" in fid and fid.endswith("::from")]
    bwd = [f for fid, f in db.fns.items() if f.impl_trait == "core::convert::From" and f.self_ty == SLATE + "SlateState" and "SlateStateV4" in fid and fid.endswith("::from")]

    def variant_map(f):
        pe = dectree.PathEnum(f, db)
        m = {}
        for p in pe.paths(0):
            var = [e[2] for e in p.events if e[0] == "lit" and e[3] is True and isinstance(e[2], str)]
            out = [e[2] for e in p.events if e[0] == "set" and e[1] == "_0" and isinstance(e[2], str)]
            if var and out:
                m[var[-1]] = out[-1]
        return m

    if fwd and bwd:
        fm, bm = variant_map(fwd[0]), variant_map(bwd[0])
        held = len(fm) >= 7 and all(bm.get(v) == k for k, v in fm.items()) and len(set(fm.values())) == len(fm)
        run.instance(R3, {"table": "SlateState <-> SlateStateV4", "to_v4": fm, "from_v4": bm}, held=held)
        if not held:
            run.finding(Finding(R3, fwd[0].id, "SlateState/SlateStateV4 conversion tables are not mutually inverse", site=fwd[0].loc(), detail="%s / %s" % (fm, bm)))
    else:
        run.error("C08.R3: SlateState <-> SlateStateV4 conversions not found (%d, %d)" % (len(fwd), len(bwd)))
    # OutputFeatures <-> OutputFeaturesV4
    of_f = [f for fid, f in db.fns.items() if f.impl_trait == "core::convert::From" and f.self_ty == V4 + "OutputFeaturesV4" and fid.endswith("::from")]
    of_b = [f for fid, f in db.fns.items() if f.impl_trait == "core::convert::From" and (f.self_ty or "").endswith("OutputFeatures") and "OutputFeaturesV4" in fid and fid.endswith("::from")]
    if of_f and of_b:
        def of_map(f, to_v4):
            pe = dectree.PathEnum(f, db)
            m = {}
            for p in pe.paths(0):
                if to_v4:
                    var = [e[2] for e in p.events if e[0] == "lit" and e[3] is True and isinstance(e[2], str)]
                    out = [e[2] for e in p.events if e[0] == "set" and isinstance(e[2], str)]
                    num = [x for x in out if x and (x.isdigit() or "(..)" in x)]
                    consts = [x for x in out if x and x.isdigit()]
                    if var and consts:
                        m[var[-1]] = consts[-1]
                else:
                    iv = [e[2] for e in p.events if e[0] == "int"]
                    out = [e[2] for e in p.events if e[0] == "set" and e[1] == "_0" and isinstance(e[2], str)]
                    if iv and out and iv[-1] != "else":
                        m[iv[-1]] = out[-1]
            return m
        fm, bm = of_map(of_f[0], True), of_map(of_b[0], False)
        held = len(fm) >= 2 and all(bm.get(v) == k for k, v in fm.items())
        run.instance(R3, {"table": "OutputFeatures <-> OutputFeaturesV4", "to_v4": fm, "from_v4": bm}, held=held)
        if not held:
            run.finding(Finding(R3, of_f[0].id, "OutputFeatures/OutputFeaturesV4 tables are not mutually inverse", site=of_f[0].loc(), detail="%s / %s" % (fm, bm)))

    R4 = "C08.R4"
    run.rule(R4, "conversion field maps Slate <-> SlateV4 (and nested structs) are total and mutually inverse", floor=20)
    PAIRS = [
        (SLATE + "Slate", V4 + "SlateV4"),
        (SLATE + "ParticipantData", V4 + "ParticipantDataV4"),
        (SLATE + "PaymentInfo", V4 + "PaymentInfoV4"),
        (SLATE + "KernelFeaturesArgs", V4 + "KernelFeaturesArgsV4"),
        (SLATE + "VersionCompatInfo", V4 + "VersionCompatInfoV4"),
    ]

    def lit_map(src_adt, dst_adt):
        """dst field -> set(src fields) over all From impls building dst from src."""
        res = []
        for fid, f in db.fns.items():
            if non_production(fid) or f.impl_trait != "core::convert::From" or f.self_ty != dst_adt or not fid.endswith("::from"):
                continue
            if not any(src_adt in (l["ty"] or "") for l in f.locals[1:f.argc + 1]):
                continue
            for b, s in vf.struct_literals(f, dst_adt):
                m = {}
                for fname, o in s["r"]["f"]:
                    m[fname] = {y[2] for y in vf.origins(f, o) if y[0] == "field" and y[1] == src_adt}
                res.append((f, m))
        return res

    for a, b in PAIRS:
        fw = lit_map(a, b)
        bw = lit_map(b, a)
        if not fw or not bw:
            run.error("C08.R4: conversion literals %s <-> %s not found (%d, %d)" % (pp.short(a), pp.short(b), len(fw), len(bw)))
            continue
        # all forward variants agree
        base = fw[0][1]
        for f, m in fw[1:]:
            held = m == base
            run.instance(R4, {"pair": "%s -> %s" % (pp.short(a), pp.short(b)), "obligation": "all From variants build the same field map"}, held=held)
            if not held:
                run.finding(Finding(R4, f.id, "two conversions %s -> %s disagree on their field maps" % (pp.short(a), pp.short(b)), site=f.loc(), detail=str({k: (sorted(base.get(k, [])), sorted(m.get(k, []))) for k in set(base) | set(m) if base.get(k) != m.get(k)})))
        rev = bw[0][1]
        IGNORE_DST = {"tx"}  # Slate.tx is rebuilt from coms (tx_from_slate_v4)
        IGNORE_SRC = {"coms"}
        for dstf, srcs in sorted(base.items()):
            if dstf in IGNORE_SRC:
                held = True
                run.instance(R4, {"pair": "%s.%s" % (pp.short(b), dstf), "from": sorted(srcs), "note": "derived from Slate.tx"}, held=True)
                continue
            # totality: every destination field is fed by exactly one source field
            ok_tot = len(srcs) == 1
            # inverse: the reverse conversion feeds that source field from this destination field
            ok_inv = ok_tot and any(dstf in rsrcs for rf, rsrcs in rev.items() if rf == next(iter(srcs)))
            run.instance(R4, {"pair": "%s.%s" % (pp.short(b), dstf), "from": sorted(srcs), "inverse_ok": ok_inv}, held=ok_tot and ok_inv)
            if not (ok_tot and ok_inv):
                run.finding(Finding(R4, fw[0][0].id, "field %s.%s: fed by %s; reverse conversion does not restore it" % (pp.short(b), dstf, sorted(srcs)), site=fw[0][0].loc()))
        srcs_used = set().union(*base.values()) if base else set()
        src_adt = db.adts.get(a)
        if src_adt:
            allf = {x["name"] for x in src_adt["variants"][0]["fields"]}
            missing = allf - srcs_used - IGNORE_DST
            held = not missing
            run.instance(R4, {"pair": "%s -> %s" % (pp.short(a), pp.short(b)), "obligation": "every source field is carried over", "missing": sorted(missing)}, held=held)
            if not held:
                run.finding(Finding(R4, fw[0][0].id, "fields %s of %s are not carried into %s" % (sorted(missing), pp.short(a), pp.short(b)), site=fw[0][0].loc()))

    R5 = "C08.R5"
    run.rule(R5, "JSON omission rules: every skip_serializing_if has a default whose value satisfies the skip predicate", floor=12)
    mods = {V4: "slate_versions::v4", SPT: "slatepack::types"}
    must_have = (V4 + "SlateV4", V4 + "ParticipantDataV4", V4 + "PaymentInfoV4", V4 + "CommitsV4", SPT + "Slatepack", SPT + "SlatepackEncMetadata")
    for adt_id in must_have:
        if adt_id not in db.adts:
            run.error("C08.R5: %s not found" % adt_id)
    # every workspace type that omits a field on encode (slate forms, slatepacks, stored wallet records, API types)
    all_ids = sorted(a for a in db.adts if a.startswith("grin_wallet") and db.adts[a].get("variants"))
    for adt_id in all_ids:
        adt = db.adts.get(adt_id)
        try:
            if not any("skip_serializing_if" in db.field_attr_text(adt_id, fld["name"]) for v_ in adt["variants"] for fld in v_["fields"]):
                continue
        except Exception:
            continue
        modp = adt_id.rsplit("::", 1)[0] + "::"
        for fld in adt["variants"][0]["fields"]:
            at = db.field_attr_text(adt_id, fld["name"])
            sk = _ATTR_SKIP.search(at)
            if not sk:
                continue
            df = _ATTR_DEF.search(at)
            if not df:
                has_bare_default = re.search(r"\bdefault\b", at) is not None
                run.instance(R5, {"field": "%s.%s" % (pp.short(adt_id), fld["name"]), "skip_if": sk.group(1), "default": None}, held=has_bare_default)
                if not has_bare_default:
                    run.finding(Finding(R5, adt_id, "field %s is omitted when %s but has no serde default: decoding the omitted form fails" % (fld["name"], sk.group(1)), site=adt["sp"]))
                continue
            g = db.fns.get(modp + df.group(1))
            skip_name = sk.group(1)
            if skip_name == "Option::is_none":
                held = g is not None and ("none",) in shape_of_default(g)
                detail = "Option::is_none / %s" % (sorted(map(str, shape_of_default(g))) if g else None)
            else:
                f_ = db.fns.get(modp + skip_name)
                if g is None or f_ is None:
                    held = False
                    detail = "helper functions not found (%s, %s)" % (df.group(1), skip_name)
                else:
                    ds, ss_ = shape_of_default(g), shape_of_skip(f_)
                    held = default_satisfies(ds, ss_)
                    detail = "%s / %s" % (sorted(map(str, ds)), sorted(map(str, ss_)))
            run.instance(R5, {"field": "%s.%s" % (pp.short(adt_id), fld["name"]), "skip_if": skip_name, "default": df.group(1), "shapes": detail}, held=held)
            if not held:
                run.finding(Finding(R5, adt_id, "field %s: default %s does not satisfy skip predicate %s" % (fld["name"], df.group(1), skip_name), site=adt["sp"], detail=detail))

    R6 = "C08.R6"
    run.rule(R6, "sibling agreement on which kernel features carry arguments", floor=4)
    sets = {}
    kf = ctx.fn(SLATE + "Slate::kernel_features")
    if kf:
        pe = dectree.PathEnum(kf, db)
        s_ = set()
        for p in pe.paths(0, stop_at_error=False):
            iv = [e[2] for e in p.events if e[0] == "int"]
            reads = any(e[0] == "lit" and e[1].endswith(".kernel_features_args") for e in p.events)
            if iv and iv[-1] != "else" and reads:
                s_.add(int(iv[-1]))
        sets["Slate::kernel_features (requires args)"] = s_
    for name, side in (("SlateV4Bin", "w"), ("SlateV4Bin", "r")):
        f = impl_fn(db, "grin_core::ser::Writeable" if side == "w" else "grin_core::ser::Readable", name, "write" if side == "w" else "read")
        if not f:
            continue
        s_ = set()
        for x in cfg.comparisons(f):
            if x.op == "Eq" and not x.is_call:
                cv = vf.const_of_operand(f, x.r)
                fields = {y[2] for y in vf.origins(f, x.l) if y[0] == "field"}
                if cv is not None and "feat" in fields:
                    te = x.true_edges
                    prim = codec.PRIM_W if side == "w" else codec.PRIM_R
                    u64s = [b for b, t in f.calls() if prim.get(t.get("f")) == "u64" and cfg.must_pass(f, te, {b})[0]]
                    if u64s:
                        s_.add(int(cv))
        sets["SlateV4Bin::%s (lock height emitted)" % ("write" if side == "w" else "read")] = s_
    tf = ctx.fn(SLATE + "tx_from_slate_v4")
    if tf:
        pe = dectree.PathEnum(tf, db)
        s_ = set()
        try:
            # restrict to the region of the feature switch: find the switch on slate.feat
            for b, bb in enumerate(tf.bbs):
                t = bb["t"]
                if t["k"] == "sw":
                    p = vf.op_place(t["o"])
                    if p is not None:
                        srcs = vf.origins(tf, t["o"])
                        if any(y[0] == "field" and y[1] == V4 + "SlateV4" and y[2] == "feat" for y in srcs) and t["ty"] == "u8":
                            for v, tb in t["t"]:
                                reach = cfg.reach(tf, starts=[tb], cut_nodes=set(x for _v, x in t["t"] if x != tb) | {t["else"]})
                                reads = False
                                for rb in list(reach)[:60]:
                                    for s in tf.bbs[rb]["s"]:
                                        if s["k"] == "a" and "feat_args" in str(s["r"]):
                                            reads = True
                                    tt = tf.bbs[rb]["t"]
                                    if tt["k"] == "call" and "feat_args" in str(tt["a"]):
                                        reads = True
                                if reads:
                                    s_.add(int(v))
        except dectree.TooManyPaths:
            pass
        sets["tx_from_slate_v4 (uses args)"] = s_
    ref = sets.get("Slate::kernel_features (requires args)")
    for k, v in sorted(sets.items()):
        held = ref is not None and v == ref
        run.instance(R6, {"site": k, "features_with_args": sorted(v), "reference": sorted(ref or [])}, held=held)
        if not held:
            run.finding(Finding(R6, k.split(" ")[0], "kernel features carrying arguments: %s has %s, Slate::kernel_features requires args for %s" % (k, sorted(v), sorted(ref or [])), site=""))

    R7 = "C08.R7"
    run.rule(R7, "lossy lengths: a collection length is not truncated into a narrower prefix without a bound check", floor=3)
    for fid, f in sorted(db.fns.items()):
        if non_production(fid) or f.impl_trait != "grin_core::ser::Writeable":
            continue
        if not any(fid.startswith("<" + p) for p in (V4B, SPT)):
            continue
        for b, bb in enumerate(f.bbs):
            for s in bb["s"]:
                if s["k"] == "a" and s["r"]["k"] == "cast" and s["r"]["ck"] == "IntToInt" and s["r"]["ty"] in ("u8", "u16", "u32"):
                    pr = vf.producers(f, s["r"]["o"])
                    lens = [y for y in pr if y[0] == "call" and (y[1].endswith("::len") or y[1].endswith("encoded_len") or y[1].endswith("opt_fields_len"))]
                    if not lens:
                        continue
                    # a dominating comparison of the same length against a bound
                    guarded = False

                    def len_id(y):
                        tt = f.bbs[y[2]]["t"]
                        return (y[1], vf.strip_clones(f, tt["a"][0]) if tt["a"] else None, tuple(e.get("n") for e in (vf.producers(f, tt["a"][0]) and []) ))

                    def len_key(y):
                        tt = f.bbs[y[2]]["t"]
                        flds = tuple(sorted(z[2] for z in vf.producers(f, tt["a"][0]) if z[0] == "field")) if tt["a"] else ()
                        return (y[1], flds)

                    want = {len_key(y) for y in lens}
                    for x in cfg.comparisons(f):
                        if x.op in ("Gt", "Ge", "Lt", "Le") and not x.is_call:
                            for side in (x.l, x.r):
                                cl = [y for y in vf.producers(f, side) if y[0] == "call" and (y[1].endswith("::len") or y[1].endswith("encoded_len") or y[1].endswith("opt_fields_len"))]
                                if cl and {len_key(y) for y in cl} & want:
                                    lp = vf.op_place(side)
                                    # the comparison must be on the untruncated value (usize), not on the cast result
                                    lty = f.locals[lp[0]]["ty"] if lp else ""
                                    if lty == "usize" and (cfg.must_pass(f, x.false_edges, {b})[0] or cfg.must_pass(f, x.true_edges, {b})[0]):
                                        guarded = True
                    what = "%s as %s" % (pp.short(lens[0][1]).split("::")[-1], s["r"]["ty"])
                    reason = R7_ALLOW.get((fid, what))
                    if not guarded and reason:
                        run.note("C08.R7 allow-list: %s `%s`: %s" % (pp.short(fid), what, reason))
                        guarded = True
                    run.instance(R7, {"fn": pp.short(fid), "cast": what, "site": s["sp"].split(":")[1], "bounded": guarded}, held=guarded)
                    if not guarded:
                        run.finding(Finding(R7, fid, "length prefix truncated: %s without a bound check" % what, site=":".join(s["sp"].split(":")[:2])))
    # no narrowing of a field value on its way into the binary form (a u64 slate field written as u32 would lose its
    # high bits while JSON keeps them)
    R8 = "C08.R8"
    run.rule(R8, "no narrowing: a slate / slatepack field value is written with its full width (no `as u8/u16/u32` of a wider field value)", floor=1)
    W_ORDER = {"u8": 1, "u16": 2, "u32": 4, "u64": 8, "usize": 8, "i32": 4, "i64": 8, "u128": 16}
    n_casts = 0
    for fid, f in sorted(db.fns.items()):
        if non_production(fid) or f.impl_trait != "grin_core::ser::Writeable":
            continue
        if not any(fid.startswith("<" + p) for p in (V4B, SPT)):
            continue
        for b, bb in enumerate(f.bbs):
            for st in bb["s"]:
                if st["k"] == "a" and st["r"]["k"] == "cast" and st["r"]["ck"] == "IntToInt":
                    dst = st["r"]["ty"]
                    sp_ = vf.op_place(st["r"]["o"])
                    src = f.locals[sp_[0]]["ty"].replace("&", "") if sp_ and not sp_[1] else None
                    if src not in W_ORDER or dst not in W_ORDER:
                        continue
                    n_casts += 1
                    pr = vf.producers(f, st["r"]["o"])
                    is_len = any(y[0] == "call" and (y[1].endswith("::len") or y[1].endswith("encoded_len") or y[1].endswith("opt_fields_len")) for y in pr)
                    if is_len:
                        continue  # length prefixes are R7's subject
                    narrowing = W_ORDER[dst] < W_ORDER[src]
                    from_field = any(y[0] == "field" and y[1].startswith("grin_wallet") for y in pr) or any(y[0] == "call" for y in pr)
                    held = not (narrowing and from_field)
                    run.instance(R8, {"fn": pp.short(fid), "cast": "%s as %s" % (src, dst), "site": st["sp"].split(":")[1]}, held=held)
                    if not held:
                        run.finding(Finding(R8, fid, "a %s field value is narrowed to %s before it is written" % (src, dst), site=":".join(st["sp"].split(":")[:2])))
    run.instance(R8, {"obligation": "integer casts in the binary writers examined", "casts": n_casts}, held=True)
    run.not_decided += ["equality of decoded and original values", "age / bech32 / base58 correctness", "anything value-level (boundary integers etc.)"]
