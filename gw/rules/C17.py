"""C17 - Expired slates are refused; expired pending transactions are released."""
from . import common as c
from .. import cfg, valueflow as vf, pp
from ..callgraph import STATE_EFFECTS, non_production
from ..engine import Finding

OWNER = c.LW + "api_impl::owner::"
FOREIGN = c.LW + "api_impl::foreign::"
CHECK_TTL = OWNER + "check_ttl"

# api_impl entry points that take a counterparty's slate and reach a wallet effect.
# value: how the TTL obligation is met
STEP_TABLE = {
    FOREIGN + "receive_tx": "check_ttl",
    FOREIGN + "finalize_tx": "check_ttl",
    OWNER + "process_invoice_tx": "check_ttl",
    OWNER + "finalize_tx": "delegates:" + FOREIGN + "finalize_tx",
    OWNER + "tx_lock_outputs": "exempt: not a refusal point in the statement (locks the wallet's own pending transaction; listed because it copies the slate's cutoff into the log entry)",
}


def ge_edges(x, op):
    """For a comparison normalised to `H op C`: the edges on which H >= C holds
    and those on which it does not; None if the boundary is not >= / <."""
    if op == "Ge":
        return x.true_edges, x.false_edges
    if op == "Lt":
        return x.false_edges, x.true_edges
    return None


def run(ctx):
    run = ctx.run
    db = ctx.db
    R1 = "C17.R1"
    run.rule(R1, "every step that takes a counterparty slate checks the TTL (Ok-edge) before its first effect", floor=6)
    # sibling enumeration
    found = {}
    for k, f in sorted(db.fns.items()):
        if not (k.startswith(OWNER) or k.startswith(FOREIGN)) or f.dk != "Fn" or not f.pub:
            continue
        has_slate = any(a > 0 and f.locals[p[0]]["ty"] in ("&" + c.LW + "slate::Slate", c.LW + "slate::Slate", "&mut " + c.LW + "slate::Slate") for n, p, a in f.vars if not p[1])
        if has_slate and (ctx.eff.of(k) & STATE_EFFECTS):
            found[k] = f
    for k in sorted(found):
        held = k in STEP_TABLE
        run.instance(R1, {"fn": pp.short(k), "obligation": "slate-taking entry point with effects is in the TTL step table", "how": STEP_TABLE.get(k)}, held=held)
        if not held:
            run.finding(Finding(R1, k, "new slate-taking entry point with wallet effects is not in the TTL table (does it check_ttl?)", site=found[k].loc()))
    for k in STEP_TABLE:
        if k not in found:
            run.error("C17.R1: step %s no longer found as a slate-taking entry point with effects" % k)
    for k, how in sorted(STEP_TABLE.items()):
        f = db.fns.get(k)
        if f is None:
            continue
        if how == "check_ttl":
            c.require_pass(ctx, R1, k, CHECK_TTL, ("effects",), "first wallet effect requires check_ttl Ok")
            # the slate checked is the incoming one
            for b, t in cfg.find_calls(f, CHECK_TTL):
                o = vf.origins(f, t["a"][1])
                slp = c.param(f, "slate", "slate::Slate")
                sl = [slp] if slp is not None else []
                held = bool(sl) and ("arg", sl[0]) in o
                run.instance(R1, {"fn": pp.short(k), "obligation": "check_ttl is applied to (a clone of) the incoming slate"}, held=held)
                if not held:
                    run.finding(Finding(R1, k, "check_ttl is not applied to the incoming slate", site=c.site_of(f, b)))
        elif how.startswith("delegates:"):
            tgt = how.split(":", 1)[1]
            c.require_after(ctx, R1, k, tgt, ("effects",), "all effects happen inside %s" % pp.short(tgt))

    # the cutoff that is checked is the one the slate arrived with: no step rewrites ttl_cutoff_height before its check_ttl
    for fid_ in sorted(db.fns):
        f_ = db.fns[fid_]
        from ..callgraph import non_production as _np
        if _np(fid_) or not fid_.startswith(c.LW + "api_impl::"):
            continue
        cts = cfg.find_calls(f_, CHECK_TTL)
        asg = vf.field_assignments(f_, c.LW + "slate::Slate", "ttl_cutoff_height")
        if not cts or not asg:
            continue
        cb = {b for b, _t in cts}
        bad = [b for b, _st in asg if any(x in cfg.reach(f_, starts=[b]) for x in cb)]
        run.instance(R1, {"fn": pp.short(fid_), "obligation": "slate.ttl_cutoff_height is not rewritten before check_ttl", "assignments": len(asg)}, held=not bad)
        if bad:
            run.finding(Finding(R1, fid_, "the slate's ttl_cutoff_height is overwritten before check_ttl examines it (an expired slate would be judged by the new cutoff)", site=c.site_of(f_, bad[0])))
    R2 = "C17.R2"
    run.rule(R2, "boundary: refuse iff cutoff != 0 and last_confirmed_height >= cutoff; cancel iff tip >= cutoff", floor=6)
    f = ctx.fn(CHECK_TTL)
    if f:
        fl = vf.get_flow(f)
        cmps = cfg.comparisons(f)
        is_h = lambda o: vf.has_call(o, c.WB + "last_confirmed_height")
        is_c = lambda o: vf.has_field(o, c.LW + "slate::Slate", "ttl_cutoff_height") and not vf.has_call(o, c.WB + "last_confirmed_height")
        is_zero = lambda o: o == {("const", "0")}
        ordc = [(x, x.normalized(is_h, is_c, fl)) for x in cmps]
        ordc = [(x, op) for x, op in ordc if op]
        zc = [(x, x.normalized(is_c, is_zero, fl)) for x in cmps]
        zc = [(x, op) for x, op in zc if op]
        held = len(ordc) == 1 and ge_edges(*ordc[0]) is not None
        run.instance(R2, {"fn": "check_ttl", "obligation": "single ordering comparison is last_confirmed_height >= slate.ttl_cutoff_height", "found": [(op, x.site()) for x, op in ordc]}, held=held)
        if not held:
            run.finding(Finding(R2, CHECK_TTL, "TTL boundary comparison is not `last_confirmed_height >= ttl_cutoff_height`", site=f.loc(), detail=str([(op, x.site()) for x, op in ordc])))
        # the height compared is the wallet's, not only the active account's: last_confirmed_height is kept per
        # account, an account that was never refreshed has observed nothing
        if ordc:
            x0 = ordc[0][0]
            oo = fl.of_operand(x0.l) | fl.of_operand(x0.r)
            wide = vf.has_call(oo, c.WB + "last_scanned_block") or vf.has_call(oo, c.WB + "acct_path_iter")
            run.instance(R2, {"fn": "check_ttl", "obligation": "the observed height includes a wallet-wide source (last_scanned_block), not only the active account's last_confirmed_height"}, held=wide)
            if not wide:
                run.finding(Finding(R2, CHECK_TTL, "the cutoff is compared with the active account's last_confirmed_height only: a wallet that has observed the cutoff height under another account accepts the expired slate when a never-refreshed account is active", site=f.loc()))
        held_z = len(zc) == 1 and zc[0][1] in ("Ne", "Eq")
        run.instance(R2, {"fn": "check_ttl", "obligation": "cutoff is compared with 0 (0 = no cutoff)", "found": [(op, x.site()) for x, op in zc]}, held=held_z)
        if not held_z:
            run.finding(Finding(R2, CHECK_TTL, "no-cutoff test (ttl_cutoff_height vs 0) missing or changed", site=f.loc()))
        if held and held_z:
            x, op = ordc[0]
            z, zop = zc[0]
            expired, not_expired = ge_edges(x, op)
            nonzero = z.true_edges if zop == "Ne" else z.false_edges
            zero = z.false_edges if zop == "Ne" else z.true_edges
            errs = cfg.error_return_blocks(f)
            # the only error besides `?` of last_confirmed_height is the refusal: refusal needs expired and nonzero edges
            refusal = set()
            for b in errs:
                for s in f.bbs[b]["s"]:
                    if s["k"] == "a" and s["d"] == [0, []] and s["r"]["k"] == "agg":
                        refusal.add(b)
            h1, _ = cfg.must_pass(f, expired, refusal) if refusal else (False, None)
            h2, _ = cfg.must_pass(f, nonzero, refusal) if refusal else (False, None)
            run.instance(R2, {"fn": "check_ttl", "obligation": "Err(TransactionExpired) only on the (cutoff != 0) and (height >= cutoff) edges"}, held=h1 and h2)
            if not (h1 and h2):
                run.finding(Finding(R2, CHECK_TTL, "refusal reachable without both TTL conditions", site=f.loc()))
            h3, p3 = cfg.must_pass(f, zero | not_expired, cfg.return_blocks(f), cut_nodes=errs)
            run.instance(R2, {"fn": "check_ttl", "obligation": "Ok only when cutoff == 0 or height < cutoff"}, held=h3)
            if not h3:
                run.finding(Finding(R2, CHECK_TTL, "Ok reachable for an expired slate", site=f.loc()))
    uws = OWNER + "update_wallet_state"
    u = ctx.fn(uws)
    if u:
        fl = vf.get_flow(u)
        cancels = cfg.find_calls(u, c.LW + "internal::tx::cancel_tx")
        is_tip = lambda o: vf.has_call(o, c.LW + "types::NodeClient::get_chain_tip")
        is_e = lambda o: vf.has_field(o, c.LW + "types::TxLogEntry", "ttl_cutoff_height") and not vf.has_call(o, c.LW + "types::NodeClient::get_chain_tip")
        ordc = [(x, x.normalized(is_tip, is_e, fl)) for x in cfg.comparisons(u)]
        ordc = [(x, op) for x, op in ordc if op]
        held = len(ordc) == 1 and ge_edges(*ordc[0]) is not None and len(cancels) == 1
        run.instance(R2, {"fn": "update_wallet_state", "obligation": "expired-cancel comparison is tip.height >= entry.ttl_cutoff_height", "found": [(op, x.site()) for x, op in ordc]}, held=held)
        if not held:
            run.finding(Finding(R2, uws, "expiry comparison in update_wallet_state is not `tip >= ttl_cutoff_height`", site=u.loc(), detail=str([(op, x.site()) for x, op in ordc])))
        elif cancels:
            x, op = ordc[0]
            expired, _ne = ge_edges(x, op)
            cb = {b for b, _t in cancels}
            h, _p = cfg.must_pass(u, expired, cb)
            run.instance(R2, {"fn": "update_wallet_state", "obligation": "cancel_tx (step 5) only on the tip >= cutoff edge"}, held=h)
            if not h:
                run.finding(Finding(R2, uws, "step-5 cancel reachable without the expiry comparison", site=u.loc()))
            # ... and on that edge the cancel always happens: no further condition between the comparison and the call
            starts = [d for (_s, d) in expired]
            esc = cfg.reach(u, starts=starts, cut_nodes=cb | cfg.error_return_blocks(u))
            nxt = {b2 for b2, _t2 in cfg.find_calls(u, "core::iter::traits::iterator::Iterator::next")}
            leaves = [b2 for b2 in esc if b2 in nxt or u.bbs[b2]["t"]["k"] == "ret"]
            h = bool(starts) and not leaves
            run.instance(R2, {"fn": "update_wallet_state", "obligation": "every expired outstanding entry is cancelled: from the tip >= cutoff edge the loop cannot continue or return without cancel_tx"}, held=h)
            if not h:
                run.finding(Finding(R2, uws, "an expired entry can be skipped: a further condition sits between the expiry comparison and cancel_tx", site=c.site_of(u, leaves[0]) if leaves else u.loc()))
            # ... and no entry ends the walk: whatever an entry's cutoff, the loop goes on to the next entry
            # (only an error may leave it early)
            loop_next = None
            for b2 in sorted(nxt):
                if x.b in cfg.reach(u, starts=[b2]) and b2 in cfg.reach(u, starts=[x.b]):
                    loop_next = b2
            h = False
            if loop_next is not None:
                # leaving the loop is allowed only from the head itself (iterator exhausted = the None arm of next())
                g_next = cfg.call_guard(u, loop_next)
                some_reach = cfg.reach(u, starts=[d for (_s, d) in g_next.ok], cut_nodes={loop_next} | cfg.error_return_blocks(u)) if g_next.ok else set()
                h = bool(g_next.ok) and not any(u.bbs[b2]["t"]["k"] == "ret" for b2 in some_reach)
            run.instance(R2, {"fn": "update_wallet_state", "obligation": "the expiry walk visits every outstanding entry: from inside an iteration only the loop head (or an error) is reachable, never the function's return"}, held=h)
            if not h:
                run.finding(Finding(R2, uws, "the expiry walk can stop early: an entry whose cutoff lies ahead ends the loop instead of being skipped", site=u.loc()))
            # the cancelled id is the iterated entry's id; entries come from retrieve_txs(outstanding_only = true)
            b, t = cancels[0]
            o_id = vf.origins(u, t["a"][3])
            h = vf.has_field(o_id, c.LW + "types::TxLogEntry", "id") and vf.has_call(o_id, c.LW + "internal::updater::retrieve_txs")
            run.instance(R2, {"fn": "update_wallet_state", "obligation": "cancel_tx is given Some(tx.id) of an entry from retrieve_txs"}, held=h)
            if not h:
                run.finding(Finding(R2, uws, "step-5 cancel not addressed by the iterated entry's id", site=c.site_of(u, b)))
            rt = cfg.find_calls(u, c.LW + "internal::updater::retrieve_txs")
            vals = [vf.const_of_operand(u, tt["a"][5]) for _bb, tt in rt]
            h = vals == ["1"]
            run.instance(R2, {"fn": "update_wallet_state", "obligation": "iterated entries come from retrieve_txs(outstanding_only = true)", "found": vals}, held=h)
            if not h:
                run.finding(Finding(R2, uws, "expired-cancel loop no longer iterates outstanding entries only", site=u.loc()))

    R3 = "C17.R3"
    run.rule(R3, "the cutoff is recorded in both log-entry creators (0 -> None)", floor=2)
    n = 0
    for fid in (c.LW + "internal::selection::lock_tx_context", c.LW + "internal::selection::build_recipient_output"):
        f = ctx.fn(fid)
        if not f:
            continue
        asg = vf.field_assignments(f, c.LW + "types::TxLogEntry", "ttl_cutoff_height")
        held = False
        for b, s in asg:
            o = vf.get_flow(f).of_rvalue(s["r"])
            if vf.has_field(o, c.LW + "slate::Slate", "ttl_cutoff_height"):
                held = True
        run.instance(R3, {"fn": pp.short(fid), "obligation": "TxLogEntry.ttl_cutoff_height := Some(slate.ttl_cutoff_height)"}, held=held)
        if not held:
            run.finding(Finding(R3, fid, "log entry no longer records the slate's ttl cutoff", site=f.loc()))
    R4 = "C17.R4"
    run.rule(R4, "only a transaction that was never confirmed runs out of time: the expiry step skips entries that are confirmed (also by the kernel step of the same refresh) and entries that were confirmed once and reverted", floor=2)
    from .shared import expiry_step_scope
    expiry_step_scope(ctx, R4, ("confirmed", "reverted"))
    R5 = "C17.R5"
    run.rule(R5, "the cutoff recorded for the sender's own transaction is the one the sender set, not the one carried by the counterparty's reply", floor=1)
    from .C11 import counterparty_slate_sites
    SEL5 = c.LW + "internal::selection::"
    lk5 = ctx.fn(SEL5 + "lock_tx_context")
    if lk5 is None:
        run.error("C17.R5: lock_tx_context not found")
    else:
        slp5 = c.param(lk5, "slate", "slate::Slate")
        asg5 = vf.field_assignments(lk5, c.LW + "types::TxLogEntry", "ttl_cutoff_height")
        from_slate = slp5 is not None and any(("arg", slp5) in vf.origins(lk5, st["r"]["o"]) for _b, st in asg5 if st["r"]["k"] == "use")
        if not asg5:
            run.error("C17.R5: assignment of TxLogEntry.ttl_cutoff_height not found in lock_tx_context")
        elif not from_slate:
            run.instance(R5, {"fn": "lock_tx_context", "obligation": "the recorded cutoff does not come from the slate parameter"}, held=True)
        else:
            bad5, seen5 = counterparty_slate_sites(ctx, lk5, slp5)
            run.instance(R5, {"fn": "lock_tx_context", "obligation": "no call chain hands a counterparty-controlled slate to the reservation step that records the cutoff", "call_sites_examined": len(seen5), "violations": len(bad5)}, held=not bad5)
            for cf, cb, csp, why, chain in bad5:
                run.finding(Finding(R5, cf.id, "the sender's cutoff is recorded from %s: a reply that carries no (or a later) cutoff switches the sender's expiry off" % why.split(" (")[0], site=":".join(csp.split(":")[:2])))
    R6 = "C17.R6"
    run.rule(R6, "the expiry step releases only what the expired transaction holds: the cancel it runs hands exactly that entry's outputs of that entry's account to the rollback (log ids are per account; a pending transaction of another account with the same id, with no cutoff or a later one, is not touched)", floor=3)
    ct6 = ctx.fn(c.LW + "internal::tx::cancel_tx")
    if ct6 is None:
        run.error("C17.R6: internal::tx::cancel_tx not found")
    else:
        from .shared import rollback_scope
        rollback_scope(ctx, R6, ct6, ct6.id)
    R7 = "C17.R7"
    run.rule(R7, "the refresh writes under the account its entries were collected from (the entry's own account, not a second read of the active account): a transaction of another account with the same log id, with no cutoff or a later one, is not cancelled", floor=2)
    from .shared import refresh_account_consistency
    refresh_account_consistency(ctx, R7)
    run.not_decided += ["full release bookkeeping after expiry (see C05)", "what 'observed height' means beyond the stored last_confirmed_height / node tip"]
