"""C02 - Finalized transactions are valid, exact, safe against an altered reply.

Decided structurally (necessary conditions): the validation calls that the
code relies on cannot be skipped on any path to the produced transaction, the
finalize pipeline runs in order, the agreed amount/fee are restored from the
wallet's own context and stored == returned.
"""
from . import common as c
from .. import cfg, valueflow as vf
from ..engine import Finding

SLATE = c.LW + "slate::Slate::"
FOREIGN = c.LW + "api_impl::foreign::"
TX = c.LW + "internal::tx::"
SEL = c.LW + "internal::selection::"


def _through(f, o, depth=0):
    """producers of o, looking through accessor calls (tx.kernels()[0], deref, index) to the object they were taken from"""
    pr = set(vf.producers(f, o))
    if depth > 6:
        return pr
    for x in list(pr):
        if x[0] == "call" and x[1].endswith(("Transaction::kernels", "Index::index", "Deref::deref", "::as_slice", "::first", "::get")):
            t = f.bbs[x[2]]["t"]
            if t["a"]:
                pr |= _through(f, t["a"][0], depth + 1)
    return pr


def run(ctx):
    run = ctx.run
    R1 = "C02.R1"
    run.rule(R1, "validation calls dominate (Ok-edge) the produced transaction / signature", floor=8)
    ft = SLATE + "finalize_transaction"
    sink = ("field", c.LW + "slate::Slate", "tx")
    c.require_pass(ctx, R1, ft, SLATE + "check_fees", sink, "self.tx = final_tx requires check_fees Ok")
    c.require_pass(ctx, R1, ft, "grin_core::core::transaction::TxKernel::verify", sink, "self.tx = final_tx requires kernel verify Ok")
    VALIDATE = "grin_core::core::transaction::Transaction::validate"
    ftf0 = ctx.fn(ft)
    if ftf0 is not None and not cfg.find_calls(ftf0, VALIDATE):
        # the full consensus validation is the only place where the range proofs of the counterparty's reply are
        # verified (validate_read / verify_kernel_sums do not look at them): say so instead of "anchor missing"
        run.instance(R1, {"fn": "finalize_transaction", "obligation": "the final transaction passes Transaction::validate (kernel sums, weight and every range proof)"}, held=False)
        run.finding(Finding(R1, ft, "the final transaction is stored and returned without the full consensus validation (Transaction::validate): the range proofs of the counterparty's reply are never verified", site=ftf0.loc()))
    else:
        c.require_pass(ctx, R1, ft, VALIDATE, sink, "self.tx = final_tx requires tx.validate Ok")
        c.require_pass(ctx, R1, ft, VALIDATE, ("okret",), "Ok return requires tx.validate Ok")
    c.require_pass(ctx, R1, ft, SLATE + "check_fees", ("okret",), "Ok return requires check_fees Ok")
    # what is verified and validated is the transaction that is then stored (the one whose kernel carries the final
    # excess and signature), and the signature set into that kernel is the one handed in
    ftf = ctx.fn(ft)
    if ftf:
        rk = lambda pr: {x for x in pr if x[0] == "call" and x[1].endswith("Transaction::replace_kernel")}
        stored = set()
        for b, st in vf.field_assignments(ftf, c.LW + "slate::Slate", "tx"):
            if st["r"]["k"] == "agg" and st["r"]["f"]:
                stored |= rk(vf.producers(ftf, st["r"]["f"][0][1]))
            elif st["r"]["k"] == "use":
                stored |= rk(vf.producers(ftf, st["r"]["o"]))
        for callee, what in (("grin_core::core::transaction::Transaction::validate", "validate"), ("grin_core::core::transaction::TxKernel::verify", "kernel verify")):
            for b, t in cfg.find_calls(ftf, callee):
                got = rk(_through(ftf, t["a"][0]))
                h = bool(stored) and bool(got & stored)
                run.instance(R1, {"fn": "finalize_transaction", "obligation": "%s is applied to the transaction that gets stored (result of replace_kernel)" % what}, held=h)
                if not h:
                    run.finding(Finding(R1, ft, "%s is not applied to the transaction that is stored in the slate" % what, site=c.site_of(ftf, b)))
        sig_asg = vf.field_assignments(ftf, "grin_core::core::transaction::TxKernel", "excess_sig")
        h = bool(sig_asg) and all(any(x[0] == "arg" and x[1] == 3 for x in (vf.producers(ftf, st["r"]["o"]) if st["r"]["k"] == "use" else set()) | vf.get_flow(ftf).of_rvalue(st["r"])) for _b, st in sig_asg)
        run.instance(R1, {"fn": "finalize_transaction", "obligation": "kernel.excess_sig := the final signature parameter"}, held=h)
        if not h:
            run.finding(Finding(R1, ft, "the kernel's signature is not the final signature handed to finalize_transaction", site=ftf.loc()))
    fs = SLATE + "finalize_signature"
    c.require_pass(ctx, R1, fs, SLATE + "verify_part_sigs", ("okret",), "Ok(final_sig) requires verify_part_sigs Ok")
    c.require_pass(ctx, R1, fs, "grin_core::libtx::aggsig::verify_completed_sig", ("okret",), "Ok(final_sig) requires verify_completed_sig Ok")
    f2 = SLATE + "fill_round_2"
    c.require_pass(ctx, R1, f2, SLATE + "verify_part_sigs", ("call", "grin_core::libtx::aggsig::calculate_partial_sig"), "calculate_partial_sig requires verify_part_sigs Ok")
    c.require_pass(ctx, R1, f2, SLATE + "verify_part_sigs", ("okret",), "Ok return requires verify_part_sigs Ok")
    vps = SLATE + "verify_part_sigs"
    # the loop body verifies each complete participant: Ok return of the loop
    # body's true-edge of is_complete requires verify_partial_sig Ok; checked as:
    # verify_partial_sig is called, and its Ok-edge is required to continue the loop
    fn = ctx.fn(vps)
    if fn:
        sites = cfg.find_calls(fn, "grin_core::libtx::aggsig::verify_partial_sig")
        ic = cfg.find_calls(fn, c.LW + "slate::ParticipantData::is_complete")
        ok = bool(sites) and bool(ic)
        if ok:
            # from the true-edge of is_complete, the loop head (next()) is unreachable without verify Ok
            g = cfg.call_guard(fn, ic[0][0])
            ve, _ = c.guard_edges(ctx, fn, "grin_core::libtx::aggsig::verify_partial_sig", R1)
            starts = [d for (_s, d) in g.ok]
            par = cfg.reach(fn, starts=starts, cut_edges=ve, cut_nodes=cfg.error_return_blocks(fn))
            nxt = {b for b, _t in cfg.find_calls(fn, "core::iter::traits::iterator::Iterator::next")}
            rets = cfg.return_blocks(fn)
            bad = [b for b in (nxt | rets) if b in par]
            ok = not bad and bool(starts)
        run.instance(R1, {"fn": "Slate::verify_part_sigs", "obligation": "a complete participant's signature is verified (Ok-edge) before the loop continues or returns Ok"}, held=ok)
        if not ok:
            run.finding(Finding(R1, vps, "complete participant continues without verify_partial_sig Ok", site=fn.loc(), detail="loop continuation/return reachable from is_complete()==true without the Ok-edge of aggsig::verify_partial_sig"))
    fin = SLATE + "finalize"
    c.require_pass(ctx, R1, fin, SLATE + "finalize_signature", ("call", SLATE + "finalize_transaction"), "finalize_transaction requires finalize_signature Ok")
    ct = TX + "complete_tx"
    c.require_pass(ctx, R1, ct, SLATE + "fill_round_2", ("call", SLATE + "finalize"), "finalize requires fill_round_2 Ok")
    c.require_pass(ctx, R1, ct, SLATE + "finalize", ("okret",), "complete_tx Ok requires finalize Ok")

    R2 = "C02.R2"
    run.rule(R2, "finalize pipeline order in foreign::finalize_tx (both arms)", floor=10)
    fz = FOREIGN + "finalize_tx"
    gpc = c.WB + "get_private_context"
    for g, name in [
        (gpc, "get_private_context"),
        (c.LW + "api_impl::owner::check_ttl", "check_ttl"),
        (SLATE + "adjust_offset", "adjust_offset"),
        (SEL + "repopulate_tx", "repopulate_tx"),
        (TX + "complete_tx", "complete_tx"),
        (TX + "update_stored_tx", "update_stored_tx"),
        (c.WOB + "delete_private_context", "delete_private_context"),
    ]:
        c.require_pass(ctx, R2, fz, g, ("okret",), "Ok return requires %s Ok" % name)
    c.require_pass(ctx, R2, fz, TX + "complete_tx", ("call", c.WOB + "delete_private_context"), "delete_private_context requires complete_tx Ok (a rejected reply keeps the context: still cancellable)")
    c.require_pass(ctx, R2, fz, TX + "complete_tx", ("call", TX + "update_stored_tx"), "update_stored_tx requires complete_tx Ok")
    c.require_pass(ctx, R2, fz, SEL + "repopulate_tx", ("call", TX + "complete_tx"), "complete_tx requires repopulate_tx Ok")
    c.require_pass(ctx, R2, fz, SLATE + "adjust_offset", ("call", SEL + "repopulate_tx"), "repopulate_tx requires adjust_offset Ok")
    c.require_pass(ctx, R2, fz, TX + "update_stored_tx", ("call", c.WOB + "delete_private_context"), "delete_private_context requires update_stored_tx Ok")
    c.require_pass(ctx, R2, fz, TX + "complete_tx", ("call", c.LW + "api_impl::owner::post_tx"), "post_tx requires complete_tx Ok")
    # owner::finalize_tx resolves to the same function
    ofz = ctx.fn(c.LW + "api_impl::owner::finalize_tx")
    if ofz:
        sites = cfg.find_calls(ofz, fz)
        held = bool(sites)
        if held:
            held, _p = cfg.must_pass(ofz, c.after_call_edges(ofz, fz), cfg.return_blocks(ofz), cut_nodes=cfg.error_return_blocks(ofz))
        run.instance(R2, {"fn": "owner::finalize_tx", "obligation": "delegates to foreign::finalize_tx on every Ok path"}, held=held)
        if not held:
            run.finding(Finding(R2, ofz.id, "owner::finalize_tx does not delegate to foreign::finalize_tx", site=ofz.loc()))

    R3 = "C02.R3"
    run.rule(R3, "agreed amount/fee and inputs/outputs restored from the wallet's own context", floor=4)
    rp = ctx.fn(SEL + "repopulate_tx")
    if rp:
        vf.check_field_source(ctx, R3, rp, dest=(c.LW + "slate::Slate", "amount"), src_field=(c.LW + "types::Context", "amount"), what="slate.amount := context.amount")
        vf.check_field_source(ctx, R3, rp, dest=(c.LW + "slate::Slate", "fee_fields"), src_field=(c.LW + "types::Context", "fee"), what="slate.fee_fields := context.fee (update_fee)")
        # ... unconditionally: every Ok return of repopulate_tx passed the amount assignment, and (under update_fee) the fee one
        from .shared import amount_restored
        amount_restored(ctx, R3)
        ufp = c.param(rp, "update_fee", "bool")
        if ufp is not None:
            gf = cfg.local_guard(rp, ufp)
            fasg = vf.field_assignments(rp, c.LW + "slate::Slate", "fee_fields")
            fe = {(b, x) for b, _s in fasg for x in rp.succ(b)}
            h = bool(fe) and bool(gf.fail) and cfg.must_pass(rp, fe | gf.fail, cfg.return_blocks(rp), cut_nodes=cfg.error_return_blocks(rp))[0]
            run.instance(R3, {"fn": "repopulate_tx", "obligation": "with update_fee the fee fields are restored from the context on every path to Ok"}, held=h)
            if not h:
                run.finding(Finding(R3, rp.id, "repopulate_tx(update_fee = true) can return Ok without restoring slate.fee_fields from the context", site=rp.loc()))
        # parts (inputs/outputs) derive from context.get_inputs/get_outputs only
        for getter in ("get_inputs", "get_outputs"):
            n = len(cfg.find_calls(rp, c.LW + "types::Context::" + getter))
            run.instance(R3, {"fn": "repopulate_tx", "obligation": "iterates context.%s()" % getter, "sites": n}, held=n >= 1)
            if n < 1:
                run.finding(Finding(R3, rp.id, "repopulate_tx no longer iterates context.%s()" % getter, site=rp.loc()))
    fzf = ctx.fn(fz)
    if fzf:
        # Standard2 arm passes update_fee = true; Invoice2 arm false (fee chosen by payer)
        sites = cfg.find_calls(fzf, SEL + "repopulate_tx")
        vals = []
        for b, t in sites:
            vals.append(vf.const_of_operand(fzf, t["a"][4]) if len(t["a"]) > 4 else None)
        held = sorted(str(v) for v in vals) == ["0", "1"]
        run.instance(R3, {"fn": "foreign::finalize_tx", "obligation": "repopulate_tx(update_fee) bound to constants {false (invoice arm), true (send arm)}", "found": vals}, held=held)
        if not held:
            run.finding(Finding(R3, fz, "repopulate_tx update_fee argument binding changed", site=fzf.loc(), detail="found %s" % vals))

    R4 = "C02.R4"
    run.rule(R4, "stored transaction == returned transaction", floor=3)
    if fzf:
        vf.check_same_local_stored_and_returned(ctx, R4, fzf, TX + "update_stored_tx", arg_index=3)
    us = ctx.fn(TX + "update_stored_tx")
    if us:
        # store_tx argument is slate.tx_or_err() of the slate parameter
        st = cfg.find_calls(us, c.WB + "store_tx")
        held = False
        detail = ""
        if st:
            b, t = st[0]
            srcs = vf.origins(us, t["a"][2])
            calls = [s for s in srcs if s[0] == "call"]
            held = any(s[1] == SLATE + "tx_or_err" for s in calls) and all(s[1] in (SLATE + "tx_or_err", "core::ops::try_trait::Try::branch") for s in calls)
            # receiver of tx_or_err is the slate parameter (arg 4)
            if held:
                for bb, tt in cfg.find_calls(us, SLATE + "tx_or_err"):
                    o = vf.origins(us, tt["a"][0])
                    if not any(s == ("arg", 4) for s in o):
                        held = False
            detail = str(sorted(set(str(s) for s in srcs)))[:300]
        run.instance(R4, {"fn": "update_stored_tx", "obligation": "store_tx is given slate.tx_or_err() of the slate parameter", "origins": detail}, held=held)
        if not held:
            run.finding(Finding(R4, us.id, "store_tx argument is not the slate parameter's transaction", site=us.loc(), detail=detail))
        c.require_pass(ctx, R4, us.id, c.WB + "store_tx", ("call", c.WOB + "save_tx_log_entry"), "log entry saved only after the transaction file was stored Ok")

    R5 = "C02.R5"
    run.rule(R5, "late-lock selection is one-shot: it consumes (take) the stored late-lock arguments before the context is re-saved", floor=3)
    if fzf:
        CT = c.LW + "types::Context"
        takes = [(b, t) for b, t in fzf.calls() if t.get("f") == "core::option::Option::<T>::take" and vf.has_field(vf.producers(fzf, t["a"][0]), CT, "late_lock_args")]
        if len(takes) != 1:
            run.instance(R5, {"fn": "foreign::finalize_tx", "obligation": "context.late_lock_args.take() selects the late-lock arm", "found": len(takes)}, held=False)
            run.finding(Finding(R5, fz, "the late-lock arm no longer consumes context.late_lock_args with take()", site=fzf.loc(),
                                detail="a finalize attempt that fails after locking would leave the arguments in the stored context, so a retry selects and locks inputs again"))
        else:
            g = cfg.call_guard(fzf, takes[0][0])
            for callee, what in ((SEL + "build_send_tx", "late input selection"), (c.LW + "api_impl::owner::tx_lock_outputs", "late locking"), ):
                bs = {b for b, _t in cfg.find_calls(fzf, callee)}
                h = bool(bs) and bool(g.ok) and cfg.must_pass(fzf, g.ok, bs)[0]
                run.instance(R5, {"fn": "foreign::finalize_tx", "obligation": "%s only on the Some-edge of late_lock_args.take()" % what}, held=h)
                if not h:
                    run.finding(Finding(R5, fz, "%s reachable without consuming the late-lock arguments" % what, site=fzf.loc()))
            # the context saved in that arm is the same local the arguments were taken from
            base = vf.strip_clones(fzf, takes[0][1]["a"][0])
            spc = [(b, t) for b, t in cfg.find_calls(fzf, c.WOB + "save_private_context")]
            h = bool(spc) and all(vf.strip_clones(fzf, t["a"][2]) == base for _b, t in spc)
            run.instance(R5, {"fn": "foreign::finalize_tx", "obligation": "the context re-saved after selection is the one whose late_lock_args were taken"}, held=h)
            if not h:
                run.finding(Finding(R5, fz, "a different context object is saved after late selection", site=fzf.loc()))

    R6 = "C02.R6"
    run.rule(R6, "minimum-fee check: check_fees refuses exactly when the minimum fee for the transaction's weight exceeds the fee it pays", floor=2)
    cf = ctx.fn(SLATE + "check_fees")
    if cf:
        is_min = lambda pr: any(x[0] == "call" and x[1] == "grin_core::libtx::tx_fee" for x in pr)
        is_paid = lambda pr: any(x[0] == "call" and x[1].endswith("Transaction::fee") for x in pr) and not is_min(pr)
        found = []
        for x in cfg.comparisons(cf):
            pl, pr = vf.producers(cf, x.l), vf.producers(cf, x.r)
            if is_min(pl) and is_paid(pr):
                found.append((x, x.op))
            elif is_min(pr) and is_paid(pl):
                found.append((x, cfg._SWAP[x.op]))
        if len(found) != 1:
            run.error("C02.R6: comparison of tx_fee(..) with Transaction::fee() not found in check_fees (%d)" % len(found))
        else:
            x, op = found[0]   # op relates  minimum  OP  paid
            refuse = x.true_edges if op == "Gt" else (x.false_edges if op == "Le" else None)
            held = refuse is not None
            if held:
                # on the refusing edge only an error is returned; Ok needs the other edge
                par = cfg.reach(cf, starts=[d for (_s, d) in refuse], cut_nodes=cfg.error_return_blocks(cf))
                held = not any(b in par for b in cfg.return_blocks(cf))
                accept = x.false_edges if op == "Gt" else x.true_edges
                held = held and cfg.must_pass(cf, accept, cfg.ok_value_blocks(cf), cut_nodes=cfg.error_return_blocks(cf))[0]
            run.instance(R6, {"fn": "Slate::check_fees", "obligation": "Err iff tx_fee(inputs, outputs, kernels) > tx.fee()", "operator (minimum OP paid)": op}, held=held)
            if not held:
                run.finding(Finding(R6, cf.id, "check_fees does not refuse a transaction paying less than the minimum fee for its weight (comparison: minimum %s paid)" % op, site=x.site()))
            # the minimum is computed from this transaction's own input / output / kernel counts
            for b, t in cfg.find_calls(cf, "grin_core::libtx::tx_fee"):
                kinds = []
                for a in t["a"]:
                    pr = vf.producers(cf, a) | vf.origins(cf, a)
                    kinds.append(sorted({x_[1].split("::")[-1] for x_ in pr if x_[0] == "call" and x_[1].split("::")[-1] in ("inputs", "outputs", "kernels")}))
                h = kinds == [["inputs"], ["outputs"], ["kernels"]]
                run.instance(R6, {"fn": "Slate::check_fees", "obligation": "minimum fee from tx.inputs().len(), tx.outputs().len(), tx.kernels().len()", "args": kinds}, held=h)
                if not h:
                    run.finding(Finding(R6, cf.id, "the minimum fee is not computed from the transaction's own input/output/kernel counts", site=c.site_of(cf, b), detail=str(kinds)))
    R7 = "C02.R7"
    run.rule(R7, "the flow finalize runs in must match the wallet's own record: update_stored_tx(is_invoiced) selects a TxSent entry iff !is_invoiced, a TxReceived entry iff is_invoiced", floor=2)
    from .shared import flow_tied_entry
    flow_tied_entry(ctx, R7)
    R8 = "C02.R8"
    run.rule(R8, "a finalized transaction spends inputs the wallet holds reserved for that transaction and no other: the reservation step re-reads every input and refuses one that is reserved for another send (finalization itself only asks for the slate's TxSent entry and rebuilds the inputs from the stored context)", floor=2)
    from .shared import reservation_recheck
    reservation_recheck(ctx, R8)
    run.not_decided += [
        "consensus validity of the produced transaction as such (cryptographic/numeric)",
        "that an altered reply is detected by the signature arithmetic (relies on verify_* semantics)",
        "byte equality of stored and returned transaction beyond same-object aliasing",
    ]
