"""C14 - A masked wallet does nothing without the right token."""
from . import common as c
from .. import cfg, valueflow as vf, pp
from ..callgraph import non_production
from ..engine import Finding

LM = c.IMPLS + "backends::lmdb::"
BACKEND = "<" + LM + "LMDBBackend<'ck, C, K> as " + c.LW + "types::WalletBackend<'ck, C, K>>::"
LMADT = LM + "LMDBBackend"
MASK_NAMES = ("keychain_mask", "mask")

# api::Owner methods that take a keychain_mask but, by design, need no key
# material for what they do (reason per entry); listed, not flagged.
OWNER_NO_KEY = {
    "set_active_account": "selects the default account label; writes no key-derived data",
    "accounts": "lists account labels",
    "get_top_level_directory": "configuration value",
    "set_top_level_directory": "configuration value",
    "node_height": "asks the node only (falls back to the stored height)",
}


def mask_param(fn):
    for name, place, argi in fn.vars:
        if name in MASK_NAMES and not place[1] and argi > 0 and "SecretKey" in fn.locals[place[0]]["ty"]:
            return place[0]
    return None


def _derives(f, o, local):
    fl = vf.get_flow(f)
    p = vf.op_place(o)
    if p is None:
        return False
    seen, stack = set(), [p[0]]
    while stack:
        l = stack.pop()
        if l in seen:
            continue
        seen.add(l)
        if l == local:
            return True
        stack.extend(fl.deps[l])
    return False


def run(ctx):
    run = ctx.run
    db = ctx.db
    R1 = "C14.R1"
    run.rule(R1, "LMDBBackend::keychain: Ok only on the checksum-equal edge, over the masked keychain", floor=3)
    kid = BACKEND + "keychain"
    kf = ctx.fn(kid)
    if kf:
        ne = cfg.find_calls(kf, ["core::cmp::PartialEq::ne", "core::cmp::PartialEq::eq"])
        ne = [(b, t) for b, t in ne if vf.has_field(vf.origins(kf, t["a"][0]) | vf.origins(kf, t["a"][1]), LMADT, "master_checksum")]
        if len(ne) != 1:
            run.error("C14.R1: expected one comparison with master_checksum in keychain(), found %d" % len(ne))
        else:
            b, t = ne[0]
            g = cfg.call_guard(kf, b)
            eq_edges = g.fail if t["f"].endswith("::ne") else g.ok
            c.require_pass(ctx, R1, kid, ("edges", eq_edges, "checksum-equal edge"), ("okret",), "Ok(k_masked) requires master_checksum == hash(root key)")
            # hashed value derives from the masked clone
            o = vf.origins(kf, t["a"][0]) | vf.origins(kf, t["a"][1])
            held = vf.has_call(o, "grin_keychain::types::Keychain::derive_key") and vf.has_call(o, "blake2_rfc::blake2b::Blake2b::finalize")
            run.instance(R1, {"fn": "LMDBBackend::keychain", "obligation": "compared value is blake2b(derive_key(root)) of the candidate keychain"}, held=held)
            if not held:
                run.finding(Finding(R1, kid, "checksum comparison no longer over hash of the derived root key", site=c.site_of(kf, b)))
            dk = cfg.find_calls(kf, "grin_keychain::types::Keychain::derive_key")
            held = bool(dk)
            for db_, dt in dk:
                oo = vf.origins(kf, dt["a"][0])
                if not (vf.has_call(oo, "grin_keychain::types::Keychain::mask_master_key") and vf.has_call(oo, "core::clone::Clone::clone")):
                    held = False
            run.instance(R1, {"fn": "LMDBBackend::keychain", "obligation": "root key is derived from the clone that mask_master_key was applied to"}, held=held)
            if not held:
                run.finding(Finding(R1, kid, "root key not derived from the masked clone", site=kf.loc()))
        # mask applied whenever supplied: Ok unreachable with mask=Some unless mask_master_key Ok
        mm = cfg.find_calls(kf, "grin_keychain::types::Keychain::mask_master_key")
        mp = mask_param(kf)
        if not mm or mp is None:
            run.error("C14.R1: mask_master_key call or mask parameter missing in keychain()")
        else:
            mg = cfg.track_value(kf, [(mp, "option", False)])
            mok, _ = c.guard_edges(ctx, kf, "grin_keychain::types::Keychain::mask_master_key", R1)
            c.require_pass(ctx, R1, kid, ("edges", mg.fail | mok, "{mask is None, mask_master_key Ok}"), ("okret",), "a supplied mask is applied (Ok) before the comparison")

    R2 = "C14.R2"
    run.rule(R2, "the raw keychain field does not escape LMDBBackend; Batch.keychain only from keychain(mask)", floor=4)
    allowed_readers = {BACKEND + "keychain", BACKEND + "set_keychain", BACKEND + "close"}
    readers = {}
    for fid, f in db.fns.items():
        if non_production(fid):
            continue
        for b, bb in enumerate(f.bbs):
            for s in bb["s"]:
                if s["k"] != "a":
                    continue
                places = [s["d"]]
                r = s["r"]
                for key in ("o", "l", "r"):
                    if isinstance(r.get(key), dict):
                        p = vf.op_place(r[key])
                        if p:
                            places.append(p)
                if "p" in r:
                    places.append(r["p"])
                for _n, o in r.get("f", []):
                    p = vf.op_place(o)
                    if p:
                        places.append(p)
                for p in places:
                    for e in p[1]:
                        if isinstance(e, dict) and e.get("n") == "keychain" and e.get("a") == LMADT:
                            readers.setdefault(fid, s["sp"])
            t = bb["t"]
            if t["k"] == "call":
                for a in t["a"]:
                    p = vf.op_place(a)
                    if p:
                        for e in p[1]:
                            if isinstance(e, dict) and e.get("n") == "keychain" and e.get("a") == LMADT:
                                readers.setdefault(fid, t["sp"])
    for fid, sp in sorted(readers.items()):
        held = fid in allowed_readers
        run.instance(R2, {"fn": pp.short(fid), "obligation": "access to LMDBBackend.keychain only in keychain()/set_keychain()/close()"}, held=held)
        if not held:
            run.finding(Finding(R2, fid, "raw LMDBBackend.keychain accessed outside keychain/set_keychain/close", site=":".join(sp.split(":")[:2])))
    if not readers:
        run.error("C14.R2: no access to LMDBBackend.keychain found (field renamed?)")
    # LMDBBackend struct literals (keychain: None at construction)
    # Batch literals
    batch_ctor = {}
    for fid, f in db.fns.items():
        for b, bb in enumerate(f.bbs):
            for s in bb["s"]:
                if s["k"] == "a" and s["r"]["k"] == "agg" and s["r"].get("adt") == LM + "Batch":
                    batch_ctor.setdefault(fid, []).append((b, s))
    for fid, lst in sorted(batch_ctor.items()):
        f = db.fns[fid]
        for b, s in lst:
            kc = [o for n, o in s["r"]["f"] if n == "keychain"][0]
            o = vf.origins(f, kc)
            if fid == BACKEND + "batch":
                held = vf.has_call(o, c.WB + "keychain") and ("agg", "core::option::Option", "Some") in o
                # and the literal is only reachable through the Ok-edge of self.keychain(mask)
                if held:
                    ke, _ = c.guard_edges(ctx, f, c.WB + "keychain", R2)
                    held, _p = cfg.must_pass(f, ke, {b})
                what = "Batch literal in batch(): keychain := Some(self.keychain(mask)?)"
            elif fid == BACKEND + "batch_no_mask":
                held = ("agg", "core::option::Option", "None") in o and not vf.has_call(o, c.WB + "keychain")
                what = "Batch literal in batch_no_mask(): keychain := None"
            else:
                held = False
                what = "Batch constructed outside batch()/batch_no_mask()"
            run.instance(R2, {"fn": pp.short(fid), "obligation": what}, held=held)
            if not held:
                run.finding(Finding(R2, fid, what + " violated", site=":".join(s["sp"].split(":")[:2])))
    # mask binding in batch(): the keychain(mask) argument is batch's own mask parameter
    bf = ctx.fn(BACKEND + "batch")
    if bf:
        mp = mask_param(bf)
        for b, t in cfg.find_calls(bf, c.WB + "keychain"):
            o = vf.origins(bf, t["a"][1])
            held = mp is not None and ("arg", mp) in o
            run.instance(R2, {"fn": "LMDBBackend::batch", "obligation": "keychain() is called with batch's own mask parameter"}, held=held)
            if not held:
                run.finding(Finding(R2, bf.id, "batch() does not pass its mask parameter to keychain()", site=c.site_of(bf, b)))
    # callers of batch_no_mask
    bnm = []
    for fid, f in db.fns.items():
        if non_production(fid):
            continue
        for b, t in f.calls():
            if t.get("f") == c.WB + "batch_no_mask":
                bnm.append((fid, c.site_of(f, b)))
    ALLOWED_BNM = {c.IMPLS + "lifecycle::default::DefaultLCProvider"}
    for fid, site in bnm:
        held = "lifecycle::default::DefaultLCProvider" in fid and fid.endswith("::create_wallet")
        run.instance(R2, {"fn": pp.short(fid), "obligation": "batch_no_mask only used by create_wallet (no keychain yet)"}, held=held)
        if not held:
            run.finding(Finding(R2, fid, "batch_no_mask used outside create_wallet", site=site))

    R3 = "C14.R3"
    run.rule(R3, "every write goes through a batch built by batch()/batch_no_mask()", floor=2)
    # the grin_store batch (self.db.batch()) is only created inside LMDBBackend methods, and written
    # (put/put_ser/delete) only in Batch methods
    store_writes = {}
    for fid, f in db.fns.items():
        if non_production(fid):
            continue
        for b, t in f.calls():
            fn_ = t.get("f") or ""
            if fn_.startswith("grin_store::lmdb::Batch::") and fn_.split("::")[-1] in ("put", "put_ser", "delete", "commit", "put_ser_with_version"):
                store_writes.setdefault(fid, set()).add(fn_.split("::")[-1])
    BATCH_IMPL = "<" + LM + "Batch<'a, C, K> as " + c.LW + "types::WalletOutputBatch<K>>::"
    ALLOW_RAW = {
        LM + "LMDBBackend::<'ck, C, K>::new": "constructor stores the 'default' account label before any keychain exists (no key-derived data)",
    }
    for fid, ws in sorted(store_writes.items()):
        held = fid.startswith(BATCH_IMPL) or fid in ALLOW_RAW
        if fid in ALLOW_RAW:
            run.note("C14.R3 allow-list: %s: %s" % (pp.short(fid), ALLOW_RAW[fid]))
        run.instance(R3, {"fn": pp.short(fid), "obligation": "grin_store batch writes only inside impl WalletOutputBatch for Batch", "ops": sorted(ws)}, held=held)
        if not held:
            run.finding(Finding(R3, fid, "raw store write outside the checked Batch", site=db.fns[fid].loc(), detail=str(sorted(ws))))
    if not store_writes:
        run.error("C14.R3: no grin_store batch writes found (API renamed?)")

    R4 = "C14.R4"
    run.rule(R4, "mask forwarding: a function given a mask passes that mask (never None/another) to every callee taking one", floor=60)
    owner_methods = {}
    nforward = 0
    for fid, f in sorted(db.fns.items()):
        if non_production(fid) or f.crate in ("grin_wallet",):
            continue
        mp = mask_param(f)
        if mp is None:
            continue
        forwards = 0
        for b, t in f.calls():
            tg = ctx.cg.targets_of_call(t)
            idx = None
            for callee, _k in tg:
                cf = db.fns[callee]
                cmp_ = mask_param(cf)
                if cmp_ is not None:
                    idx = cmp_ - 1
                    break
            if idx is None or idx >= len(t["a"]):
                continue
            o = vf.origins(f, t["a"][idx])
            held = ("arg", mp) in o
            forwards += 1
            nforward += 1
            run.instance(R4, {"fn": pp.short(fid), "callee": pp.short(t["f"]), "site": t["sp"].split(":")[1]}, held=held)
            if not held:
                run.finding(Finding(R4, fid, "mask not forwarded to %s" % pp.short(t["f"]), site=c.site_of(f, b), detail="argument origins: %s" % sorted(map(str, o))[:8]))
        if fid.startswith(c.API + "owner::Owner::<L, C, K>::") and "{closure" not in fid:
            owner_methods[fid] = forwards
    # closures inside Owner methods forward on behalf of the method
    run.rule("C14.R4b", "every api::Owner method with a keychain_mask consults it (or is listed as key-free)", floor=25)
    for fid, fw in sorted(owner_methods.items()):
        name = fid.split("::")[-1]
        total = fw
        for cl in db.closures_of(fid):
            cf = db.fns[cl]
            # closure captures: count forwarding calls inside closures whose arg derives from captured mask
            for b, t in cf.calls():
                for callee, _k in ctx.cg.targets_of_call(t):
                    if mask_param(db.fns[callee]) is not None:
                        total += 1
        held = total > 0 or name in OWNER_NO_KEY
        run.instance("C14.R4b", {"fn": pp.short(fid), "forwards": total, "listed_key_free": OWNER_NO_KEY.get(name)}, held=held)
        if not held:
            run.finding(Finding("C14.R4b", fid, "Owner method takes a keychain_mask but never consults it", site=db.fns[fid].loc()))

    R7 = "C14.R7"
    run.rule(R7, "where an Owner method tests the token itself (keychain(mask) only to see it accepted), the test comes first: no libwallet call of the method is reachable without its Ok edge", floor=4)
    KC = c.WB + "keychain"
    for fid in sorted(owner_methods):
        f = db.fns[fid]
        tests = [(b, t) for b, t in cfg.find_calls(f, KC)]
        if not tests:
            continue
        ok = set()
        for b, _t in tests:
            ok |= cfg.call_guard(f, b).ok
        sinks7 = {b for b, t in f.calls() if (t.get("f") or "").startswith((c.LW + "api_impl::owner::", c.LW + "api_impl::foreign::"))}
        if not sinks7 or not ok:
            continue
        held, path = cfg.must_pass(f, ok, sinks7)
        run.instance(R7, {"fn": pp.short(fid), "obligation": "every libwallet call of the method requires the token test Ok", "calls": len(sinks7)}, held=held)
        if not held:
            run.finding(Finding(R7, fid, "the method acts before it has tested the token: with a wrong or missing token it still fails with the mask error, but its effect has already happened", site=c.site_of(f, path[-1]), detail=cfg.describe_path(f, path)))

    R8 = "C14.R8"
    run.rule(R8, "an Owner method that hands the token to a thread of its own tests it first: start_updater spawns the updater only on the Ok edge of keychain(mask)", floor=1)
    su = ctx.fn(c.API + "owner::Owner::<L, C, K>::start_updater")
    if su is None:
        run.error("C14.R8: Owner::start_updater not found")
    else:
        spawns = {b for b, t in su.calls() if (t.get("f") or "").endswith(("Builder::spawn", "thread::spawn", "thread::spawn_scoped"))}
        ok8 = set()
        for b, _t in cfg.find_calls(su, c.WB + "keychain"):
            ok8 |= cfg.call_guard(su, b).ok
        held = bool(spawns) and bool(ok8) and cfg.must_pass(su, ok8, spawns)[0]
        if not spawns:
            run.error("C14.R8: thread spawn not found in start_updater")
        run.instance(R8, {"fn": "Owner::start_updater", "obligation": "the updater thread is spawned only after keychain(mask) Ok", "token tests": len(ok8)}, held=held)
        if not held:
            run.finding(Finding(R8, su.id, "start_updater does not test the token: with a wrong or missing token it returns Ok, the spawned thread fails at its first refresh and leaves the 'updater running' flag set, after which the rightful owner's refreshes are skipped", site=su.loc()))

    R9 = "C14.R9"
    run.rule(R9, "the 'updater is running' flag (which makes every owner call skip its own refresh) is cleared whenever the updater thread ends, also when it ends on an error such as a token that is no longer valid after close/open", floor=1)
    ur = None
    for fid_, f_ in db.fns.items():
        if fid_.endswith("owner_updater::Updater::<'a, L, C, K>::run"):
            ur = f_
    if ur is None:
        run.error("C14.R9: Updater::run not found")
    else:
        stores = [(b, t) for b, t in ur.calls() if (t.get("f") or "").endswith("Atomic::<bool>::store") or (t.get("f") or "").endswith("AtomicBool::store")]
        set_true = [b for b, t in stores if vf.const_of_operand(ur, t["a"][1]) == "1"]
        set_false = {b for b, t in stores if vf.const_of_operand(ur, t["a"][1]) == "0"}
        rets = cfg.return_blocks(ur)
        held = bool(set_true)
        if held:
            # an exit is fine when it passes store(false), or the edge on which is_running was just read as false
            seen_false = set()
            for b, t in ur.calls():
                if (t.get("f") or "").endswith("Atomic::<bool>::load") or (t.get("f") or "").endswith("AtomicBool::load"):
                    seen_false |= cfg.call_guard(ur, b).fail
            for b in set_true:
                par = cfg.reach(ur, starts=ur.succ(b), cut_nodes=frozenset(set_false), cut_edges=frozenset(seen_false))
                if any(r in par for r in rets):
                    held = False
        run.instance(R9, {"fn": "Updater::run", "obligation": "no error exit of the updater loop leaves is_running set", "store(true)": len(set_true), "store(false)": len(set_false)}, held=held)
        if not held:
            run.finding(Finding(R9, ur.id, "when the updater thread ends on an error (e.g. its token became invalid because the wallet was closed and reopened) the 'updater running' flag stays set: from then on every refresh the owner asks for is skipped", site=ur.loc()))

    R5 = "C14.R5"
    run.rule(R5, "closed means closed: wallet_inst() errs on None; close_wallet clears the backend", floor=3)
    wi = [f for k, f in db.fns.items() if "DefaultLCProvider" in k and k.endswith("::wallet_inst") and "WalletLCProvider" in k]
    cw = [f for k, f in db.fns.items() if "DefaultLCProvider" in k and k.endswith("::close_wallet") and "WalletLCProvider" in k]
    if len(wi) != 1 or len(cw) != 1:
        run.error("C14.R5: wallet_inst/close_wallet impl not found")
    else:
        f = wi[0]
        DLC = c.IMPLS + "lifecycle::default::DefaultLCProvider"
        g = None
        for b, t in f.calls():
            if t["f"] in ("core::option::Option::<T>::as_mut", "core::option::Option::<T>::as_ref") and vf.has_field(vf.origins(f, t["a"][0]), DLC, "backend"):
                gg = cfg.call_guard(f, b)
                if gg.ok:
                    g = gg if g is None else g
        if g is None:
            run.error("C14.R5: wallet_inst does not branch on self.backend")
        else:
            held, _p = cfg.must_pass(f, g.ok, cfg.return_blocks(f), cut_nodes=cfg.error_return_blocks(f))
            run.instance(R5, {"fn": "DefaultLCProvider::wallet_inst", "obligation": "Ok only on the backend-is-Some edge"}, held=held)
            if not held:
                run.finding(Finding(R5, f.id, "wallet_inst can return Ok with no backend", site=f.loc()))
        f = cw[0]
        asg = vf.field_assignments(f, DLC, "backend")
        held = False
        for b, s in asg:
            o = vf.get_flow(f).of_rvalue(s["r"])
            if ("agg", "core::option::Option", "None") in o:
                if f.bbs[b]["cleanup"]:
                    continue
                h, _p = cfg.must_pass(f, {(b, x) for x in f.succ(b)}, cfg.return_blocks(f), cut_nodes=cfg.error_return_blocks(f))
                held = held or h
        run.instance(R5, {"fn": "DefaultLCProvider::close_wallet", "obligation": "every Ok path sets backend = None"}, held=held)
        if not held:
            run.finding(Finding(R5, f.id, "close_wallet can return Ok without clearing the backend", site=f.loc()))
        cl = ctx.fn(BACKEND + "close")
        if cl:
            asg = vf.field_assignments(cl, LMADT, "keychain")
            held = any(("agg", "core::option::Option", "None") in vf.get_flow(cl).of_rvalue(s["r"]) for _b, s in asg)
            run.instance(R5, {"fn": "LMDBBackend::close", "obligation": "close() drops the keychain"}, held=held)
            if not held:
                run.finding(Finding(R5, cl.id, "LMDBBackend::close no longer clears the keychain", site=cl.loc()))
    R6 = "C14.R6"
    run.rule(R6, "opening with a mask: the stored keychain is the masked one, the token returned is the mask applied, the checksum is of the unmasked root key", floor=3)
    sk = ctx.fn(BACKEND + "set_keychain")
    if sk:
        mp = c.param(sk, "mask", "bool", 0)
        gm = cfg.local_guard(sk, mp) if mp is not None else None
        mm = cfg.find_calls(sk, "grin_keychain::types::Keychain::mask_master_key")
        ka = [(b, st) for b, st in vf.field_assignments(sk, LMADT, "keychain")]
        cs = [(b, st) for b, st in vf.field_assignments(sk, LMADT, "master_checksum")]
        if gm is None or not gm.ok or len(mm) != 1 or not ka or not cs:
            run.error("C14.R6: set_keychain anchors not found (mask switch %s, mask_master_key calls %d, keychain assignments %d, checksum assignments %d)" % (bool(gm and gm.ok), len(mm), len(ka), len(cs)))
        else:
            mb, mt = mm[0]
            mok = cfg.call_guard(sk, mb).ok
            # (a) with mask = true the keychain is stored only after mask_master_key Ok
            par = cfg.reach(sk, starts=[d for (_s, d) in gm.ok], cut_edges=mok)
            h = bool(mok) and not any(b in par for b, _st in ka) and cfg.must_pass(sk, gm.ok, {mb})[0]
            run.instance(R6, {"fn": "set_keychain", "obligation": "mask requested => self.keychain is assigned only after mask_master_key Ok"}, held=h)
            if not h:
                run.finding(Finding(R6, sk.id, "with a mask requested the keychain can be stored without having been masked", site=sk.loc()))
            # (b) the token handed back is the value the key was masked with
            ml = vf.strip_clones(sk, mt["a"][1])
            rets = []
            for b in cfg.ok_value_blocks(sk):
                for st in sk.bbs[b]["s"]:
                    if st["k"] == "a" and st["d"] == [0, []] and st["r"]["k"] == "agg" and st["r"]["f"]:
                        rets.append(st["r"]["f"][0][1])
            key_calls = lambda pr: {x for x in pr if x[0] == "call" and x[1].endswith("SecretKey::new")}
            applied = key_calls(vf.producers(sk, mt["a"][1]))
            h = bool(rets) and bool(applied) and all(key_calls(vf.producers(sk, o)) == applied for o in rets)
            run.instance(R6, {"fn": "set_keychain", "obligation": "the returned token is the mask value passed to mask_master_key"}, held=h)
            if not h:
                run.finding(Finding(R6, sk.id, "the token returned by set_keychain is not the mask that was applied", site=sk.loc()))
            # (c) the checksum is computed before masking (of the true root key)
            ce = {(b, x) for b, _st in cs for x in sk.succ(b)}
            h = cfg.must_pass(sk, ce, {mb})[0]
            run.instance(R6, {"fn": "set_keychain", "obligation": "master_checksum is taken before the key is masked"}, held=h)
            if not h:
                run.finding(Finding(R6, sk.id, "master_checksum is not computed from the unmasked keychain", site=sk.loc()))
    R10 = "C14.R10"
    run.rule(R10, "the token is random: the mask set_keychain draws comes from the system RNG on every production path (use_test_rng is the literal false, or follows doctest_mode) - with the test RNG, a fixed sequence, every masked wallet gets the same token, and another wallet's or an earlier session's token is accepted", floor=2)
    from .shared import test_rng_roots
    n10 = test_rng_roots(ctx, R10, [("<" + c.IMPLS + "backends::lmdb::LMDBBackend<'ck, C, K> as " + c.LW + "types::WalletBackend<'ck, C, K>>::set_keychain", "use_test_rng")], "every masked wallet opened this way gets the same, predictable token")
    if n10 == 0:
        run.error("C14.R10: no root of set_keychain's use_test_rng found (anchor missing)")
    run.not_decided += ["'behaves exactly like an unmasked wallet' (equality of behaviours)", "which read-only queries reveal non-secret data without a token (listed under R4b, by design)"]
