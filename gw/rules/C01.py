"""C01 - Sender-side transaction construction conserves value (structural clauses)."""
from . import common as c
from .. import cfg, dectree, panics, valueflow as vf, pp
from ..callgraph import STATE_EFFECTS, non_production
from ..engine import Finding

SEL = c.LW + "internal::selection::"
TX = c.LW + "internal::tx::"
OWNER = c.LW + "api_impl::owner::"
FOREIGN = c.LW + "api_impl::foreign::"
OD = c.LW + "types::OutputData"

SCOPE_FNS = (
    TX + "new_tx_slate", TX + "estimate_send_tx", TX + "add_inputs_to_slate", TX + "create_late_lock_context",
    OWNER + "init_send_tx", OWNER + "process_invoice_tx", OWNER + "tx_lock_outputs",
    OD + "::num_confirmations", OD + "::eligible_to_spend",
)
_SUPPLY = "sum of stored output values: bounded by the total coin supply (< 2^63 nanogrin), assumption recorded in DESIGN.md"
ALLOW = {
    (SEL + "lock_tx_context", "add_assign_trait <u64 as core::ops::arith::AddAssign<&u64>>::add_assign"): (1, _SUPPLY),
    (SEL + "lock_tx_context", "assert:Overflow:Add "): (3, _SUPPLY + " (amount_debited, amount_credited) / num_outputs counter bounded by the number of change outputs"),
    (SEL + "lock_tx_context", "unwrap &(core::option::Option<alloc::string::String>, u64)"): (1, "output_commits.get(&id): the same ids were inserted from context.get_outputs() at the top of the function"),
    (SEL + "lock_tx_context", "unwrap uuid::Uuid"): (1, "tx_entry.tx_slate_id was set to Some(slate_id) when the entry was built"),
    (SEL + "select_coins_and_fee", "iter_sum u64"): (2, _SUPPLY),
    (SEL + "inputs_and_change", "iter_sum u64"): (1, _SUPPLY),
    (SEL + "inputs_and_change", "assert:Overflow:Sub "): (3, "total - amount - fee: the only caller (select_send_tx) passes the result of select_coins_and_fee, whose loop exits only with total >= amount + fee (total >= amount when the amount includes the fee); num_change_outputs - 1 after the num_change_outputs == 0 refusal"),
    (SEL + "inputs_and_change", "assert:Overflow:Add "): (1, "part_change + remainder_change <= change"),
    (SEL + "select_coins_and_fee", "assert:Overflow:Add "): (1, "change_outputs + 1 on usize: change_outputs is InitTxArgs.num_change_outputs (u32) widened to usize"),
    (SEL + "select_from::{closure#0}", "assert:Overflow:Add "): (1, _SUPPLY),
    (SEL + "select_from::{closure#1}", "assert:Overflow:Add "): (1, _SUPPLY),
    (TX + "new_tx_slate", "unwrap uuid::Uuid"): (1, "Uuid::from_slice over a constant 16-byte array (test rng only)"),
    (TX + "new_tx_slate", "assert:Overflow:Add "): (1, "test-only slate counter (u8) under use_test_rng"),
    (OD + "::num_confirmations", "assert:Overflow:Add "): (1, "1 + (current_height - height): block heights, far below u64::MAX"),
}


def change_split_guard(site):
    """`change % part_change`: part_change = change / n is >= 1 only if change >= n;
    require that the site is dominated by the change >= n edge of a comparison
    between the local `change` and the change-output count."""
    fn = site.fn
    # by role: the divisor of the remainder is `part = change / n`; `change` is that division's dividend
    ch = []
    if site.ops:
        dl = vf.strip_clones(fn, site.ops[0])
        for d in fn.defs().get(dl, []) if dl is not None else []:
            if d[0] == "a" and d[3]["r"]["k"] == "bin" and d[3]["r"]["op"] == "Div":
                l0 = vf.strip_clones(fn, d[3]["r"]["l"])
                if l0 is not None:
                    ch.append(l0)
    if len(ch) != 1:
        ch = [l for l, n in fn.var_names().items() if n == "change"]
    if len(ch) != 1:
        return False
    for x in cfg.comparisons(fn):
        for (l, r, swap) in ((x.l, x.r, False), (x.r, x.l, True)):
            pl = vf.op_place(l)
            if pl is None or vf.strip_clones(fn, l) != ch[0]:
                continue
            if not any(p[0] == "arg" for p in vf.producers(fn, r)):
                continue
            op = x.op if not swap else cfg._SWAP[x.op]
            good = x.true_edges if op == "Ge" else (x.false_edges if op == "Lt" else set())
            if good and cfg.must_pass(fn, good, {site.b})[0]:
                return True
    return False


def scope_fns(ctx):
    db = ctx.db
    out = []
    for k, f in db.fns.items():
        if non_production(k):
            continue
        root = f.root_fn(db)
        if root.startswith(SEL) or root in SCOPE_FNS:
            out.append(f)
    return out


def _closure_args(g, t):
    out = []
    for a in t["a"]:
        p = vf.op_place(a)
        if not p or p[1]:
            continue
        for bb in g.bbs:
            for s in bb["s"]:
                if s["k"] == "a" and s["d"] == [p[0], []] and s["r"]["k"] == "agg" and s["r"].get("ak") == "closure":
                    out.append(s["r"]["adt"])
    return out


def run(ctx):
    run = ctx.run
    db = ctx.db
    R1 = "C01.R1"
    run.rule(R1, "error-not-crash: panic sites in selection / slate construction", floor=20)
    fns = scope_fns(ctx)
    # reachable from the entry points
    par = ctx.cg.reachable([OWNER + "init_send_tx", OWNER + "process_invoice_tx", FOREIGN + "finalize_tx", TX + "estimate_send_tx"])
    fns = [f for f in fns if f.id in par or f.root_fn(db) in par]
    run.extra["functions_in_scope"] = len(fns)
    used = {}
    for s in sorted(panics.all_sites(fns, ctx.db), key=lambda s: (s.fn.id, s.sp)):
        what = "%s %s" % (s.kind, s.detail)
        item = {"fn": pp.short(s.fn.id), "site": s.site(), "what": what}
        if s.discharged:
            item["discharged_by"] = s.discharged
            run.instance(R1, item, held=True)
            continue
        a = ALLOW.get((s.fn.id, what))
        if a and what.startswith("assert:RemainderByZero") and not change_split_guard(s):
            a = None
        used[(s.fn.id, what)] = used.get((s.fn.id, what), 0) + 1
        if a and used[(s.fn.id, what)] <= a[0]:
            item["allowed"] = a[1]
            run.instance(R1, item, held=True)
            continue
        run.instance(R1, item, held=False)
        run.finding(Finding(R1, s.fn.id, what, site=s.site(), detail="panic-capable site reachable while building a send; operands %s" % [pp.operand(o) for o in s.ops][:3]))

    R2 = "C01.R2"
    run.rule(R2, "nothing that reserves funds is persisted by initiation / on failure", floor=5)
    RESERVING = {"lock_output", "save_tx_log_entry"}
    for fid in (OWNER + "init_send_tx",):
        f = ctx.fn(fid)
        if f:
            # reservation effects only through refresh (apply_api_outputs) are bookkeeping of chain state, not reservations:
            # lock_output must be unreachable altogether
            e = ctx.eff.of(fid)
            held = "lock_output" not in e
            run.instance(R2, {"fn": pp.short(fid), "obligation": "lock_output unreachable from initiation", "effects": sorted(e)}, held=held)
            if not held:
                run.finding(Finding(R2, fid, "initiation can reach lock_output", site=f.loc()))
    for fid in (OWNER + "init_send_tx", OWNER + "process_invoice_tx"):
        f = ctx.fn(fid)
        if not f:
            continue
        # the only direct persistent write of the entry point itself is save_private_context + commit, and it is
        # preceded by every fallible selection call
        direct = [(b, t) for b, t in f.calls() if t.get("f") in (c.WOB + "save_private_context",)]
        held = len(direct) == 1
        run.instance(R2, {"fn": pp.short(fid), "obligation": "exactly one save_private_context in the entry point"}, held=held)
        if not held:
            run.finding(Finding(R2, fid, "expected exactly one save_private_context", site=f.loc()))
            continue
        sb = {direct[0][0]}
        sel_calls = [TX + "add_inputs_to_slate", TX + "create_late_lock_context"]
        present = [p for p in sel_calls if cfg.find_calls(f, p)]
        e = set()
        for p in present:
            ee, _n = c.guard_edges(ctx, f, p, R2)
            e |= ee
        h = bool(e) and cfg.must_pass(f, e, sb)[0]
        run.instance(R2, {"fn": pp.short(fid), "obligation": "the context is saved only after selection/fee computation returned Ok", "selection_calls": [pp.short(p) for p in present]}, held=h)
        if not h:
            run.finding(Finding(R2, fid, "context saved before selection succeeded", site=c.site_of(f, direct[0][0])))
        ce, _n = c.guard_edges(ctx, f, c.WOB + "commit", R2)
        est = c.after_call_edges(f, TX + "estimate_send_tx")
        c.require_pass(ctx, R2, fid, ("edges", ce | est, "{context commit Ok, estimate-only path}"), ("okret",), "Ok return requires the context commit Ok (or is the estimate-only path, which writes nothing)")
        if est:
            # the estimate-only path reaches no storage effect of its own
            starts = [d for (_s, d) in est]
            par_ = cfg.reach(f, starts=starts)
            eb = ctx.eff.effect_blocks(f)
            h2 = not any(b in par_ for b in eb)
            run.instance(R2, {"fn": pp.short(fid), "obligation": "no storage effect after estimate_send_tx on the estimate-only path"}, held=h2)
            if not h2:
                run.finding(Finding(R2, fid, "estimate-only path reaches a storage effect", site=f.loc()))
    # late-lock arm: tx_lock_outputs needs build_send_tx Ok
    fz = ctx.fn(FOREIGN + "finalize_tx")
    if fz:
        c.require_pass(ctx, R2, fz.id, SEL + "build_send_tx", ("call", OWNER + "tx_lock_outputs"), "late lock: tx_lock_outputs requires build_send_tx Ok")
    # reservation exists only in lock_tx_context
    lockers = sorted(fid for fid, f in db.fns.items() if not non_production(fid) and any(t.get("f") == c.WOB + "lock_output" for _b, t in f.calls()))
    held = lockers == [OWNER + "create_mwixnet_req", SEL + "lock_tx_context"] or lockers == [SEL + "lock_tx_context"]
    run.instance(R2, {"obligation": "lock_output is called only from lock_tx_context (and create_mwixnet_req)", "found": [pp.short(x) for x in lockers]}, held=held)
    if not held:
        run.finding(Finding(R2, SEL + "*", "lock_output called from %s" % lockers, site=""))

    R3 = "C01.R3"
    run.rule(R3, "inputs are spendable outputs of the source account (filter + truth table of eligible_to_spend)", floor=8)
    sc = ctx.fn(SEL + "select_coins")
    if sc:
        its = cfg.find_calls(sc, c.WB + "iter")
        flt = [(b, t) for b, t in sc.calls() if (t.get("f") or "").endswith("Iterator::filter")]
        held = len(its) == 1 and len(flt) == 1
        if held:
            # filter receives the iterator from wallet.iter()
            held = vf.has_call(vf.producers(sc, flt[0][1]["a"][0]), c.WB + "iter")
            # closure reads root_key_id, compares with the parent_key_id parameter and calls eligible_to_spend with the fn's params
            cl = [k for k in db.closures_of(sc.id)]
            fcl = None
            for k in cl:
                if cfg.find_calls(db.fns[k], OD + "::eligible_to_spend"):
                    fcl = db.fns[k]
            held = held and fcl is not None
            if fcl is not None:
                cmps = [x for x in cfg.comparisons(fcl) if x.op in ("Eq", "Ne") and vf.has_field(vf.producers(fcl, x.l) | vf.producers(fcl, x.r), OD, "root_key_id")]
                held = held and len(cmps) == 1
                # Ok: the closure returns true only if both hold: eligible call result and eq -> check return true requires both
                if cmps:
                    x = cmps[0]
                    eqe = x.true_edges if x.op == "Eq" else x.false_edges
                    pe = dectree.PathEnum(fcl, db)
                    trues = 0
                    bad = 0
                    for p in pe.paths(0):
                        v = [e[2] for e in p.events if e[0] == "set" and e[1] == "_0"]
                        may_true = not v or v[-1] != "0"
                        if may_true:
                            trues += 1
                            took_eq = any((a, b_) in eqe for a, b_ in zip(p.blocks, p.blocks[1:]))
                            called = any(e[0] == "call" and e[1] == OD + "::eligible_to_spend" for e in p.events)
                            if not (took_eq and called):
                                bad += 1
                    held = held and trues > 0 and bad == 0
                # argument binding: eligible_to_spend(current_height, minimum_confirmations) are captures of the fn params of the same name
                for b, t in cfg.find_calls(fcl, OD + "::eligible_to_spend"):
                    names = []
                    for a in t["a"][1:]:
                        pl = dectree.PathEnum(fcl, db).resolve_place(a)
                        nm = [n for n, p, _a in fcl.vars if pl is not None and p == pl]
                        names.append(nm[0] if nm else None)
                    held = held and names == ["current_height", "minimum_confirmations"]
        run.instance(R3, {"fn": "select_coins", "obligation": "candidates = wallet.iter().filter(root_key_id == parent_key_id && eligible_to_spend(current_height, minimum_confirmations))"}, held=held)
        if not held:
            run.finding(Finding(R3, sc.id, "selection filter no longer restricts to the source account's eligible outputs", site=sc.loc()))
        # everything returned derives from the filtered vector
        fl = vf.get_flow(sc)
        rets = []
        for b, bb in enumerate(sc.bbs):
            for s in bb["s"]:
                if s["k"] == "a" and s["d"] == [0, []]:
                    rets.append(fl.of_rvalue(s["r"]))
        h = bool(rets) and all(any(x[0] == "call" and x[1].endswith("Iterator::filter") for x in o) for o in rets)
        run.instance(R3, {"fn": "select_coins", "obligation": "every returned coin vector derives from the filtered candidates", "returns": len(rets)}, held=h)
        if not h:
            run.finding(Finding(R3, sc.id, "select_coins may return outputs that did not pass the filter", site=sc.loc()))
    el = ctx.fn(OD + "::eligible_to_spend")
    if el:
        pe = dectree.PathEnum(el, db)
        U = {"_1.status": frozenset(["Unconfirmed", "Unspent", "Locked", "Spent", "Reverted"])}
        table = {}
        for st in sorted(U["_1.status"]):
            res = set()
            for p in pe.paths(0, init_state={"_1.status": frozenset([st])}, universe=U):
                v = [e[2] for e in p.events if e[0] == "set" and e[1] == "_0"]
                val = v[-1] if v else None
                atoms = {e[1]: e[2] for e in p.events if e[0] == "atom"}
                res.add((val, atoms.get("_1.is_coinbase"), tuple(sorted((k.split("@")[0], v2) for k, v2 in atoms.items() if k.startswith("cmp")))))
            table[st] = res
            may_true = [r for r in res if r[0] != "0"]
            if st in ("Spent", "Locked", "Reverted"):
                held = not may_true
                what = "status %s is never eligible" % st
            elif st == "Unconfirmed":
                held = all(r[1] is False for r in may_true) and bool(may_true)
                what = "Unconfirmed is eligible only when not coinbase (and only through the min_conf == 0 expression)"
                held = held and all(r[0] is None for r in may_true)
            else:
                held = bool(may_true)
                what = "Unspent can be eligible"
            run.instance(R3, {"fn": "eligible_to_spend", "status": st, "outcomes": sorted(map(str, res)), "obligation": what}, held=held)
            if not held:
                run.finding(Finding(R3, el.id, "eligible_to_spend truth table changed: " + what, site=el.loc(), detail=str(sorted(map(str, res)))))
        # lock_height > current_height => false
        lc = [x for x in cfg.comparisons(el) if vf.has_field(vf.producers(el, x.l) | vf.producers(el, x.r), OD, "lock_height")]
        held = len(lc) == 1
        if held:
            x = lc[0]
            fl = vf.get_flow(el)
            op = x.normalized(lambda o: vf.has_field(o, OD, "lock_height"), lambda o: ("arg", 2) in o, fl)
            locked = x.true_edges if op == "Gt" else (x.false_edges if op == "Le" else None)
            held = locked is not None
            if held:
                # from locked edges, only `false` is returned
                ps = []
                for (_s, d) in locked:
                    ps += pe.paths(d)
                held = all(([e[2] for e in p.events if e[0] == "set" and e[1] == "_0"] or [None])[-1] == "0" for p in ps) and bool(ps)
        run.instance(R3, {"fn": "eligible_to_spend", "obligation": "lock_height > current_height => not eligible"}, held=held)
        if not held:
            run.finding(Finding(R3, el.id, "an output whose lock_height is above the current height can be eligible", site=el.loc()))
        # Unspent needs num_confirmations >= minimum_confirmations
        nc = [x for x in cfg.comparisons(el) if vf.has_call(vf.producers(el, x.l) | vf.producers(el, x.r), OD + "::num_confirmations")]
        held = len(nc) == 1
        if held:
            op = nc[0].normalized(lambda o: vf.has_call(o, OD + "::num_confirmations"), lambda o: ("arg", 3) in o and not vf.has_call(o, OD + "::num_confirmations"), vf.get_flow(el))
            held = op in ("Ge",)
        run.instance(R3, {"fn": "eligible_to_spend", "obligation": "Unspent: num_confirmations(current_height) >= minimum_confirmations"}, held=held)
        if not held:
            run.finding(Finding(R3, el.id, "confirmation threshold comparison changed", site=el.loc()))

    R4 = "C01.R4"
    run.rule(R4, "fee provenance and dependency sets of change / recipient amount / context", floor=6)
    scf = ctx.fn(SEL + "select_coins_and_fee")
    if scf:
        fl = vf.get_flow(scf)
        # fee local, found by role: the 4th component of the returned Ok((coins, total, new_amount, fee))
        fee_l, coins_l = [], []
        for bb in scf.bbs:
            for st in bb["s"]:
                if st["k"] == "a" and st["r"]["k"] == "agg" and st["r"].get("ak") == "tuple" and len(st["r"]["f"]) == 4:
                    l3 = vf.strip_clones(scf, st["r"]["f"][3][1])
                    l0 = vf.strip_clones(scf, st["r"]["f"][0][1])
                    if l3 is not None and scf.locals[l3]["ty"] == "u64" and l3 not in fee_l:
                        fee_l.append(l3)
                    if l0 is not None and l0 not in coins_l:
                        coins_l.append(l0)
        held = len(fee_l) == 1
        if held:
            defs = scf.defs().get(fee_l[0], [])
            prods = set()
            for d in defs:
                if d[0] == "call":
                    prods.add(d[2].get("f"))
                elif d[0] == "a":
                    for key in ("o", "p"):
                        if key in d[3]["r"]:
                            prods |= {x[1] for x in vf.producers(scf, d[3]["r"][key]) if x[0] == "call"}
                            prods |= {"<%s>" % x[0] for x in vf.producers(scf, d[3]["r"][key]) if x[0] != "call"}
            held = prods == {"grin_core::libtx::tx_fee"}
            run.instance(R4, {"fn": "select_coins_and_fee", "obligation": "every definition of fee is a grin_core::libtx::tx_fee result", "producers": sorted(prods)}, held=held)
            if not held:
                run.finding(Finding(R4, scf.id, "fee has a definition that is not tx_fee(..)", site=scf.loc(), detail=str(sorted(prods))))
            for b, t in cfg.find_calls(scf, "grin_core::libtx::tx_fee"):
                o = vf.producers(scf, t["a"][0])
                h = any(x[0] == "call" and x[1].endswith("::len") for x in o)
                lens = [x for x in o if x[0] == "call" and x[1].endswith("::len")]
                if h:
                    lt = scf.bbs[lens[0][2]]["t"]
                    recv = vf.strip_clones(scf, lt["a"][0])
                    h = recv in coins_l
                run.instance(R4, {"fn": "select_coins_and_fee", "obligation": "tx_fee input count is coins.len()", "site": t["sp"].split(":")[1]}, held=h)
                if not h:
                    run.finding(Finding(R4, scf.id, "tx_fee is not computed from the number of selected coins", site=c.site_of(scf, b)))
    iac = ctx.fn(SEL + "inputs_and_change")
    if iac:
        # by role: every amount handed to build::output depends on the coins, the amount and the fee parameters
        u64_params = [i for i in range(1, iac.argc + 1) if iac.locals[i]["ty"] == "u64"]
        coin_params = [i for i in range(1, iac.argc + 1) if "OutputData" in iac.locals[i]["ty"]]
        outs = cfg.find_calls(iac, "grin_core::libtx::build::output")
        if len(u64_params) != 2 or len(coin_params) != 1 or not outs:
            run.error("C01.R4: inputs_and_change signature / build::output call not as expected (anchor missing)")
        else:
            fl_i = vf.get_flow(iac)
            for b, t in outs:
                o = fl_i.of_operand(t["a"][0])
                held = all(("arg", i) in o for i in u64_params + coin_params)
                run.instance(R4, {"fn": "inputs_and_change", "obligation": "the amount of every change output depends on the coins, the amount and the fee", "site": c.site_of(iac, b)}, held=held)
                if not held:
                    run.finding(Finding(R4, iac.id, "change no longer depends on all of coins/amount/fee", site=c.site_of(iac, b)))
    bst = ctx.fn(SEL + "build_send_tx")
    if bst:
        fl = vf.get_flow(bst)
        for fld, src, what in (("amount", (c.LW + "slate::Slate", "amount"), "Context.amount := slate.amount"), ("fee", (c.LW + "slate::Slate", "fee_fields"), "Context.fee := slate.fee_fields")):
            vf.check_field_source(ctx, R4, bst, dest=(c.LW + "types::Context", fld), src_field=src, what=what)
        ai = cfg.find_calls(bst, c.LW + "types::Context::add_input")
        held = bool(ai) and all(vf.has_call(vf.origins(bst, t["a"][1]), SEL + "select_send_tx") for _b, t in ai)
        run.instance(R4, {"fn": "build_send_tx", "obligation": "context inputs are the coins returned by select_send_tx"}, held=held)
        if not held:
            run.finding(Finding(R4, bst.id, "context inputs are not the selected coins", site=bst.loc()))
        # amount_includes_fee: slate.amount reduced by the fee
        asg = vf.field_assignments(bst, c.LW + "slate::Slate", "amount")
        held = any(vf.has_call(fl.of_rvalue(s["r"]), "core::num::<impl u64>::checked_sub") for _b, s in asg)
        run.instance(R4, {"fn": "build_send_tx", "obligation": "with amount_includes_fee the recipient amount is amount.checked_sub(fee)"}, held=held)
        if not held:
            run.finding(Finding(R4, bst.id, "recipient amount is not reduced by the fee under amount_includes_fee", site=bst.loc()))
    R7 = "C01.R7"
    run.rule(R7, "the change parts add up to the change: part = change / n and remainder = change % n use the same dividend and the same divisor", floor=1)
    if iac:
        divs = [st for bb in iac.bbs if not bb["cleanup"] for st in bb["s"] if st["k"] == "a" and st["r"]["k"] == "bin" and st["r"]["op"] == "Div" and st["r"].get("lty") == "u64"]
        rems = [st for bb in iac.bbs if not bb["cleanup"] for st in bb["s"] if st["k"] == "a" and st["r"]["k"] == "bin" and st["r"]["op"] == "Rem" and st["r"].get("lty") == "u64"]
        if len(divs) != 1 or len(rems) != 1:
            run.error("C01.R7: expected one u64 division and one u64 remainder in inputs_and_change (found %d / %d)" % (len(divs), len(rems)))
        else:
            d, r = divs[0]["r"], rems[0]["r"]
            same_dividend = vf.strip_clones(iac, d["l"]) == vf.strip_clones(iac, r["l"]) and vf.strip_clones(iac, d["l"]) is not None
            pd, pr = vf.producers(iac, d["r"]), vf.producers(iac, r["r"])
            same_divisor = pd == pr and bool(pd)
            held = same_dividend and same_divisor
            run.instance(R7, {"fn": "inputs_and_change", "obligation": "remainder = change % n with the n of part = change / n", "same_dividend": same_dividend, "divisor_of_part": sorted(map(str, pd))[:3], "divisor_of_remainder": sorted(map(str, pr))[:3]}, held=held)
            if not held:
                run.finding(Finding(R7, iac.id, "the change remainder is not taken modulo the number of change outputs: the parts do not add up to the change for small amounts", site=":".join(rems[0]["sp"].split(":")[:2])))
    R8 = "C01.R8"
    run.rule(R8, "a late-locked send selects from the account the transaction was initiated for (the context's), not from whatever account is active at finalize", floor=1)
    fzf = ctx.fn(c.LW + "api_impl::foreign::finalize_tx")
    if fzf:
        bs = cfg.find_calls(fzf, SEL + "build_send_tx")
        if len(bs) != 1:
            run.error("C01.R8: expected one build_send_tx call in foreign::finalize_tx (late-lock arm), found %d" % len(bs))
        else:
            b, t = bs[0]
            pr = vf.producers(fzf, t["a"][10])
            from_ctx = vf.has_field(pr, c.LW + "types::Context", "parent_key_id")
            from_active = vf.has_call(pr, c.WB + "parent_key_id")
            held = from_ctx and not from_active
            run.instance(R8, {"fn": "foreign::finalize_tx", "obligation": "build_send_tx(parent_key_id := context.parent_key_id)", "producers": sorted(map(str, pr))[:4]}, held=held)
            if not held:
                run.finding(Finding(R8, fzf.id, "the late-lock selection uses the active account instead of the account recorded in the context", site=c.site_of(fzf, b)))
    R9 = "C01.R9"
    run.rule(R9, "a late-locked send honours 'amount includes fee': the slate / context amount is the recipient amount computed by select_coins_and_fee", floor=1)
    llc = ctx.fn(TX + "create_late_lock_context")
    if llc:
        sc_calls = cfg.find_calls(llc, SEL + "select_coins_and_fee")
        asg = vf.field_assignments(llc, c.LW + "slate::Slate", "amount")
        held = False
        if len(sc_calls) == 1:
            for b, st in asg:
                if st["r"]["k"] != "use":
                    continue
                pr = vf.producers(llc, st["r"]["o"])
                if any(x[0] == "call" and x[1] == SEL + "select_coins_and_fee" for x in pr) and ("field", "()", "2") in pr:
                    held = True
            # the amount_includes_fee option is forwarded to the estimate
            t = sc_calls[0][1]
            fwd = vf.has_field(vf.producers(llc, t["a"][2]) | vf.origins(llc, t["a"][2]), c.LW + "api_impl::types::InitTxArgs", "amount_includes_fee")
            held = held and fwd
        run.instance(R9, {"fn": "create_late_lock_context", "obligation": "slate.amount := the recipient amount returned by select_coins_and_fee(.., amount_includes_fee, ..)"}, held=held)
        if not held:
            run.finding(Finding(R9, llc.id, "a late-locked send ignores 'amount includes fee': the recipient amount is not reduced by the fee (the sender pays amount + fee)", site=llc.loc()))
    R5 = "C01.R5"
    run.rule(R5, "an agreed (fixed) fee is binding: build_send_tx goes on only when the re-computed fee equals it", floor=1)
    if bst:
        fxp = c.param(bst, "fixed_fee", "core::option::Option<u64>")
        fx = [fxp] if fxp is not None else []
        fixed_arg = fx[0] if fx else None
        found = []
        for g in [bst] + [db.fns[k] for k in db.closures_of(bst.id)]:
            for x in cfg.comparisons(g):
                pl, pr = vf.producers(g, x.l), vf.producers(g, x.r)
                if g.dk == "Closure":
                    # |f| fee <op> f : closure parameter against a captured value, closure applied to fixed_fee
                    sides = [any(y[0] == "arg" and y[1] == 2 for y in p) for p in (pl, pr)]
                    caps = [any(y[0] == "field" and y[1] == g.id for y in p) for p in (pl, pr)]
                    if not ((sides[0] and caps[1]) or (sides[1] and caps[0])):
                        continue
                    applied = False
                    for b, t in bst.calls():
                        if g.id in _closure_args(bst, t) and t["a"] and fixed_arg is not None and any(y[0] == "arg" and y[1] == fixed_arg for y in vf.producers(bst, t["a"][0])):
                            applied = True
                    if applied:
                        found.append((g, x))
                elif fixed_arg is not None:
                    if any(y[0] == "arg" and y[1] == fixed_arg for y in pl | pr):
                        found.append((g, x))
        if not found:
            run.error("C01.R5: comparison of the re-computed fee with fixed_fee not found in build_send_tx (anchor missing)")
        for g, x in found:
            held = x.op in ("Eq", "Ne")
            run.instance(R5, {"fn": pp.short(g.id), "obligation": "fee compared with the fixed fee by (in)equality", "op": x.op, "site": x.site()}, held=held)
            if not held:
                run.finding(Finding(R5, bst.id, "the re-computed fee is accepted although it differs from the agreed fixed fee (comparison %s instead of !=)" % x.op, site=x.site()))
        if found:
            # the mismatch edge returns an error before anything is built
            ret_err = cfg.error_return_blocks(bst)
            ate = cfg.find_calls(bst, c.LW + "slate::Slate::add_transaction_elements")
            guard_calls = [(b, t) for b, t in bst.calls() if t.get("f", "").endswith("Option::<T>::unwrap_or") or t.get("f", "").endswith("Option::<T>::map_or") or t.get("f", "").endswith("Option::<T>::is_some_and")]
            h = False
            for b, t in guard_calls:
                gd = cfg.call_guard(bst, b)
                # bool result: gd.fail = the false edge (no mismatch)
                if gd.fail and ate and cfg.must_pass(bst, gd.fail, {bb for bb, _t in ate})[0]:
                    h = True
            if not guard_calls:
                h = None
            if h is not None:
                run.instance(R5, {"fn": "build_send_tx", "obligation": "transaction elements are added only on the no-mismatch edge"}, held=h)
                if not h:
                    run.finding(Finding(R5, bst.id, "transaction elements are built although the fee mismatch test did not pass", site=bst.loc()))
    R6 = "C01.R6"
    run.rule(R6, "sufficient funds gate: select_coins_and_fee returns Ok only after total >= amount_with_fee was tested on the final values", floor=3)
    if scf:
        def is_total(p):
            return any(y[0] == "call" and y[1].endswith("Iterator::sum") for y in p)

        def is_needed(p):
            return any(y[0] == "call" and y[1].endswith("selection::amount_plus_fee") for y in p) or (any(y[0] == "arg" for y in p) and not is_total(p))

        good = set()
        ncmp = 0
        tot_locals, need_locals = set(), set()
        for x in cfg.comparisons(scf):
            for (l, r, swap) in ((x.l, x.r, False), (x.r, x.l, True)):
                pl, pr = vf.producers(scf, l), vf.producers(scf, r)
                if not (is_total(pl) and is_needed(pr) and any(y[0] == "call" and y[1].endswith("selection::amount_plus_fee") for y in pr)):
                    continue
                op = x.op if not swap else cfg._SWAP[x.op]
                ncmp += 1
                tl, nl = vf.strip_clones(scf, l), vf.strip_clones(scf, r)
                if tl is not None:
                    tot_locals.add(tl)
                if nl is not None:
                    need_locals.add(nl)
                if op in ("Lt", "Ne"):
                    good |= x.false_edges
                elif op in ("Ge", "Eq"):
                    good |= x.true_edges
        if ncmp < 2 or not good:
            run.error("C01.R6: comparisons of the selected total with amount_with_fee not found in select_coins_and_fee (anchor missing)")
        else:
            okb = cfg.ok_value_blocks(scf)
            err = cfg.error_return_blocks(scf)
            # every (re)definition of total / amount_with_fee must be followed by the test before Ok
            defs_b = set()
            for b, bb in enumerate(scf.bbs):
                if bb["cleanup"]:
                    continue
                for st in bb["s"]:
                    if st["k"] == "a" and not st["d"][1] and st["d"][0] in (tot_locals | need_locals):
                        defs_b.add(b)
                t = bb["t"]
                if t["k"] == "call" and not t["d"][1] and t["d"][0] in (tot_locals | need_locals) and t["t"] is not None:
                    defs_b.add(t["t"])
            n = 0
            for d in sorted(defs_b):
                par = cfg.reach(scf, starts=(d,), cut_edges=good, cut_nodes=err)
                bad = [b for b in okb if b in par]
                n += 1
                run.instance(R6, {"fn": "select_coins_and_fee", "obligation": "after the assignment in bb%d, Ok is returned only through a total >= amount_with_fee edge" % d}, held=not bad)
                if bad:
                    run.finding(Finding(R6, scf.id, "Ok(selection) is reachable after total / amount_with_fee were (re)computed without testing total >= amount_with_fee", site=c.site_of(scf, d), detail="path: %s" % cfg.describe_path(scf, cfg.path_to(par, bad[0]))))
    R10 = "C01.R10"
    run.rule(R10, "what is reserved is still spendable when it is reserved: initiation selects without reserving, the reservation is a later call - it re-reads every input and refuses one that another transaction has reserved or spent, or that was reorganised away, in the meantime (an error, nothing persisted)", floor=2)
    from .shared import reservation_recheck
    reservation_recheck(ctx, R10)
    R11 = "C01.R11"
    run.rule(R11, "the source account is the one the caller named: a source account name that does not exist is an error, not a silent fall-back to whichever account is active", floor=2)
    PK11 = c.WB + "parent_key_id"
    n11 = 0
    for fid11 in (c.LW + "api_impl::owner::init_send_tx", c.LW + "api_impl::owner::process_invoice_tx"):
        f11 = ctx.fn(fid11)
        if f11 is None:
            run.error("C01.R11: %s not found" % fid11)
            continue
        looks = [b for b, t in cfg.find_calls(f11, c.WB + "get_acct_path")]
        # the account operands of the selection steps
        acct_ops = []
        for pat, ai in ((c.LW + "internal::tx::add_inputs_to_slate", 8), (c.LW + "internal::tx::create_late_lock_context", 5)):
            for b, t in cfg.find_calls(f11, pat):
                if len(t["a"]) > ai:
                    acct_ops.append(t["a"][ai])
        fallback = set()
        for o in acct_ops:
            fallback |= {x[2] for x in vf.origins(f11, o) if x[0] in ("call", "mutcall") and cfg.match_name(x[1], PK11)}
        if not looks or not acct_ops:
            run.error("C01.R11: account look-up / selection step not found in %s" % fid11)
            continue
        n11 += 1
        after = set()
        for lb in looks:
            after |= set(cfg.reach(f11, starts=[lb]))
        bad = sorted(fallback & after)
        run.instance(R11, {"fn": pp.short(fid11), "obligation": "the active account feeds the selection only when no source account was named (not after a look-up of the named one)", "fall-back reads after the look-up": len(bad)}, held=not bad)
        if bad:
            run.finding(Finding(R11, fid11, "a source account name that does not exist falls back to the active account: the payment is built from (and reserves) outputs of an account the caller did not name", site=c.site_of(f11, bad[0])))
    if n11 < 2:
        run.error("C01.R11: expected init_send_tx and process_invoice_tx")
    run.not_decided += ["the conservation equation total = A + fee + change itself (numeric)", "'fee >= network minimum' as a number (relies on grin_core::libtx::tx_fee)", "arithmetic of the change split"]
    run.assumptions.append(_SUPPLY)
