"""C20 - Background refresh never clobbers concurrent wallet operations (structural conditions)."""
from . import common as c
from .. import cfg, locks, valueflow as vf, pp
from ..callgraph import non_production
from ..engine import Finding

OWNER = c.LW + "api_impl::owner::"
UPD = c.LW + "internal::updater::"
SCAN = c.LW + "internal::scan::"
RECORD_TYPES = (c.LW + "types::OutputData", c.LW + "types::TxLogEntry", c.LW + "types::Context", c.LW + "api_impl::types::OutputCommitMapping")
READ_PRIMS = {c.WB + n for n in ("iter", "get", "tx_log_iter", "get_tx_log_entry", "get_private_context")} | {c.WOB + n for n in ("iter", "get", "tx_log_iter", "get_tx_log_entry")}
# record argument index (0-based incl. receiver) of the write primitives
WRITE_PRIMS = {c.WOB + "save": 1, c.WOB + "save_tx_log_entry": 1, c.WOB + "lock_output": 1, c.WOB + "save_private_context": 2, c.WOB + "delete": 1}
IGNORED_IDENTS = ("LocalWalletClient.",)


def is_lock_managing(fn):
    """Takes the wallet instance mutex (Arc<Mutex<Box<dyn WalletInst>>>) as a parameter or through self."""
    for i in range(1, fn.argc + 1):
        if "lock_api::mutex::Mutex<parking_lot::raw_mutex::RawMutex, alloc::boxed::Box<dyn grin_wallet_libwallet::types::WalletInst" in fn.locals[i]["ty"]:
            return True
    return False


def returns_records(fn):
    ty = fn.locals[0]["ty"]
    return any(r in ty for r in RECORD_TYPES)


class Stale:
    def __init__(self, ctx, la):
        self.ctx = ctx
        self.db = ctx.db
        self.la = la
        # transparent readers: functions (not lock managing) that return wallet records and reach a read primitive
        reaches_read = set()
        for fid, f in self.db.fns.items():
            if any(t.get("f") in READ_PRIMS for _b, t in f.calls()):
                reaches_read.add(fid)
        changed = True
        while changed:
            changed = False
            for fid, es in ctx.cg.edges.items():
                if fid in reaches_read:
                    continue
                if any(cc in reaches_read for cc in es):
                    reaches_read.add(fid)
                    changed = True
        self.readers = {fid for fid in reaches_read if not non_production(fid) and returns_records(self.db.fns[fid]) and not is_lock_managing(self.db.fns[fid])}
        # writer summaries: (fid -> set of param indices whose value may be written as a record)
        self.writes_param = {}
        changed = True
        rounds = 0
        while changed and rounds < 10:
            changed = False
            rounds += 1
            for fid, f in self.db.fns.items():
                if non_production(fid) or f.dk not in ("Fn", "AssocFn"):
                    continue
                cur = self.writes_param.get(fid, set())
                new = set(cur)
                for b, t in f.calls():
                    idxs = []
                    if t.get("f") in WRITE_PRIMS:
                        idxs = [WRITE_PRIMS[t["f"]]]
                    else:
                        for callee, _k in ctx.cg.targets_of_call(t):
                            for pi in self.writes_param.get(callee, ()):
                                idxs.append(pi - 1)
                    for i in idxs:
                        if i < len(t["a"]):
                            for x in vf.origins(f, t["a"][i]):
                                if x[0] == "arg" and any(r in f.locals[x[1]]["ty"] for r in RECORD_TYPES):
                                    new.add(x[1])
                if new != cur:
                    self.writes_param[fid] = new
                    changed = True

    def source_calls(self, f):
        """[(bb, term)] calls whose result is a record read from the wallet."""
        out = []
        for b, t in f.calls():
            fn_ = t.get("f")
            if fn_ in READ_PRIMS:
                out.append((b, t))
                continue
            for callee, _k in self.ctx.cg.targets_of_call(t):
                if callee in self.readers:
                    out.append((b, t))
                    break
        return out

    def sinks(self, f):
        """[(bb, term, arg_index, via)] record writes (direct, via transparent writers, or via lock-managing callees)."""
        out = []
        for b, t in f.calls():
            if t.get("f") in WRITE_PRIMS:
                out.append((b, t, WRITE_PRIMS[t["f"]], "direct"))
                continue
            for callee, _k in self.ctx.cg.targets_of_call(t):
                for pi in self.writes_param.get(callee, ()):
                    out.append((b, t, pi - 1, "via " + pp.short(callee)))
        return out


def epoch_of(f, wallet_sites, b):
    """Lock site (block id) whose live range contains block b, else None."""
    for s in wallet_sites:
        if b in s.live or b == s.b:
            return s.b
    return None


def run(ctx):
    run = ctx.run
    db = ctx.db
    la = locks.LockAnalysis(ctx)
    st = Stale(ctx, la)
    run.extra["lock_sites"] = sum(len(v) for v in la.sites.values())
    run.extra["transparent_readers"] = sorted(pp.short(x) for x in st.readers)[:40]

    nc_reach = c._may_reach(ctx, [lambda n: n.startswith(c.LW + "types::NodeClient::")])
    R1 = "C20.R1"
    run.rule(R1, "no stale write-back: a record read in one wallet-lock section is not written in another", floor=20)
    managers = [f for fid, f in sorted(db.fns.items()) if not non_production(fid) and is_lock_managing(f) and f.dk in ("Fn", "AssocFn")]
    if len(managers) < 20:
        run.error("C20.R1: only %d lock-managing functions found" % len(managers))
    for f in managers:
        ws = la.wallet_epochs(f)
        srcs = st.source_calls(f)
        snk = st.sinks(f)
        findings = []
        # locals holding records, with the epoch in which they were read
        src_local = {}
        for b, t in srcs:
            e = epoch_of(f, ws, b)
            if e is None:
                # read through a lock-managing callee: its own (already closed) epoch
                e = "callee@%d" % b
            src_local[t["d"][0]] = (e, b, t)
        # also: results of lock-managing callees that return records (e.g. owner::retrieve_txs)
        for b, t in f.calls():
            for callee, _k in ctx.cg.targets_of_call(t):
                cf = db.fns[callee]
                if is_lock_managing(cf) and returns_records(cf) and callee != f.id:
                    src_local[t["d"][0]] = ("callee@%d" % b, b, t)
        fl = vf.get_flow(f)
        for b, t, ai, via in snk:
            if ai >= len(t["a"]):
                continue
            e_sink = epoch_of(f, ws, b)
            if via.startswith("via") and e_sink is None:
                # writer takes its own lock (lock-managing callee) -> a new epoch
                e_sink = "callee@%d" % b
            if e_sink is None:
                continue
            p = vf.op_place(t["a"][ai])
            if p is None:
                continue
            # which source locals does the written value derive from?
            seen, stack = set(), [p[0]]
            while stack:
                l = stack.pop()
                if l in seen:
                    continue
                seen.add(l)
                stack.extend(fl.deps[l])
            for l in seen:
                if l in src_local:
                    e_src, sb, stt = src_local[l]
                    if e_src != e_sink:
                        findings.append((b, t, via, sb, stt))
            # records received as parameters by a lock-managing function and written under its own lock
            for l in seen:
                if 1 <= l <= f.argc and any(r in f.locals[l]["ty"] for r in RECORD_TYPES) and isinstance(e_sink, int):
                    findings.append((b, t, via, None, {"f": "<parameter %s>" % f.var_names().get(l, l), "sp": f.sp}))
        run.instance(R1, {"fn": pp.short(f.id), "wallet_lock_sections": len(ws), "record_reads": len(srcs), "record_writes": len(snk), "stale": len(findings)}, held=not findings)
        seen_keys = set()
        for b, t, via, sb, stt in findings:
            what = "record read by %s is written by %s in a different wallet-lock section" % (pp.short(stt.get("f") or "?").split("::")[-1], pp.short(t.get("f") or "?").split("::")[-1])
            # under which fresh node information does the write happen?  (distinguishes "written back when the
            # node confirmed something about it" from "written back regardless")
            conds = set()
            for cb, ct in f.calls():
                if (ct.get("f") or "").startswith(c.LW + "types::NodeClient::") and cb != b:
                    g_ = cfg.call_guard(f, cb)
                    if g_.ok and cfg.must_pass(f, g_.ok, {b})[0]:
                        conds.add((ct.get("f") or "").split("::")[-1])
            what += " [only after %s answered]" % "+".join(sorted(conds)) if conds else " [not conditional on a node reply]"
            # how old can the snapshot be: node round trips (made with the wallet lock released) between read and write
            if sb is not None and sb != b:
                fwd = cfg.reach(f, starts=[f.bbs[sb]["t"]["t"]]) if f.bbs[sb]["t"].get("t") is not None else {}
                between = [bb_ for bb_ in fwd if bb_ != b and b in cfg.reach(f, starts=[bb_])]
                trips = set()
                for bb_ in between:
                    tt = f.bbs[bb_]["t"]
                    if tt["k"] != "call":
                        continue
                    n_ = tt.get("f") or ""
                    if n_.startswith(c.LW + "types::NodeClient::"):
                        trips.add(n_.split("::")[-1])
                    else:
                        for cal, _k in ctx.cg.targets_of_call(tt):
                            if cal in nc_reach:
                                trips.add("via " + pp.short(cal).split("::")[-1])
                if trips:
                    what += " [snapshot spans node round trips: %s]" % "+".join(sorted(trips))
            if what in seen_keys:
                continue
            seen_keys.add(what)
            run.finding(Finding(R1, f.id, what, site=c.site_of(f, b), detail="read at %s; write %s at %s" % (":".join(stt["sp"].split(":")[:2]), via, c.site_of(f, b))))

    R2 = "C20.R2"
    run.rule(R2, "no deadlock by construction: the held-while-acquire graph over all mutexes is acyclic", floor=5)
    edges = {k: v for k, v in la.held_while_acquire().items() if not any(k[0].startswith(p) or k[1].startswith(p) for p in IGNORED_IDENTS) and not k[1].startswith("T:u8")}
    run.extra["held_while_acquire"] = sorted("%s -> %s (%d sites, e.g. %s %s)" % (a, b, len(w), w[0][1], w[0][2]) for (a, b), w in edges.items())
    for (a, b), w in sorted(edges.items()):
        run.instance(R2, {"edge": "%s -> %s" % (a, b), "sites": len(w), "example": "%s %s %s" % (w[0][1], w[0][2], w[0][3])}, held=True)
    for cyc in locks.find_cycles(edges):
        ring = list(cyc) + [cyc[0]]
        wit = []
        for x, y in zip(ring, ring[1:]):
            w = edges[(x, y)][0]
            wit.append("%s -> %s in %s (%s, %s)" % (x, y, w[1], w[2], w[3]))
        run.instance(R2, {"cycle": " -> ".join(ring)}, held=False)
        run.finding(Finding(R2, "lock-order", "cycle " + " -> ".join(ring), site=edges[(ring[0], ring[1])][0][2], detail="; ".join(wit)))

    R3 = "C20.R3"
    run.rule(R3, "blocking while holding the wallet lock (informational listing)", floor=0)
    BLOCKING = ("std::thread::sleep", "std::thread::JoinHandle::<T>::join", "std::sync::mpsc::Receiver::<T>::recv", c.IMPLS + "adapters::SlateSender::send_tx", c.API + "owner::try_slatepack_sync_workflow")
    for fid, ls in sorted(la.sites.items()):
        f = db.fns[fid]
        for s in ls:
            if s.ident != "WALLET":
                continue
            for b in s.live:
                t = f.bbs[b]["t"]
                if t["k"] == "call" and any(cfg.match_name(n, p) for n in cfg.callee_names(t) for p in BLOCKING):
                    run.note("C20.R3 (informational): %s calls %s while holding the wallet lock (%s)" % (pp.short(fid), pp.short(t["f"]), c.site_of(f, b)))
    R4 = "C20.R4"
    run.rule(R4, "a counter is compared and written in one wallet-lock section: the child index a lock-managing function saves is decided on a value of current_child_index read in the same section", floor=1)
    n4 = 0
    for f in managers:
        ws = la.wallet_epochs(f)
        saves = cfg.find_calls(f, c.WOB + "save_child_index")
        if not saves or not ws:
            continue
        fl4 = vf.get_flow(f)
        for b, t in saves:
            e_w = epoch_of(f, ws, b)
            # the comparisons that decide whether this write happens
            reads = set()
            for x in cfg.comparisons(f):
                edges = None
                if x.true_edges and cfg.must_pass(f, x.true_edges, {b})[0]:
                    edges = x.true_edges
                elif x.false_edges and cfg.must_pass(f, x.false_edges, {b})[0]:
                    edges = x.false_edges
                if edges is None:
                    continue
                for y in fl4.of_operand(x.l) | fl4.of_operand(x.r) | vf.producers(f, x.l) | vf.producers(f, x.r):
                    if y[0] in ("call", "mutcall") and y[1] == c.WB + "current_child_index" and len(y) > 2:
                        reads.add(y[2])
            if not reads:
                continue
            n4 += 1
            stale = [rb for rb in reads if epoch_of(f, ws, rb) != e_w]
            held = not stale
            run.instance(R4, {"fn": pp.short(f.id), "obligation": "save_child_index and the current_child_index it is compared with sit in the same wallet-lock section", "write": c.site_of(f, b), "reads": [c.site_of(f, rb) for rb in sorted(reads)]}, held=held)
            if not held:
                run.finding(Finding(R4, f.id, "the child index is written on the strength of a current_child_index value read in an earlier wallet-lock section: keys handed out in between are handed out again", site=c.site_of(f, b)))
    if n4 == 0:
        run.error("C20.R4: no save_child_index decided on current_child_index found in a lock-managing function (anchor missing)")
    R5 = "C20.R5"
    run.rule(R5, "node unreachable in the middle of a refresh: a node call that fails gives no answer - from its error edge no wallet record is written and no result set is extended in that function (a failed kernel look-up is not 'kernel not on chain')", floor=6)
    from ..callgraph import NC, non_production as _np5
    GROW = ("*::insert", "*::push", "*::extend", "*::push_back")
    REFRESH5 = {c.LW + "api_impl::owner::" + n_ for n_ in ("update_wallet_state", "update_outputs", "update_txs_via_kernel", "scan", "scan_rewind_hash")}
    n5 = 0
    for fid, f in sorted(db.fns.items()):
        if _np5(fid) or not fid.startswith(c.LW):
            continue
        # the refresh / scan machinery (owner::node_height falls back to a read-only query by design)
        if not (fid.startswith(c.LW + "internal::updater::") or fid.startswith(c.LW + "internal::scan::") or fid.split("::{")[0] in REFRESH5):
            continue
        eff5 = None
        for b, t in f.calls():
            if not (t.get("f") or "").startswith(NC) or not (t.get("dty") or "").startswith("core::result::Result<"):
                continue
            g = cfg.call_guard(f, b)
            if not g.fail:
                continue
            n5 += 1
            if eff5 is None:
                eff5 = ctx.eff.effect_blocks(f)
            # a loop may bring the error path of one iteration back to later, healthy iterations: stop at the call
            after = cfg.reach(f, starts=[d for (_s, d) in g.fail], cut_edges=g.ok, cut_nodes=frozenset({b}))
            # only the blocks that are NOT also reachable without the failure count (what the failure adds is nothing;
            # what matters is what still runs): writes / growth that run after the failed call
            wr = sorted(x for x in after if x in eff5)
            gr = sorted(x for x in after if f.bbs[x]["t"]["k"] == "call" and any(cfg.match_name(f.bbs[x]["t"].get("f") or "", p_) for p_ in GROW) and not f.bbs[x]["t"].get("mac"))
            held = not wr and not gr
            run.instance(R5, {"fn": pp.short(fid), "node call": pp.short(t["f"]).split("::")[-1], "site": c.site_of(f, b), "writes after the failure": len(wr), "result sets extended after the failure": len(gr)}, held=held)
            if not held:
                x = (wr or gr)[0]
                run.finding(Finding(R5, fid, "after a failed %s the function goes on to %s: a node that drops out in the middle of a refresh is taken for an answer" % (pp.short(t["f"]).split("::")[-1], "write wallet records" if wr else "extend its result (" + pp.short(f.bbs[x]["t"].get("f") or "").split("::")[-1] + ")"), site=c.site_of(f, x)))
    run.not_decided += ["serialisability of every interleaving as such (R1 is the necessary structural condition under the single wallet mutex; R2 is sufficient for deadlock freedom only for the enumerated mutexes)", "locks taken inside dependencies (grin_core's own use of the static secp instance)"]
