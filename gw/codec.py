"""A8 - codec automata: project Writeable::write / Readable::read bodies onto
their primitive codec operations and check L(writer) subset-of L(reader)."""
from . import cfg, pp

W = "grin_core::ser::Writer::"
R = "grin_core::ser::Reader::"
PRIM_W = {
    W + "write_u8": "u8", W + "write_u16": "u16", W + "write_u32": "u32", W + "write_u64": "u64",
    W + "write_i32": "i32", W + "write_i64": "i64", W + "write_fixed_bytes": "bytes", W + "write_bytes": "lbytes",
    W + "write_empty_bytes": "bytes",
}
PRIM_R = {
    R + "read_u8": "u8", R + "read_u16": "u16", R + "read_u32": "u32", R + "read_u64": "u64",
    R + "read_i32": "i32", R + "read_i64": "i64", R + "read_fixed_bytes": "bytes", R + "read_bytes_len_prefix": "lbytes",
    R + "read_empty_bytes": "bytes",
}
WRITE_TRAIT = "grin_core::ser::Writeable::write"
READ_TRAIT = "grin_core::ser::Readable::read"


def norm_type(ty):
    ty = ty.replace("&", "").replace("mut ", "").strip()
    ty = ty.split("<")[0]
    name = ty.split("::")[-1]
    if name.endswith("Ref"):
        name = name[:-3]
    return name


def token_of_call(t, side):
    f = t.get("f")
    if not f:
        return None
    if side == "w":
        if f in PRIM_W:
            return PRIM_W[f]
        if f == WRITE_TRAIT:
            return "T:" + norm_type(t.get("trself") or (t.get("ga") or ["?"])[0])
    else:
        if f in PRIM_R:
            return PRIM_R[f]
        if f == READ_TRAIT:
            return "T:" + norm_type(t.get("trself") or (t.get("ga") or ["?"])[0])
    return None


class NFA:
    def __init__(self, fn, side):
        self.fn = fn
        self.side = side
        err = cfg.error_return_blocks(fn)
        self.trans = {}  # state -> [(token|None, state)]
        self.accept = set()
        self.tokens = []
        n = len(fn.bbs)
        for b in range(n):
            bb = fn.bbs[b]
            if bb["cleanup"] or b in err:
                continue
            t = bb["t"]
            tok = token_of_call(t, side) if t["k"] == "call" else None
            if tok:
                self.tokens.append((tok, t["sp"]))
            for s in fn.succ(b):
                if s in err:
                    continue
                self.trans.setdefault(b, []).append((tok, s))
            if t["k"] == "ret":
                self.accept.add(b)
        # trim: states that can reach accept
        rev = {}
        for a, lst in self.trans.items():
            for tok, s in lst:
                rev.setdefault(s, []).append(a)
        good = set(self.accept)
        stack = list(self.accept)
        while stack:
            x = stack.pop()
            for p in rev.get(x, []):
                if p not in good:
                    good.add(p)
                    stack.append(p)
        self.good = good

    def eps_closure(self, states):
        out = set(states)
        stack = list(states)
        while stack:
            s = stack.pop()
            for tok, d in self.trans.get(s, []):
                if tok is None and d in self.good and d not in out:
                    out.add(d)
                    stack.append(d)
        return frozenset(out)

    def step(self, states, tok):
        nxt = set()
        for s in states:
            for tk, d in self.trans.get(s, []):
                if tk == tok and d in self.good:
                    nxt.add(d)
        return self.eps_closure(nxt)

    def alphabet_from(self, states):
        out = set()
        for s in states:
            for tk, d in self.trans.get(s, []):
                if tk is not None and d in self.good:
                    out.add(tk)
        return out


def language_included(wn, rn, max_states=4096):
    """Is every token string the writer can emit (on an Ok path) accepted by the reader?
    Returns (ok, counterexample token list or None, states explored)."""
    start = (wn.eps_closure({0}), rn.eps_closure({0}))
    seen = {start: None}
    queue = [start]
    explored = 0
    while queue:
        ws, rs = queue.pop(0)
        explored += 1
        if explored > max_states:
            return None, ["<state cap reached>"], explored
        if (ws & wn.accept) and not (rs & rn.accept):
            return False, _trace(seen, (ws, rs)) + ["<writer ends; reader expects more>"], explored
        for tok in sorted(wn.alphabet_from(ws)):
            w2 = wn.step(ws, tok)
            if not w2:
                continue
            r2 = rn.step(rs, tok)
            if not r2:
                return False, _trace(seen, (ws, rs)) + [tok + " <- reader cannot take this"], explored
            st = (w2, r2)
            if st not in seen:
                seen[st] = ((ws, rs), tok)
                queue.append(st)
    return True, None, explored


def _trace(seen, st):
    out = []
    while seen.get(st) is not None:
        prev, tok = seen[st]
        out.append(tok)
        st = prev
    return list(reversed(out))


def sample_words(nfa, limit=6, maxlen=40):
    """A few accepted token strings (for evidence)."""
    out = []
    start = nfa.eps_closure({0})
    stack = [(start, [])]
    seen = set()
    while stack and len(out) < limit:
        states, word = stack.pop()
        key = (states, len(word))
        if key in seen or len(word) > maxlen:
            continue
        seen.add(key)
        if states & nfa.accept:
            out.append(" ".join(word))
        for tok in sorted(nfa.alphabet_from(states), reverse=True):
            n = nfa.step(states, tok)
            if n:
                stack.append((n, word + [tok]))
    return out
