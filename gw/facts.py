"""Facts extraction (runs the gw-mirfacts driver over /repo) and loading.

Nothing is written inside /repo.  Facts are cached under
/verif/.cache/facts/<key>/ where <key> hashes every source file of the
workspace and the driver binary.
"""
import fcntl
import glob
import hashlib
import json
import os
import shutil
import subprocess
import sys
import time

VERIF = os.path.dirname(os.path.dirname(os.path.abspath(__file__)))
REPO = os.environ.get("GW_REPO", "/repo")
CACHE = os.path.join(VERIF, ".cache")
DRIVER = os.path.join(VERIF, "driver", "target", "release", "gw-mirfacts")

WORKSPACE_CRATES = [
    "grin_wallet",
    "grin_wallet_api",
    "grin_wallet_config",
    "grin_wallet_controller",
    "grin_wallet_impls",
    "grin_wallet_libwallet",
    "grin_wallet_util",
]

SKIP_DIRS = {"target", ".git", "doc", "integration", ".github", ".hooks"}
SRC_EXT = (".rs", ".toml", ".lock", ".yml", ".yaml", ".json", ".ftl")


class FactsError(Exception):
    pass


def tree_key(repo=REPO):
    h = hashlib.sha256()
    files = []
    for root, dirs, fs in os.walk(repo):
        dirs[:] = sorted(d for d in dirs if d not in SKIP_DIRS)
        for f in sorted(fs):
            if f.endswith(SRC_EXT):
                files.append(os.path.join(root, f))
    for p in files:
        h.update(os.path.relpath(p, repo).encode())
        h.update(b"\0")
        with open(p, "rb") as fh:
            h.update(hashlib.sha256(fh.read()).digest())
    try:
        st = os.stat(DRIVER)
        h.update(("%d:%d" % (st.st_size, int(st.st_mtime))).encode())
    except OSError:
        h.update(b"nodriver")
    return h.hexdigest()[:20], len(files)


def sysroot_lib():
    out = subprocess.run(
        ["rustc", "+nightly", "--print", "sysroot"], capture_output=True, text=True
    ).stdout.strip()
    return os.path.join(out, "lib")


def build_driver():
    if os.path.exists(DRIVER):
        src = os.path.join(VERIF, "driver", "src", "main.rs")
        if os.path.getmtime(src) <= os.path.getmtime(DRIVER):
            return
    env = dict(os.environ, CARGO_NET_OFFLINE="true")
    r = subprocess.run(
        ["cargo", "+nightly", "build", "--release", "--offline"],
        cwd=os.path.join(VERIF, "driver"),
        env=env,
        capture_output=True,
        text=True,
    )
    if r.returncode != 0:
        raise FactsError("driver build failed:\n" + r.stderr[-4000:])


def _touch(d):
    try:
        os.utime(d, None)
    except OSError:
        pass


def ensure_facts(repo=REPO, all_targets=False, quiet=False):
    """Return the directory holding facts for the current tree of `repo`."""
    os.makedirs(CACHE, exist_ok=True)
    build_driver()
    key, nfiles = tree_key(repo)
    # facts depend on the extractor as well as on the tree
    try:
        key += "-d" + hashlib.sha256(open(os.path.join(VERIF, "driver", "src", "main.rs"), "rb").read()).hexdigest()[:6]
    except OSError:
        pass
    if all_targets:
        key += "-all"
    if os.path.abspath(repo) != "/repo":
        key += "-" + hashlib.sha256(os.path.abspath(repo).encode()).hexdigest()[:6]
    out = os.path.join(CACHE, "facts", key)
    marker = os.path.join(out, ".complete")
    if os.path.exists(marker):
        _touch(out)
        return out
    lock = open(os.path.join(CACHE, "lock"), "w")
    fcntl.flock(lock, fcntl.LOCK_EX)
    try:
        if os.path.exists(marker):
            return out
        t0 = time.time()
        tmp = out + ".tmp%d" % os.getpid()
        shutil.rmtree(tmp, ignore_errors=True)
        os.makedirs(tmp)
        target = os.path.join(CACHE, "target")
        # cargo would skip the wrapper for fresh units and replay old output
        for d in glob.glob(os.path.join(target, "debug", ".fingerprint", "grin_wallet*")):
            shutil.rmtree(d, ignore_errors=True)
        env = dict(os.environ)
        env.update(
            CARGO_NET_OFFLINE="true",
            LD_LIBRARY_PATH=sysroot_lib() + ":" + env.get("LD_LIBRARY_PATH", ""),
            CARGO_INCREMENTAL="0",
            RUSTFLAGS="-Zmir-opt-level=0 -Awarnings",
            RUSTC_WORKSPACE_WRAPPER=DRIVER,
            GW_FACTS_DIR=tmp,
            CARGO_TARGET_DIR=target,
        )
        env.pop("RUSTC_WRAPPER", None)
        cmd = ["cargo", "+nightly", "check", "--offline", "--workspace"]
        if all_targets:
            cmd.append("--all-targets")
        r = subprocess.run(cmd, cwd=repo, env=env, capture_output=True, text=True)
        if r.returncode != 0:
            shutil.rmtree(tmp, ignore_errors=True)
            raise FactsError(
                "cargo check of %s failed (exit %d); the tree does not compile or the driver crashed:\n%s"
                % (repo, r.returncode, r.stderr[-6000:])
            )
        have = set()
        for f in os.listdir(tmp):
            if f.endswith(".jsonl"):
                have.add(f.rsplit("-", 1)[0] if not f.endswith("-test.jsonl") else f.rsplit("-", 2)[0])
        missing = [c for c in WORKSPACE_CRATES if c not in have]
        if missing:
            shutil.rmtree(tmp, ignore_errors=True)
            raise FactsError("no facts produced for crates: %s" % ", ".join(missing))
        with open(os.path.join(tmp, ".complete"), "w") as fh:
            json.dump({"key": key, "files_hashed": nfiles, "wall_s": time.time() - t0, "repo": repo}, fh)
        shutil.rmtree(out, ignore_errors=True)
        os.rename(tmp, out)
        if not quiet:
            print("facts: extracted %s in %.1fs (%d source files hashed)" % (key, time.time() - t0, nfiles))
        # prune: keep the 4 most recent
        base = os.path.join(CACHE, "facts")
        ds = sorted(
            (os.path.join(base, d) for d in os.listdir(base)),
            key=lambda p: os.path.getmtime(p),
            reverse=True,
        )
        # never remove the directory just produced, nor one used within the last 30 minutes
        # (another check may be reading it right now)
        now = time.time()
        for d in ds[16:]:
            if d == out or now - os.path.getmtime(d) < 1800:
                continue
            shutil.rmtree(d, ignore_errors=True)
        return out
    finally:
        fcntl.flock(lock, fcntl.LOCK_UN)
        lock.close()


# ---------------------------------------------------------------------------


class Fn:
    __slots__ = (
        "id", "crate", "dk", "sp", "mac", "defsp", "parent", "pdk", "pub", "self_ty", "self_adt",
        "impl_trait", "trait_item", "in_trait", "argc", "locals", "vars", "bbs", "test",
        "_succ", "_pred", "_defs", "_varnames",
    )

    def __init__(self, r, test=False):
        g = r.get
        self.id = r["id"]
        self.crate = r["crate"]
        self.dk = r["dk"]
        self.sp = r["sp"]
        self.mac = r["mac"]
        self.defsp = g("defsp")
        self.parent = g("parent")
        self.pdk = g("pdk")
        self.pub = g("pub")
        self.self_ty = g("self_ty")
        self.self_adt = g("self_adt")
        self.impl_trait = g("impl_trait")
        self.trait_item = g("trait_item")
        self.in_trait = g("in_trait")
        self.argc = r["argc"]
        self.locals = r["locals"]
        self.vars = r["vars"]
        self.bbs = r["bbs"]
        self.test = test
        self._succ = None
        self._pred = None
        self._defs = None
        self._varnames = None

    # -- source position helpers
    @property
    def file(self):
        return self.sp.split(":")[0]

    @property
    def line(self):
        return int(self.sp.split(":")[1])

    def loc(self):
        p = self.sp.split(":")
        return "%s:%s" % (p[0], p[1])

    def is_closure(self):
        return self.dk == "Closure"

    def root_fn(self, db):
        """Enclosing non-closure function id."""
        f = self
        while f is not None and f.dk in ("Closure", "InlineConst") and f.parent in db.fns:
            f = db.fns[f.parent]
        return f.id if f is not None else self.id

    # -- CFG
    def term(self, b):
        return self.bbs[b]["t"]

    def succ(self, b, unwind=False):
        t = self.bbs[b]["t"]
        k = t["k"]
        out = []
        if k == "goto":
            out.append(t["t"])
        elif k == "sw":
            for _v, bb in t["t"]:
                out.append(bb)
            out.append(t["else"])
        elif k in ("call", "drop", "assert"):
            if t.get("t") is not None:
                out.append(t["t"])
            if unwind and t.get("u") is not None:
                out.append(t["u"])
        elif k == "yield":
            out.append(t["t"])
            if unwind and t.get("drop") is not None:
                out.append(t["drop"])
        return out

    def succs(self):
        if self._succ is None:
            self._succ = [self.succ(b) for b in range(len(self.bbs))]
        return self._succ

    def preds(self):
        if self._pred is None:
            p = [[] for _ in self.bbs]
            for b, ss in enumerate(self.succs()):
                for s in ss:
                    p[s].append(b)
            self._pred = p
        return self._pred

    def calls(self):
        for b, bb in enumerate(self.bbs):
            t = bb["t"]
            if t["k"] == "call":
                yield b, t

    def var_names(self):
        """local index -> user variable name (only for whole-local debug info)."""
        if self._varnames is None:
            m = {}
            for name, place, _arg in self.vars:
                if not place[1]:
                    m.setdefault(place[0], name)
            self._varnames = m
        return self._varnames

    def local_name(self, l):
        n = self.var_names().get(l)
        return "_%d(%s)" % (l, n) if n else "_%d" % l

    def defs(self):
        """local -> list of definitions ('a', bb, idx, stmt) | ('call', bb, term) | ('arg', i)"""
        if self._defs is None:
            d = {}
            for i in range(1, self.argc + 1):
                d.setdefault(i, []).append(("arg", i))
            for b, bb in enumerate(self.bbs):
                for i, s in enumerate(bb["s"]):
                    if s["k"] == "a":
                        d.setdefault(s["d"][0], []).append(("a", b, i, s))
                    elif s["k"] == "setdisc":
                        d.setdefault(s["d"][0], []).append(("setdisc", b, i, s))
                t = bb["t"]
                if t["k"] == "call":
                    d.setdefault(t["d"][0], []).append(("call", b, t))
                elif t["k"] == "yield":
                    pass
            self._defs = d
        return self._defs


class DB:
    def __init__(self, facts_dir, include_tests=False):
        self.dir = facts_dir
        self.fns = {}
        self.adts = {}
        self.impls = []
        self.traits = {}
        self.crates = []
        self.test_fns = {}
        for f in sorted(glob.glob(os.path.join(facts_dir, "*.jsonl"))):
            is_test = f.endswith("-test.jsonl")
            with open(f) as fh:
                first = json.loads(fh.readline())
                crate_test = first.get("test", False)
                self.crates.append(first)
                if crate_test and not include_tests:
                    continue
                for line in fh:
                    r = json.loads(line)
                    k = r["k"]
                    if k == "fn":
                        fn = Fn(r, test=crate_test)
                        if crate_test:
                            self.test_fns[r["id"]] = fn
                        else:
                            # bin + lib crates of the root package share the name
                            # grin_wallet: keep both (ids differ by module path)
                            if r["id"] in self.fns and first["types"] != "Rlib":
                                self.fns[r["id"] + "@bin"] = fn
                            else:
                                self.fns[r["id"]] = fn
                    elif k == "adt" and not crate_test:
                        self.adts[r["id"]] = r
                    elif k == "impl" and not crate_test:
                        self.impls.append(r)
                    elif k == "trait" and not crate_test:
                        self.traits[r["id"]] = r
        # trait item -> impl methods
        self.impl_methods = {}
        for im in self.impls:
            for m in im["methods"]:
                ti = m.get("trait_item")
                if ti:
                    self.impl_methods.setdefault(ti, []).append((m["id"], im))
        self.children = {}
        for f in self.fns.values():
            if f.parent:
                self.children.setdefault(f.parent, []).append(f.id)

    def field_attr_text(self, adt_id, field_name, repo=None):
        """Source text of the attributes written above a struct field (read from /repo's
        current source via the field's definition span)."""
        a = self.adts.get(adt_id)
        if not a:
            return ""
        repo = repo or self.repo_root()
        prev_end = int(a["sp"].split(":")[1])
        for v in a["variants"]:
            for f in v["fields"]:
                sp = f.get("sp")
                if not sp:
                    return f.get("attrs", "")
                parts = sp.split(":")
                path, l0, l1 = parts[0], int(parts[1]), int(parts[3])
                if f["name"] == field_name:
                    try:
                        with open(os.path.join(repo, path)) as fh:
                            lines = fh.read().split("\n")
                    except OSError:
                        return ""
                    seg = lines[prev_end:l0 - 1]
                    return "\n".join(x for x in seg if not x.strip().startswith("//"))
                prev_end = l1
        return ""

    def repo_root(self):
        try:
            with open(os.path.join(self.dir, ".complete")) as fh:
                return json.load(fh).get("repo", REPO)
        except (OSError, ValueError):
            return REPO

    def ext_variants(self, adt):
        """{discriminant string: variant name} of an enum defined outside the workspace,
        learnt from the aggregates that construct it anywhere in the workspace."""
        if not hasattr(self, "_extv"):
            m = {}
            for f in self.fns.values():
                for bb in f.bbs:
                    for s in bb["s"]:
                        if s["k"] == "a" and s["r"]["k"] == "agg" and s["r"].get("ak") == "adt" and s["r"]["adt"] not in self.adts:
                            m.setdefault(s["r"]["adt"], {})[str(s["r"]["vi"])] = s["r"]["var"]
            self._extv = m
        return self._extv.get(adt, {})

    def fn(self, ident):
        f = self.fns.get(ident)
        if f is None:
            raise KeyError("anchor function not found in facts: %s" % ident)
        return f

    def find(self, suffix):
        return [f for k, f in self.fns.items() if k.endswith(suffix)]

    def closures_of(self, ident, recursive=True):
        out = []
        for c in self.children.get(ident, []):
            if self.fns[c].dk in ("Closure", "InlineConst"):
                out.append(c)
                if recursive:
                    out.extend(self.closures_of(c))
        return out


_DB = {}


def load(repo=REPO, all_targets=False):
    d = ensure_facts(repo, all_targets=all_targets)
    if d not in _DB:
        try:
            _DB[d] = DB(d, include_tests=all_targets)
        except FileNotFoundError:
            # the cache directory was removed under us (concurrent prune): extract again, once
            shutil.rmtree(d, ignore_errors=True)
            d = ensure_facts(repo, all_targets=all_targets)
            _DB[d] = DB(d, include_tests=all_targets)
    return _DB[d]


if __name__ == "__main__":
    t = time.time()
    d = ensure_facts()
    db = DB(d)
    print(d, len(db.fns), "fns", len(db.adts), "adts", len(db.impls), "impls", "%.1fs" % (time.time() - t))
