"""Mutation battery (thorough tier): one-hunk edits of /repo that still compile and
that the existing tests do not notice; each names the rule expected to report it.
A mutant is (id, property, file, old, new, expected rule prefix). `old` must occur
exactly once in the file, otherwise the mutant is 'not applicable' on this tree."""
import os
import shutil
import subprocess
import sys
import tempfile
import time

from . import facts

M = []


def m(mid, prop, path, old, new, expect):
    M.append({"id": mid, "property": prop, "file": path, "old": old, "new": new, "expect": expect})


# ---- C01
m("C01-a", "C01", "libwallet/src/internal/selection.rs", "out.root_key_id == *parent_key_id\n\t\t\t\t&& out.eligible_to_spend", "true\n\t\t\t\t&& out.eligible_to_spend", "C01.R3")
m("C01-b", "C01", "libwallet/src/types.rs", "(self.status == OutputStatus::Unspent\n", "(self.status == OutputStatus::Locked\n", "C01.R3")
m("C01-c", "C01", "libwallet/src/internal/selection.rs", "if num_change_outputs == 0 || change < num_change_outputs as u64 {", "if change < num_change_outputs as u64 {", "C01.R1")
m("C01-d", "C01", "libwallet/src/internal/selection.rs", "fn amount_plus_fee(amount: u64, fee: u64) -> Result<u64, Error> {\n\tamount.checked_add(fee).ok_or_else(|| {\n\t\tError::GenericError(\"Transaction amount is too large to add the fee\".to_owned())\n\t})\n}", "fn amount_plus_fee(amount: u64, fee: u64) -> Result<u64, Error> {\n\tOk(amount + fee)\n}", "C01.R1")
m("C01-e", "C01", "libwallet/src/types.rs", "\t\t\t|| self.lock_height > current_height\n", "\t\t\t|| self.lock_height > current_height + 1\n", "C01.R")
m("C01-g", "C01", "libwallet/src/internal/selection.rs", "\t\twhile total < amount_with_fee {", "\t\tif total < amount_with_fee {", "C01.R6")
m("C01-f", "C01", "libwallet/src/internal/selection.rs", "\tif fixed_fee.map(|f| fee != f).unwrap_or(false) {", "\tif fixed_fee.map(|f| fee > f).unwrap_or(false) {", "C01.R5")
# ---- C02
m("C02-a", "C02", "libwallet/src/slate.rs", "\t\tself.check_fees()?;\n\t\t// build the final excess", "\t\t// build the final excess", "C02.R1")
m("C02-b", "C02", "libwallet/src/slate.rs", "\t\tfinal_tx.kernels()[0].verify()?;\n", "\t\tlet _ = final_tx.kernels()[0].verify();\n", "C02.R1")
m("C02-c", "C02", "libwallet/src/internal/selection.rs", "\tslate.amount = context.amount;\n\tif update_fee {", "\tif update_fee {", "C02.R3")
m("C02-d", "C02", "libwallet/src/api_impl/foreign.rs", "if let Some(args) = context.late_lock_args.take() {", "if let Some(args) = context.late_lock_args.clone() {", "C02.R5")
m("C02-e", "C02", "libwallet/src/slate.rs", "\t\tself.verify_part_sigs(secp)?;\n\n\t\tlet part_sigs = self.part_sigs();", "\t\tlet part_sigs = self.part_sigs();", "C02.R1")
# ---- C03
m("C03-a", "C03", "libwallet/src/internal/selection.rs", "\t\t\tif coin.status == OutputStatus::Locked\n\t\t\t\t|| coin.status == OutputStatus::Spent\n", "\t\t\tif coin.status == OutputStatus::Spent\n", "C03.R2")
m("C03-b", "C03", "libwallet/src/api_impl/foreign.rs", "\t\tif t.tx_type == TxLogEntryType::TxReceived || t.tx_type == TxLogEntryType::TxReverted {", "\t\tif t.tx_type == TxLogEntryType::TxReceivedCancelled || t.tx_type == TxLogEntryType::TxReverted {", "C03.R3")
m("C03-c", "C03", "libwallet/src/types.rs", "\t\tif [OutputStatus::Spent, OutputStatus::Locked].contains(&self.status)\n\t\t\t|| self.status == OutputStatus::Unconfirmed && self.is_coinbase\n\t\t\t|| self.lock_height > current_height\n\t\t{\n\t\t\tfalse\n\t\t} else {\n\t\t\t(self.status == OutputStatus::Unspent\n", "\t\tif [OutputStatus::Spent, OutputStatus::Reverted].contains(&self.status)\n\t\t\t|| self.status == OutputStatus::Unconfirmed && self.is_coinbase\n\t\t\t|| self.lock_height > current_height\n\t\t{\n\t\t\tfalse\n\t\t} else {\n\t\t\t((self.status == OutputStatus::Unspent || self.status == OutputStatus::Locked)\n", "C03.R4")
# ---- C04
m("C04-a", "C04", "libwallet/src/internal/updater.rs", "OutputStatus::Reverted => reverted_total = reverted_total.saturating_add(out.value),", "OutputStatus::Reverted => {\n\t\t\t\treverted_total = reverted_total.saturating_add(0);\n\t\t\t\tunspent_total = unspent_total.saturating_add(out.value)\n\t\t\t}", "C04.R2")
m("C04-b", "C04", "libwallet/src/internal/updater.rs", "\t\ttotal: unspent_total\n\t\t\t.saturating_add(unconfirmed_total)\n\t\t\t.saturating_add(immature_total),", "\t\ttotal: unspent_total\n\t\t\t.saturating_add(unconfirmed_total)\n\t\t\t.saturating_add(immature_total)\n\t\t\t.saturating_add(locked_total),", "C04.R3")
m("C04-c", "C04", "libwallet/src/internal/updater.rs", ".filter(|x| x.root_key_id == *parent_key_id && x.status != OutputStatus::Spent)", ".filter(|x| x.status != OutputStatus::Spent)", "C04.R1")
m("C04-d", "C04", "libwallet/src/internal/updater.rs", "\t\tif height < last_confirmed_height {", "\t\tif height + 1000 < last_confirmed_height {", "C04.R4")
# ---- C05
m("C05-a", "C05", "libwallet/src/internal/tx.rs", "\tif tx.confirmed {\n\t\treturn Err(Error::TransactionNotCancellable(tx_id_string));\n\t}\n", "", "C05.R1")
m("C05-b", "C05", "libwallet/src/internal/updater.rs", "\t\t\to.status = OutputStatus::Unspent;\n\t\t\tbatch.save(o)?;", "\t\t\to.status = OutputStatus::Spent;\n\t\t\tbatch.save(o)?;", "C05.R3")
m("C05-c", "C05", "libwallet/src/internal/updater.rs", "if o.status == OutputStatus::Unconfirmed || o.status == OutputStatus::Reverted {", "if o.status == OutputStatus::Unconfirmed || o.status == OutputStatus::Unspent {", "C05.R3")
m("C05-d", "C05", "libwallet/src/internal/tx.rs", "\t\tSome(tx.id),\n\t\tSome(&parent_key_id),\n\t)?;\n\tlet outputs", "\t\tSome(tx.id),\n\t\tNone,\n\t)?;\n\tlet outputs", "C05.R2")
# ---- C06
m("C06-a", "C06", "libwallet/src/internal/scan.rs", "\t\tis_coinbase: output.is_coinbase,\n\t\ttx_log_entry: Some(log_id),\n\t})?;", "\t\tis_coinbase: output.is_coinbase,\n\t\ttx_log_entry: Some(log_id),\n\t});", "C06.R3")
m("C06-b", "C06", "libwallet/src/internal/selection.rs", "\t\tbatch.save_tx_log_entry(t.clone(), &parent_key_id)?;\n\t\tbatch.commit()?;\n\t\tt\n\t};", "\t\tbatch.commit()?;\n\t\tdrop(batch);\n\t\tlet mut batch = wallet.batch(keychain_mask)?;\n\t\tbatch.save_tx_log_entry(t.clone(), &parent_key_id)?;\n\t\tbatch.commit()?;\n\t\tt\n\t};", "C06.R1")
m("C06-c", "C06", "impls/src/backends/lmdb.rs", "\t\tbatch.save_child_index(parent_key_id, deriv_idx)?;\n\t\tbatch.commit()?;\n\t\tOk(Identifier::from_path(&return_path))", "\t\tbatch.save_child_index(parent_key_id, deriv_idx)?;\n\t\tlet _ = batch.commit();\n\t\tOk(Identifier::from_path(&return_path))", "C06.R")
# ---- C07
m("C07-a", "C07", "libwallet/src/internal/updater.rs", "Ok(o) if o.is_coinbase && o.status == OutputStatus::Unconfirmed => o.key_id,", "Ok(o) if o.is_coinbase => o.key_id,", "C07.R2")
m("C07-b", "C07", "libwallet/src/api_impl/foreign.rs", "\tret_slate.amount = 0;\n\tret_slate.fee_fields = FeeFields::zero();\n\tret_slate.remove_other_sigdata", "\tret_slate.fee_fields = FeeFields::zero();\n\tret_slate.remove_other_sigdata", "C07.R3")
m("C07-c", "C07", "libwallet/src/internal/selection.rs", "\t\tstatus: OutputStatus::Unconfirmed,\n\t\theight: height,\n\t\tlock_height: 0,\n\t\tis_coinbase: false,\n\t\ttx_log_entry: Some(log_id),\n\t})?;\n\tbatch.save_tx_log_entry(t.clone(), &parent_key_id)?;\n\tbatch.commit()?;\n\n\tOk((key_id, context, t))", "\t\tstatus: OutputStatus::Unspent,\n\t\theight: height,\n\t\tlock_height: 0,\n\t\tis_coinbase: false,\n\t\ttx_log_entry: Some(log_id),\n\t})?;\n\tbatch.save_tx_log_entry(t.clone(), &parent_key_id)?;\n\tbatch.commit()?;\n\n\tOk((key_id, context, t))", "C07.R2")
# ---- C08
m("C08-a", "C08", "libwallet/src/slate_versions/v4_bin.rs", "\t\tv4.sta.write(writer)?;\n\t\tv4.off.write(writer)?;", "\t\tv4.off.write(writer)?;\n\t\tv4.sta.write(writer)?;", "C08.R1")
m("C08-b", "C08", "libwallet/src/slate_versions/v4_bin.rs", "\t\tlet ttl = if status & 0x10 > 0 {", "\t\tlet ttl = if status & 0x08 > 0 {", "C08.R2")
m("C08-c", "C08", "libwallet/src/slate_versions/v4_bin.rs", "\t\t\t5 => SlateStateV4::Invoice2,\n\t\t\t6 => SlateStateV4::Invoice3,", "\t\t\t5 => SlateStateV4::Invoice3,\n\t\t\t6 => SlateStateV4::Invoice2,", "C08.R3")
m("C08-d", "C08", "libwallet/src/slate_versions/v4.rs", "fn default_num_participants_2() -> u8 {\n\t2\n}", "fn default_num_participants_2() -> u8 {\n\t0\n}", "C08.R5")
m("C08-e", "C08", "libwallet/src/slate.rs", "\t\t\tamt: amount,\n\t\t\tfee: fee_fields,\n\t\t\tfeat,\n\t\t\tttl,\n\t\t\toff,\n\t\t\tsigs: participant_data,\n\t\t\tver,\n\t\t\tproof: payment_proof,\n\t\t\tfeat_args,\n\t\t}\n\t}\n}\n\nimpl From<&Slate> for Option<Vec<CommitsV4>>", "\t\t\tamt: ttl,\n\t\t\tfee: fee_fields,\n\t\t\tfeat,\n\t\t\tttl: amount,\n\t\t\toff,\n\t\t\tsigs: participant_data,\n\t\t\tver,\n\t\t\tproof: payment_proof,\n\t\t\tfeat_args,\n\t\t}\n\t}\n}\n\nimpl From<&Slate> for Option<Vec<CommitsV4>>", "C08.R4")
# ---- C09
m("C09-a", "C09", "libwallet/src/slate_versions/v4_bin.rs", "let saddr = DalekPublicKey::from_bytes(&reader.read_fixed_bytes(32)?)\n\t\t\t.map_err(|_| grin_ser::Error::CorruptedData)?;", "let saddr = DalekPublicKey::from_bytes(&reader.read_fixed_bytes(32)?).unwrap();", "C09.R1")
m("C09-b", "C09", "libwallet/src/slatepack/armor.rs", "\t\tif base_decode.len() < 4 {\n\t\t\treturn Err(Error::InvalidSlatepackData(\n\t\t\t\t\"Slatepack data too short\".to_string(),\n\t\t\t));\n\t\t}\n", "", "C09.R1")
m("C09-c", "C09", "api/src/types.rs", "\t\tif nonce.len() != 12 {", "\t\tif nonce.len() < 8 {", "C09.R1")
m("C09-d", "C09", "libwallet/src/slatepack/types.rs", "\t\tbytes_remaining = bytes_remaining\n\t\t\t.checked_sub(2)\n\t\t\t.ok_or(ser::Error::CorruptedData)?;\n\n\t\tlet sender", "\t\tbytes_remaining -= 2;\n\n\t\tlet sender", "C09.R1")
# ---- C10
m("C10-a", "C10", "libwallet/src/slatepack/types.rs", "\t\tself.encrypted_meta.sender = self.sender.clone();\n\t\tself.sender = None;", "\t\tself.encrypted_meta.sender = self.sender.clone();", "C10.R1")
m("C10-b", "C10", "libwallet/src/slatepack/types.rs", "\t\tself.encrypted_meta.sender = None;\n\n\t\tif self.future_test_mode {", "\t\tif self.future_test_mode {", "C10.R2")
m("C10-c", "C10", "libwallet/src/slatepack/armor.rs", "\t\terror_check(error_code, slatepack_bytes)?;\n", "\t\tlet _ = error_check(error_code, slatepack_bytes);\n", "C10.R4")
m("C10-d", "C10", "libwallet/src/slatepack/packer.rs", "\t\t\tslatepack.try_decrypt_payload(self.0.dec_key)?;", "\t\t\tlet _ = slatepack.try_decrypt_payload(self.0.dec_key);", "C10.R3")
# ---- C11
m("C11-a", "C11", "libwallet/src/internal/tx.rs", "\t\tif orig_proof_info.receiver_address != p.receiver_address {\n\t\t\treturn Err(Error::PaymentProof(\n\t\t\t\t\"Recipient address on slate does not match original recipient address\".to_owned(),\n\t\t\t));\n\t\t}\n", "", "C11.R1")
m("C11-b", "C11", "libwallet/src/api_impl/owner.rs", "\tif sender_pubkey.verify(&msg, &proof.sender_sig).is_err() {", "\tif recipient_pubkey.verify(&msg, &proof.sender_sig).is_err() {", "C11.R3")
m("C11-c", "C11", "libwallet/src/api_impl/foreign.rs", "\t\ttx::verify_slate_payment_proof(&mut *w, keychain_mask, &parent_key_id, &context, &sl)?;\n", "", "C11.R2")
m("C11-d", "C11", "libwallet/src/internal/tx.rs", "\tmsg.write_u64::<BigEndian>(amount)?;\n", "", "C11.R4")
# ---- C12
m("C12-a", "C12", "impls/src/backends/lmdb.rs", "\t\t\ts_ctx.sec_nonce.0[i] ^= nonce_xor_key[i];\n", "", "C12.R1")
m("C12-b", "C12", "controller/src/controller.rs", "Foreign::new(wallet, mask, Some(check_middleware), test_mode);", "Foreign::new(wallet, mask, Some(check_middleware), true);", "C12.R7")
m("C12-c", "C12", "libwallet/src/types.rs", "\t\t\tfalse => aggsig::create_secnonce(secp).unwrap(),", "\t\t\tfalse => SecretKey::from_slice(secp, &[2; 32]).unwrap(),", "C12.R6")
m("C12-d", "C12", "impls/src/lifecycle/seed.rs", "\t\tif let Err(_) = res {\n\t\t\treturn Err(Error::Encryption);\n\t\t}\n\t\tfor _ in 0..aead::AES_256_GCM.tag_len() {", "\t\tfor _ in 0..aead::AES_256_GCM.tag_len() {", "C12.R4")
# ---- C13
m("C13-a", "C13", "controller/src/controller.rs", "\t\t\twas_encrypted = true;\n", "", "C13.R3")
m("C13-b", "C13", "controller/src/controller.rs", "\t\tif !is_init_secure_api {\n\t\t\tif let Err(v) = OwnerV3Helpers::check_encryption_started", "\t\tif !is_init_secure_api && running_foreign {\n\t\t\tif let Err(v) = OwnerV3Helpers::check_encryption_started", "C13.R1")
m("C13-c", "C13", "api/src/types.rs", "\t\tif let Err(_) = res {\n\t\t\treturn Err(Error::APIEncryption(\"EncryptedBody: decryption failed\".to_owned()).into());\n\t\t}\n", "", "C13.R2")
# ---- C14
m("C14-a", "C14", "api/src/owner.rs", "\t\towner::cancel_tx(\n\t\t\tself.wallet_inst.clone(),\n\t\t\tkeychain_mask,", "\t\towner::cancel_tx(\n\t\t\tself.wallet_inst.clone(),\n\t\t\tNone,", "C14.R4")
m("C14-b", "C14", "impls/src/backends/lmdb.rs", "\t\t\t\t\treturn Err(Error::InvalidKeychainMask);\n", "", "C14.R1")
m("C14-c", "C14", "impls/src/lifecycle/default.rs", "\t\tself.backend = None;\n\t\tOk(())", "\t\tOk(())", "C14.R5")
# ---- C15
m("C15-a", "C15", "impls/src/backends/lmdb.rs", "\t\tderiv_idx += 1;\n", "\t\tderiv_idx += 0;\n", "C15.R2")
m("C15-b", "C15", "libwallet/src/internal/scan.rs", "if *max_child_index >= current_child_index {", "if *max_child_index <= current_child_index {", "C15.R3")
m("C15-c", "C15", "libwallet/src/internal/selection.rs", "\t\t\tchange_amounts_derivations.push((change_amount, change_key.clone(), None));", "\t\t\tchange_amounts_derivations.push((change_amount, coins[0].key_id.clone(), None));", "C15.R1")
# ---- C17
m("C17-a", "C17", "libwallet/src/api_impl/owner.rs", "\t\tif last_confirmed_height >= slate.ttl_cutoff_height {", "\t\tif last_confirmed_height > slate.ttl_cutoff_height {", "C17.R2")
m("C17-b", "C17", "libwallet/src/api_impl/owner.rs", "\t\t\tif tip.0 >= e {", "\t\t\tif tip.0 > e {", "C17.R2")
m("C17-c", "C17", "libwallet/src/api_impl/foreign.rs", "\tlet mut ret_slate = slate.clone();\n\tcheck_ttl(w, &ret_slate)?;\n", "\tlet mut ret_slate = slate.clone();\n", "C17.R1")
# ---- C18
m("C18-a", "C18", "libwallet/src/types.rs", "\t\t\tOutputStatus::Unspent => self.status = OutputStatus::Reverted,", "\t\t\tOutputStatus::Unspent | OutputStatus::Locked => self.status = OutputStatus::Reverted,", "C18.R3")
m("C18-b", "C18", "libwallet/src/internal/updater.rs", "\t\t\t\t\t\tif !output.is_coinbase\n\t\t\t\t\t\t\t&& output\n\t\t\t\t\t\t\t\t.tx_log_entry", "\t\t\t\t\t\tif output.is_coinbase\n\t\t\t\t\t\t\t&& output\n\t\t\t\t\t\t\t\t.tx_log_entry", "C18.R4")
m("C18-c", "C18", "libwallet/src/internal/updater.rs", "\t\t\t\t\t\t\t\t\tt.reverted_after = None;\n", "", "C18.R4")
# ---- C19
m("C19-a", "C19", "libwallet/src/internal/updater.rs", "\t\t\t\tif let Some(v) = query_args.max_id {\n\t\t\t\t\ttx_entry.id <= v", "\t\t\t\tif let Some(v) = query_args.max_id {\n\t\t\t\t\ttx_entry.id < v", "C19.R1")
m("C19-b", "C19", "libwallet/src/internal/updater.rs", "\t\t\t\tif let Some(v) = query_args.max_creation_timestamp {", "\t\t\t\tif let Some(v) = query_args.min_confirmed_timestamp {", "C19.R1")
m("C19-c", "C19", "libwallet/src/internal/updater.rs", "\t\t\t.filter(|tx_entry| match parent_key_id {\n\t\t\t\tSome(k) => tx_entry.parent_key_id == *k,\n\t\t\t\tNone => true,\n\t\t\t})\n", "", "C19.R3")
# ---- C20
m("C20-a", "C20", "libwallet/src/api_impl/owner.rs", "\tif !update_wallet_state(\n\t\twallet_inst.clone(),\n\t\tkeychain_mask,\n\t\tstatus_send_channel,\n\t\tfalse,\n\t)? {\n\t\treturn Err(Error::TransactionCancellationError(\n\t\t\t\"Can't contact running Grin node. Not Cancelling.\",\n\t\t));\n\t}\n\twallet_lock!(wallet_inst, w);\n\tlet parent_key_id = w.parent_key_id();\n\ttx::cancel_tx(&mut **w, keychain_mask, &parent_key_id, tx_id, tx_slate_id)", "\tlet snapshot = {\n\t\twallet_lock!(wallet_inst, w);\n\t\tupdater::retrieve_txs(&mut **w, tx_id, tx_slate_id, None, None, false)?\n\t};\n\tif !update_wallet_state(\n\t\twallet_inst.clone(),\n\t\tkeychain_mask,\n\t\tstatus_send_channel,\n\t\tfalse,\n\t)? {\n\t\treturn Err(Error::TransactionCancellationError(\n\t\t\t\"Can't contact running Grin node. Not Cancelling.\",\n\t\t));\n\t}\n\twallet_lock!(wallet_inst, w);\n\tlet parent_key_id = w.parent_key_id();\n\ttx::cancel_tx(&mut **w, keychain_mask, &parent_key_id, tx_id, tx_slate_id)?;\n\tfor mut t in snapshot {\n\t\tt.tx_type = TxLogEntryType::TxSentCancelled;\n\t\tlet mut batch = w.batch(keychain_mask)?;\n\t\tbatch.save_tx_log_entry(t, &parent_key_id)?;\n\t\tbatch.commit()?;\n\t}\n\tOk(())", "C20.R1")

m("C20-b", "C20", "api/src/owner.rs", "\t\t\t\tlet tc = self.tor_config.lock().clone();\n\t\t\t\tlet tc = match tc {\n\t\t\t\t\tSome(mut c) => {\n\t\t\t\t\t\tc.skip_send_attempt = Some(skip_tor);", "\t\t\t\tlet tor_config_lock = self.tor_config.lock();\n\t\t\t\tlet tc = tor_config_lock.clone();\n\t\t\t\tlet tc = match tc {\n\t\t\t\t\tSome(mut c) => {\n\t\t\t\t\t\tc.skip_send_attempt = Some(skip_tor);", "C20.R2")
m("C20-c", "C20", "controller/src/controller.rs", "\t\t\tlet mut shared_mask_ref = mask.lock();\n\t\t\t*shared_mask_ref = Some(sk);", "\t\t\tlet secp_inst = static_secp_instance();\n\t\t\tlet _secp = secp_inst.lock();\n\t\t\tlet mut shared_mask_ref = mask.lock();\n\t\t\t*shared_mask_ref = Some(sk);", "C20.R2")
m("C20-d", "C20", "libwallet/src/api_impl/owner.rs", "pub fn check_ttl<'a, T: ?Sized, C, K>(w: &mut T, slate: &Slate) -> Result<(), Error>\nwhere\n\tT: WalletBackend<'a, C, K>,\n\tC: NodeClient + 'a,\n\tK: Keychain + 'a,\n{\n", "pub fn check_ttl<'a, T: ?Sized, C, K>(w: &mut T, slate: &Slate) -> Result<(), Error>\nwhere\n\tT: WalletBackend<'a, C, K>,\n\tC: NodeClient + 'a,\n\tK: Keychain + 'a,\n{\n\tlet secp_inst = crate::grin_util::static_secp_instance();\n\tlet _secp = secp_inst.lock();\n\tlet _ = crate::grin_util::static_secp_instance();\n", "C20.R2")

# ---- second wave (subtler edits)
m("C11-e", "C11", "libwallet/src/internal/tx.rs", "\t\tif orig_proof_info.receiver_address != p.receiver_address {", "\t\tif p.receiver_address != p.receiver_address {", "C11.R1")
m("C11-f", "C11", "libwallet/src/internal/tx.rs", "\t\tif p.receiver_address.verify(&msg, &sig).is_err() {", "\t\tif p.sender_address.verify(&msg, &sig).is_err() {", "C11.R")
m("C12-e", "C12", "libwallet/src/types.rs", "\t\t\tfalse => aggsig::create_secnonce(secp).unwrap(),", "\t\t\tfalse => sec_key.clone(),", "C12.R6")
m("C05-e", "C05", "libwallet/src/internal/updater.rs", "\t\tTxLogEntryType::TxSent => tx.tx_type = TxLogEntryType::TxSentCancelled,\n\t\tTxLogEntryType::TxReceived | TxLogEntryType::TxReverted => {\n\t\t\ttx.tx_type = TxLogEntryType::TxReceivedCancelled\n\t\t}", "\t\tTxLogEntryType::TxSent | TxLogEntryType::TxReverted => tx.tx_type = TxLogEntryType::TxSentCancelled,\n\t\tTxLogEntryType::TxReceived => {\n\t\t\ttx.tx_type = TxLogEntryType::TxReceivedCancelled\n\t\t}", "C05.R3")
m("C10-e", "C10", "libwallet/src/slatepack/armor.rs", "\tif error_code.iter().eq(new_check.iter()) {", "\tif error_code.iter().take(3).eq(new_check.iter().take(3)) {", "C10.R4")
m("C14-d", "C14", "impls/src/backends/lmdb.rs", "\t\t\t\tif *self.master_checksum != Some(hasher.finalize()) {", "\t\t\t\tif self.master_checksum.is_some() && *self.master_checksum != Some(hasher.finalize()) {", "C14.R1")
m("C18-d", "C18", "libwallet/src/internal/updater.rs", "\t\tif client.get_kernel(&excess, min_height, None)?.is_none() {", "\t\tif client.get_kernel(&excess, min_height, None).unwrap_or(None).is_none() {", "C18.R4")
m("C19-d", "C19", "libwallet/src/internal/updater.rs", "\t\t\tRetrieveTxQuerySortOrder::Desc => return_txs.reverse(),", "\t\t\tRetrieveTxQuerySortOrder::Asc => return_txs.reverse(),", "C19.R")
m("C06-d", "C06", "libwallet/src/internal/updater.rs", "\tbatch.save_tx_log_entry(tx, parent_key_id)?;\n\tbatch.commit()?;\n\tOk(())\n}\n\n/// Apply refreshed API output data to the wallet", "\tbatch.save_tx_log_entry(tx, parent_key_id)?;\n\tlet _ = batch.commit();\n\tOk(())\n}\n\n/// Apply refreshed API output data to the wallet", "C06.R3")
m("C02-f", "C02", "libwallet/src/api_impl/foreign.rs", "\t\ttx::complete_tx(&mut *w, keychain_mask, &mut sl, &context)?;\n\t\ttx::verify_slate_payment_proof", "\t\tlet _ = tx::complete_tx(&mut *w, keychain_mask, &mut sl, &context);\n\t\ttx::verify_slate_payment_proof", "C02.R2")
m("C03-d", "C03", "libwallet/src/internal/selection.rs", "batch.lock_output(&mut coin)?;", "coin.tx_log_entry = Some(log_id);\n\t\t\tbatch.save(coin)?;", "C03.R")
m("C07-d", "C07", "libwallet/src/api_impl/foreign.rs", "\tcheck_ttl(w, &ret_slate)?;\n\tlet parent_key_id = match dest_acct_name {", "\tlet parent_key_id = match dest_acct_name {", "C07.R3")
m("C13-d", "C13", "controller/src/controller.rs", "\t\t\tlet mut share_key_ref = key.lock();\n\t\t\t*share_key_ref = new_key;", "\t\t\tlet share_key_ref = key.lock();\n\t\t\tlet _ = (share_key_ref, new_key);", "C13.R4")
m("C15-d", "C15", "libwallet/src/internal/selection.rs", "\t\t\tlet change_key = wallet.next_child(keychain_mask, parent_key_id)?;", "\t\t\tlet change_key = match wallet.next_child(keychain_mask, parent_key_id) {\n\t\t\t\tOk(k) => k,\n\t\t\t\tErr(_) => coins[0].key_id.clone(),\n\t\t\t};", "C15.R")
m("C17-d", "C17", "libwallet/src/api_impl/owner.rs", "\tif slate.ttl_cutoff_height != 0 {\n\t\tif last_confirmed_height >= slate.ttl_cutoff_height {", "\tif slate.ttl_cutoff_height > 1 {\n\t\tif last_confirmed_height >= slate.ttl_cutoff_height {", "C17.R2")
m("C04-e", "C04", "libwallet/src/internal/updater.rs", "\t\t\tif reverted_kernels.contains(&tx.id) && tx.parent_key_id == *parent_key_id {", "\t\t\tif reverted_kernels.contains(&tx.id) {", "C04.R1")
m("C09-e", "C09", "libwallet/src/slatepack/types.rs", "\t\t\t.filter(|s| *s <= decrypted.len())\n", "\t\t\t.filter(|s| *s <= decrypted.len() + 4)\n", "C09.R1")

# ---- C16
SCAN = "libwallet/src/internal/scan.rs"
m("C16-a", "C16", SCAN, "\t\t\tlast_retrieved_return_index = last_retrieved_index;\n\t\t\tbreak;\n\t\t}\n\t\tstart_index = last_retrieved_index + 1;", "\t\t\tlast_retrieved_return_index = last_retrieved_index;\n\t\t\tbreak;\n\t\t}\n\t\tstart_index = last_retrieved_index;", "C16.R2")
m("C16-b", "C16", SCAN, "\t\tif highest_index <= last_retrieved_index {\n\t\t\tlast_retrieved_return_index", "\t\tif highest_index <= last_retrieved_index + 1 {\n\t\t\tlast_retrieved_return_index", "C16.R2")
m("C16-c", "C16", SCAN, "\t\theight: output.height,\n\t\tlock_height: output.lock_height,", "\t\theight: output.lock_height,\n\t\tlock_height: output.lock_height,", "C16.R1")
m("C16-d", "C16", SCAN, "\t\tlet lock_height = if *is_coinbase {\n\t\t\t*height + global::coinbase_maturity()\n\t\t} else {\n\t\t\t*height\n\t\t};\n\n\t\tlet msg = format!(", "\t\tlet lock_height = if !*is_coinbase {\n\t\t\t*height + global::coinbase_maturity()\n\t\t} else {\n\t\t\t*height\n\t\t};\n\n\t\tlet msg = format!(", "C16.R1")
m("C16-e", "C16", SCAN, "\t\t\t\tif s.output.status == OutputStatus::Spent {", "\t\t\t\tif s.output.status == OutputStatus::Unconfirmed {", "C16.R3")
m("C16-f", "C16", SCAN, "updater::retrieve_outputs(&mut **w, keychain_mask, true, None, None)?", "updater::retrieve_outputs(&mut **w, keychain_mask, false, None, None)?", "C16.R4")
m("C16-g", "C16", SCAN, "\tif delete_unconfirmed {\n\t\t// Unlock locked outputs", "\tif delete_unconfirmed || start_height == 0 {\n\t\t// Unlock locked outputs", "C16.R3")
m("C16-h", "C16", SCAN, "\t\tstatus: OutputStatus::Unspent,\n\t\theight: output.height,", "\t\tstatus: OutputStatus::Unconfirmed,\n\t\theight: output.height,", "C16.R1")
m("C16-i", "C16", SCAN, "\t\tresult_vec.append(&mut identify_utxo_outputs(\n\t\t\tkeychain,\n\t\t\toutputs.clone(),\n\t\t\tstatus_send_channel,\n\t\t\tperc_complete as u8,\n\t\t)?);\n\n\t\tif highest_index <= last_retrieved_index {", "\t\tif highest_index <= last_retrieved_index {\n\t\t\tlast_retrieved_return_index = last_retrieved_index;\n\t\t\tbreak;\n\t\t}\n\t\tresult_vec.append(&mut identify_utxo_outputs(\n\t\t\tkeychain,\n\t\t\toutputs.clone(),\n\t\t\tstatus_send_channel,\n\t\t\tperc_complete as u8,\n\t\t)?);\n\n\t\tif highest_index <= last_retrieved_index {", "C16.R2")

# ---- third wave (from second-round seeds)
m("C02-g", "C02", "libwallet/src/slate.rs", "\t\tif fee > tx.fee() {", "\t\tif fee > tx.fee() + 1 {", "C02.R6")
m("C06-e", "C06", "libwallet/src/internal/updater.rs", "\tbatch.save_tx_log_entry(tx, parent_key_id)?;\n\tbatch.commit()?;\n\tOk(())\n}\n\n/// Apply refreshed API output data to the wallet", "\tbatch.save_tx_log_entry(tx, parent_key_id)?;\n\tOk(())\n}\n\n/// Apply refreshed API output data to the wallet", "C06.R6")
m("C12-f", "C12", "libwallet/src/api_impl/foreign.rs", "\t\t\tlet mut batch = w.batch(keychain_mask)?;\n\t\t\tbatch.delete_private_context(sl.id.as_bytes())?;\n\t\t\tbatch.commit()?;\n\t\t}\n\t\tsl.state = SlateState::Standard3;", "\t\t\tlet batch = w.batch(keychain_mask)?;\n\t\t\tbatch.commit()?;\n\t\t}\n\t\tsl.state = SlateState::Standard3;", "C12.R8")
m("C16-j", "C16", "libwallet/src/internal/scan.rs", "\t\t\tkeys::set_acct_path(&mut **w, keychain_mask, &label, path)?;\n\t\t\tacct_index += 1;", "\t\t\tkeys::set_acct_path(&mut **w, keychain_mask, &label, path)?;\n\t\t\tacct_index += 0;", "C16.R5")

m("C04-f", "C04", "libwallet/src/internal/selection.rs", "\t\t\tt.amount_credited += change_amount;", "\t\t\tt.amount_credited = change_amount;", "C04.R5")
m("C04-g", "C04", "libwallet/src/internal/selection.rs", "\t\t\tamount_debited += coin.value;\n\t\t\tbatch.lock_output(&mut coin)?;", "\t\t\tamount_debited = coin.value;\n\t\t\tbatch.lock_output(&mut coin)?;", "C04.R5")
m("C04-h", "C04", "libwallet/src/internal/selection.rs", "\tt.amount_credited = amount;\n\tt.num_outputs = 1;", "\tt.amount_credited = amount + context.fee.map(|f| f.fee()).unwrap_or(0);\n\tt.num_outputs = 1;", "C04.R5")

m("C05-f", "C05", "libwallet/src/internal/tx.rs", "\tif tx_vec.len() != 1 {\n\t\treturn Err(Error::TransactionDoesntExist(tx_id_string));\n\t}\n\tlet tx = tx_vec[0].clone();\n\tmatch tx.tx_type {", "\tif tx_vec.is_empty() {\n\t\treturn Err(Error::TransactionDoesntExist(tx_id_string));\n\t}\n\tlet tx = tx_vec[0].clone();\n\tmatch tx.tx_type {", "C05.R1")
m("C05-g", "C05", "libwallet/src/api_impl/owner.rs", "\t\treturn Err(Error::TransactionCancellationError(\n\t\t\t\"Can't contact running Grin node. Not Cancelling.\",\n\t\t));\n\t}\n\twallet_lock!(wallet_inst, w);\n\tlet parent_key_id = w.parent_key_id();\n\ttx::cancel_tx(", "\t\twarn!(\"Can't contact running Grin node. Cancelling anyway.\");\n\t}\n\twallet_lock!(wallet_inst, w);\n\tlet parent_key_id = w.parent_key_id();\n\ttx::cancel_tx(", "C05.R")
m("C05-h", "C05", "libwallet/src/internal/tx.rs", "\t\tTxLogEntryType::TxSent | TxLogEntryType::TxReceived | TxLogEntryType::TxReverted => {}\n\t\t_ => return Err(Error::TransactionNotCancellable(tx_id_string)),", "\t\tTxLogEntryType::TxSent | TxLogEntryType::TxReceived | TxLogEntryType::TxReverted | TxLogEntryType::ConfirmedCoinbase => {}\n\t\t_ => return Err(Error::TransactionNotCancellable(tx_id_string)),", "C05.R1")

# ---- probes (other mechanisms)
m("C03-e", "C03", "impls/src/backends/lmdb.rs", "\t\tout.lock();\n\t\tself.save(out.clone())", "\t\tout.lock();\n\t\tOk(())", "C03.R")
m("C04-i", "C04", "libwallet/src/internal/updater.rs", "\t\t\t\t\t\t\toutput.mark_reverted();\n\t\t\t\t\t\t} else {\n\t\t\t\t\t\t\toutput.mark_spent();", "\t\t\t\t\t\t\toutput.mark_reverted();\n\t\t\t\t\t\t} else {\n\t\t\t\t\t\t\toutput.mark_unspent();", "C04.R")
m("C12-g", "C12", "impls/src/backends/lmdb.rs", "\t\t\tctx.sec_key.0[i] ^= blind_xor_key[i];\n\t\t\tctx.sec_nonce.0[i] ^= nonce_xor_key[i];", "\t\t\tctx.sec_key.0[i] ^= blind_xor_key[i];\n\t\t\tctx.sec_nonce.0[i] ^= blind_xor_key[i];", "C12.R1")
m("C17-e", "C17", "libwallet/src/api_impl/owner.rs", "\t\tif let Some(e) = tx.ttl_cutoff_height {\n\t\t\tif tip.0 >= e {", "\t\tif let Some(e) = tx.ttl_cutoff_height {\n\t\t\tif tip.0 >= e && tx.id > 0 {", "C17.R2")
m("C19-e", "C19", "libwallet/src/internal/updater.rs", "\t\t\t\t\tif v {\n\t\t\t\t\t\ttx_entry.tx_type != TxLogEntryType::TxReceivedCancelled\n\t\t\t\t\t\t\t&& tx_entry.tx_type != TxLogEntryType::TxSentCancelled", "\t\t\t\t\tif v {\n\t\t\t\t\t\ttx_entry.tx_type != TxLogEntryType::TxReceivedCancelled\n\t\t\t\t\t\t\t|| tx_entry.tx_type != TxLogEntryType::TxSentCancelled", "C19.R1")
m("C18-e", "C18", "libwallet/src/internal/updater.rs", "\t\t\t\t\t\toutput.height = o.1;\n\t\t\t\t\t\toutput.mark_unspent();", "\t\t\t\t\t\toutput.height = o.1;", "C18.R4")
m("C10-f", "C10", "libwallet/src/slatepack/types.rs", "\t\tlet rec_keys: Result<Vec<_>, _> = recipients\n", "\t\tlet rec_keys: Result<Vec<_>, _> = recipients[..1]\n", "C10.R1")
m("C20-e", "C20", "libwallet/src/api_impl/owner.rs", "\t\twallet_lock!(wallet_inst, w);\n\t\tlet mut batch = w.batch(keychain_mask)?;\n\t\tbatch.save_last_scanned_block(info)?;", "\t\twallet_lock!(wallet_inst, w);\n\t\tlet mut batch = w.batch(keychain_mask)?;\n\t\tfor t in txs.iter() {\n\t\t\tbatch.save_tx_log_entry(t.clone(), &t.parent_key_id)?;\n\t\t}\n\t\tbatch.save_last_scanned_block(info)?;", "C20.R1")

m("C18-f", "C18", "libwallet/src/internal/updater.rs", "\t\t\t\t\t\t\toutput.mark_reverted();\n\t\t\t\t\t\t} else {\n\t\t\t\t\t\t\toutput.mark_spent();", "\t\t\t\t\t\t\toutput.mark_reverted();\n\t\t\t\t\t\t} else {\n\t\t\t\t\t\t\toutput.mark_unspent();", "C18.R4")

m("C16-k", "C16", "libwallet/src/internal/scan.rs", "\t\tt.confirmed = true;\n\t\tt.amount_credited = output.value;\n\t\tt.num_outputs = 1;", "\t\tt.confirmed = true;\n\t\tt.amount_credited = output.lock_height;\n\t\tt.num_outputs = 1;", "C16.R1")

m("C13-e", "C13", "controller/src/controller.rs", "\t\tmatches!(val[\"method\"].as_str(), Some(\"init_secure_api\"))", "\t\tmatches!(val[\"method\"].as_str(), Some(\"init_secure_api\") | Some(\"open_wallet\"))", "C13.R1")

m("C14-e", "C14", "impls/src/backends/lmdb.rs", "\t\t\t\t\tk.mask_master_key(&mask_value)?;\n\t\t\t\t\tSome(mask_value)", "\t\t\t\t\tSome(mask_value)", "C14.R6")
m("C14-f", "C14", "impls/src/backends/lmdb.rs", "\t\t\t\t\tk.mask_master_key(&mask_value)?;\n\t\t\t\t\tSome(mask_value)", "\t\t\t\t\tk.mask_master_key(&mask_value)?;\n\t\t\t\t\tSome(secp::key::SecretKey::new(&k.secp(), &mut thread_rng()))", "C14.R6")

m("C15-e", "C15", "libwallet/src/internal/keys.rs", "p.path[0] = ChildNumber::from(<u32>::from(p.path[0]) + 1);", "p.path[0] = ChildNumber::from(<u32>::from(p.path[0]) + 0);", "C15.R5")
m("C15-f", "C15", "libwallet/src/internal/keys.rs", "\tif wallet.acct_path_iter().any(|l| l.label == label) {\n\t\treturn Err(Error::AccountLabelAlreadyExists(label));\n\t}\n\n\t// We're always using paths", "\t// We're always using paths", "C15.R5")

m("C11-g", "C11", "libwallet/src/internal/tx.rs", "\t\t\tcreate_payment_proof_signature(slate.amount, &excess, p.sender_address, sender_key)?;", "\t\t\tcreate_payment_proof_signature(slate.amount, &excess, p.receiver_address, sender_key)?;", "C11.R4")
m("C11-h", "C11", "libwallet/src/api_impl/owner.rs", "\tif sender_pubkey.verify(&msg, &proof.sender_sig).is_err() {", "\tif sender_pubkey.verify(&msg, &proof.recipient_sig).is_err() && recipient_pubkey.verify(&msg, &proof.recipient_sig).is_err() {", "C11.R3")
m("C11-j", "C11", "libwallet/src/api_impl/owner.rs", "\tlet msg = tx::payment_proof_message(proof.amount, &proof.excess, sender_pubkey)?;", "\tlet msg = tx::payment_proof_message(proof.amount, &proof.excess, proof.recipient_address.pub_key)?;", "C11.R4")

# ---- from the fourth wave
m("C17-f", "C17", "libwallet/src/api_impl/owner.rs", "\t\t\t\t\t&tx.parent_key_id,\n\t\t\t\t\tSome(tx.id),\n\t\t\t\t\tNone,\n\t\t\t\t)?;\n\t\t\t}\n", "\t\t\t\t\t&tx.parent_key_id,\n\t\t\t\t\tSome(tx.id),\n\t\t\t\t\tNone,\n\t\t\t\t)?;\n\t\t\t} else {\n\t\t\t\tbreak;\n\t\t\t}\n", "C17.R2")
m("C18-g", "C18", "libwallet/src/internal/updater.rs", "\t\tif height < last_confirmed_height {", "\t\tif height <= last_confirmed_height {", "C18.R5")
m("C10-g", "C10", "libwallet/src/slatepack/types.rs", "\t\treader.read_to_end(&mut decrypted)?;", "\t\tlet _ = reader.read_to_end(&mut decrypted);", "C10.R3")
m("C19-f", "C19", "libwallet/src/internal/updater.rs", "\t\t\tRetrieveTxQuerySortOrder::Desc => return_txs.reverse(),", "\t\t\tRetrieveTxQuerySortOrder::Desc => {}", "C19.R1")

m("C02-h", "C02", "libwallet/src/slate.rs", "\t\tif let Err(e) = final_tx.validate(Weighting::AsTransaction) {", "\t\tif let Err(e) = self.tx_or_err()?.validate(Weighting::AsTransaction) {", "C02.R1")
m("C02-i", "C02", "libwallet/src/slate.rs", "\t\tfinal_tx.kernels()[0].verify()?;", "\t\tself.tx_or_err()?.kernels()[0].verify()?;", "C02.R1")

m("C12-h", "C12", "libwallet/src/internal/selection.rs", "\tlet keychain = wallet.keychain(keychain_mask)?;\n\n\tlet tx_entry = {", "\tlet keychain = wallet.keychain(keychain_mask)?;\n\tdebug!(\"locking outputs with context {:?}\", context);\n\n\tlet tx_entry = {", "C12.R9")

m("C16-l", "C16", "libwallet/src/internal/scan.rs", "\t\t&keychain,\n\t\tclient,\n\t\tpmmr_range.0,\n\t\tSome(pmmr_range.1),", "\t\t&keychain,\n\t\tclient,\n\t\tpmmr_range.0 + 1,\n\t\tSome(pmmr_range.1),", "C16.R2")
m("C16-m", "C16", "libwallet/src/internal/scan.rs", "\t\tlet matched_out = wallet_outputs.iter().find(|wo| wo.commit == deffo.commit);", "\t\tlet matched_out = wallet_outputs.iter().find(|wo| wo.output.value == deffo.value);", "C16.R3")

# ---- from the fifth wave
m("C04-j", "C04", "libwallet/src/internal/updater.rs", "\t\t\t&& out.height < height - 50\n\t\t\t&& out.is_coinbase\n", "\t\t\t&& out.height < height - 50\n", "C04.R7")
m("C06-f", "C06", "impls/src/backends/lmdb.rs", "\t\t\t.map_err(|e| Error::StoredTx(format!(\"{}: {}\", uuid, e)))?,\n\t\t))", "\t\t\t.unwrap_or_default(),\n\t\t))", "C06.R4")

m("C04-k", "C04", "libwallet/src/internal/updater.rs", "\t\t\t\tSome(t) => tx_entries.iter().any(|te| te.id == *t),\n\t\t\t\tNone => true,", "\t\t\t\tSome(t) => tx_entries.iter().any(|te| te.id == *t),\n\t\t\t\tNone => false,", "C04.R")
m("C04-l", "C04", "libwallet/src/internal/updater.rs", "\t\t\tout.tx_log_entry,\n\t\t\tout.status == OutputStatus::Unspent,\n\t\t);", "\t\t\tout.tx_log_entry,\n\t\t\tout.status != OutputStatus::Spent,\n\t\t);", "C04.R8")

m("C18-i", "C18", "libwallet/src/internal/updater.rs", "\t\t\tif *was_unspent && !api_outputs.contains_key(commit) {", "\t\t\tif !api_outputs.contains_key(commit) {", "C18.R4")
m("C18-j", "C18", "libwallet/src/internal/updater.rs", "\t\t\t\t&& t.tx_type == TxLogEntryType::TxReceived\n\t\t})\n\t\t.filter_map(", "\t\t\t\t&& t.tx_type != TxLogEntryType::TxSent\n\t\t})\n\t\t.filter_map(", "C18.R4")
m("C18-k", "C18", "libwallet/src/internal/updater.rs", "\t\t\tif *was_unspent && !api_outputs.contains_key(commit) {", "\t\t\tif *was_unspent || !api_outputs.contains_key(commit) {", "C18.R4")

# ---- from the sixth wave
m("C16-n", "C16", "libwallet/src/api_impl/owner.rs", "\tupdate_outputs(wallet_inst.clone(), keychain_mask, true, true)?;\n\tlet tip = {", "\tlet tip = {", "C16.R6")
m("C08-f", "C08", "libwallet/src/slate_versions/v4_bin.rs", "\t\t\twriter.write_u64(lock_hgt)?;", "\t\t\twriter.write_u64(lock_hgt as u32 as u64)?;", "C08.R8")
m("C02-k", "C02", "libwallet/src/internal/tx.rs", "\t\tif t.tx_type == TxLogEntryType::TxSent && !is_invoiced {", "\t\tif t.tx_type == TxLogEntryType::TxSent {", "C02.R7")

m("C13-f", "C13", "api/src/types.rs", "\t\tlet nonce: [u8; 12] = thread_rng().gen();", "\t\tlet nonce: [u8; 12] = [7u8; 12];", "C13.R2")

m("C12-i", "C12", "impls/src/lifecycle/seed.rs", "\t\tlet salt: [u8; 8] = thread_rng().gen();\n\t\tlet nonce: [u8; 12] = thread_rng().gen();", "\t\tlet salt: [u8; 8] = [1u8; 8];\n\t\tlet nonce: [u8; 12] = thread_rng().gen();", "C12.R3")
m("C12-j", "C12", "impls/src/lifecycle/seed.rs", "\t\tlet salt: [u8; 8] = thread_rng().gen();\n\t\tlet nonce: [u8; 12] = thread_rng().gen();", "\t\tlet salt: [u8; 8] = thread_rng().gen();\n\t\tlet nonce: [u8; 12] = [0u8; 12];", "C12.R3")

m("C03-f", "C03", "libwallet/src/types.rs", "\t\tself.status = OutputStatus::Locked;", "\t\tif let OutputStatus::Unspent = self.status {\n\t\t\tself.status = OutputStatus::Locked\n\t\t}", "C03.R7")

m("C19-g", "C19", "libwallet/src/internal/updater.rs", "\t\t\t\t\t\t\t\t|| tx_entry.tx_type == TxLogEntryType::TxSent\n\t\t\t\t\t\t\t\t|| tx_entry.tx_type == TxLogEntryType::TxReverted)", "\t\t\t\t\t\t\t\t|| tx_entry.tx_type == TxLogEntryType::TxSent)", "C19.R4")
m("C19-h", "C19", "libwallet/src/internal/updater.rs", "\t\t\t\tf_pk && f_tx_id && f_txs && f_outstanding", "\t\t\t\tf_pk && (f_tx_id || f_txs) && f_outstanding", "C19.R4")
m("C19-i", "C19", "libwallet/src/internal/updater.rs", "\t\t\t\t\tSome(t) => tx_entry.tx_slate_id == Some(t),\n\t\t\t\t\tNone => true,", "\t\t\t\t\tSome(t) => tx_entry.tx_slate_id == Some(t),\n\t\t\t\t\tNone => tx_entry.tx_slate_id.is_none(),", "C19.R4")

m("C09-f", "C09", "libwallet/src/slatepack/types.rs", "\t\twhile bytes_to_payload > 0 {\n\t\t\tlet _ = reader.read_u8()?;", "\t\twhile bytes_to_payload > 0 {\n\t\t\tlet _ = reader.read_u8();", "C09.R2")
m("C13-g", "C13", "api/src/owner_rpc.rs", "\t\tlet sec_key = SecretKey::new(&secp, &mut thread_rng());\n\n\t\tlet mut shared_pubkey = ecdh_pubkey.ecdh_pubkey;", "\t\tlet sec_key = SecretKey::from_slice(&secp, &[7u8; 32]).map_err(Error::Secp)?;\n\n\t\tlet mut shared_pubkey = ecdh_pubkey.ecdh_pubkey;", "C13.R4")

m("C01-h", "C01", "libwallet/src/internal/selection.rs", "\t\tlet remainder_change = change % num_change_outputs as u64;", "\t\tlet remainder_change = change % part_change;", "C01.R7")

m("C01-i", "C01", "libwallet/src/api_impl/foreign.rs", "\t\tlet parent_key_id = context.parent_key_id.clone();", "\t\tlet parent_key_id = w.parent_key_id();", "C01.R8")

m("C01-j", "C01", "libwallet/src/internal/tx.rs", "\t// with amount_includes_fee the recipient amount is the requested amount less the fee\n\tslate.amount = amount;\n", "\tlet _ = amount;\n", "C01.R9")

m("C04-r9a", "C04", "libwallet/src/api_impl/owner.rs", "\t\t\t\t\t&& o.tx_log_entry == Some(id)\n\t\t\t\t\t&& o.status == OutputStatus::Unconfirmed\n", "\t\t\t\t\t&& o.tx_log_entry == Some(id)\n\t\t\t\t\t&& o.status != OutputStatus::Spent\n", "C04.R")
m("C04-r9c", "C04", "libwallet/src/api_impl/owner.rs", "\t\t\tif change_pending {\n\t\t\t\tcontinue;\n\t\t\t}\n", "\t\t\tif change_pending || tx.ttl_cutoff_height.is_some() {\n\t\t\t\tcontinue;\n\t\t\t}\n", "C04.R9")
m("C11-r8", "C11", "libwallet/src/internal/tx.rs", "\t\t// the account the transaction was sent from, not whichever is active now\n\t\tlet parent_key_id = context.parent_key_id.clone();\n\t\tlet excess", "\t\tlet parent_key_id = wallet.parent_key_id();\n\t\tlet excess", "C11.R8")
m("C15-r6", "C15", "libwallet/src/internal/scan.rs", "\tlet max_child_index = *found_parents.get(&parent_key_id).unwrap();\n\tif output.n_child >= max_child_index {\n\t\tfound_parents.insert(parent_key_id, output.n_child);\n\t}\n", "\tfound_parents.insert(parent_key_id, output.n_child);\n", "C15.R6")
m("C15-r6b", "C15", "libwallet/src/internal/scan.rs", "\t\tif deffo.n_child > *max_child_index {\n\t\t\t*max_child_index = deffo.n_child;\n\t\t}\n", "\t\t*max_child_index = deffo.n_child;\n", "C15.R6")
m("C15-r7", "C15", "libwallet/src/internal/scan.rs", "\t\tlet max_child_index = found_parents.entry(deffo.key_id.parent_path()).or_insert(0);\n\t\tif deffo.n_child > *max_child_index {\n\t\t\t*max_child_index = deffo.n_child;\n\t\t}\n", "", "C15.R7")
m("C06-r7", "C06", "libwallet/src/api_impl/foreign.rs", "\t\ttx::update_stored_tx(&mut *w, keychain_mask, &context, &sl, false)?;\n\t\t{\n\t\t\tlet mut batch = w.batch(keychain_mask)?;\n\t\t\tbatch.delete_private_context(sl.id.as_bytes())?;\n\t\t\tbatch.commit()?;\n\t\t}\n", "\t\t{\n\t\t\tlet mut batch = w.batch(keychain_mask)?;\n\t\t\tbatch.delete_private_context(sl.id.as_bytes())?;\n\t\t\tbatch.commit()?;\n\t\t}\n\t\ttx::update_stored_tx(&mut *w, keychain_mask, &context, &sl, false)?;\n", "C06.R7")
m("C11-r7", "C11", "libwallet/src/internal/tx.rs", "\t\tif t.tx_type == TxLogEntryType::TxReceived && is_invoiced {\n", "\t\tif t.tx_type == TxLogEntryType::TxReceived || is_invoiced {\n", "C11.R7")

m("C15-n1", "C15", "impls/src/backends/lmdb.rs", "\t\tlet mut batch = self.batch(keychain_mask)?;\n\t\tbatch.save_child_index(parent_key_id, deriv_idx)?;", "\t\tlet active = self.parent_key_id.clone();\n\t\tlet mut batch = self.batch(keychain_mask)?;\n\t\tbatch.save_child_index(&active, deriv_idx)?;", "C15.R2")
m("C15-n2", "C15", "impls/src/backends/lmdb.rs", "\t\tlet mut return_path = parent_key_id.to_path();", "\t\tlet mut return_path = self.parent_key_id.to_path();", "C15.R2")
m("C15-n3", "C15", "impls/src/backends/lmdb.rs", "\t\tlet mut deriv_idx = {\n\t\t\tlet batch = self.db.batch()?;\n\t\t\tlet deriv_key = to_key(DERIV_PREFIX, &mut parent_key_id.to_bytes().to_vec());", "\t\tlet mut deriv_idx = {\n\t\t\tlet batch = self.db.batch()?;\n\t\t\tlet deriv_key = to_key(DERIV_PREFIX, &mut self.parent_key_id.to_bytes().to_vec());", "C15.R2")
m("C16-r7a", "C16", "libwallet/src/internal/selection.rs", "\t\t\tlet change_key = wallet.next_child(keychain_mask, parent_key_id)?;", "\t\t\tlet active = wallet.parent_key_id();\n\t\t\tlet change_key = wallet.next_child(keychain_mask, &active)?;", "C16.R7")
m("C16-r7b", "C16", "libwallet/src/internal/selection.rs", "\tlet key_id = keys::next_available_key(wallet, keychain_mask, &parent_key_id)?;", "\tlet active = wallet.parent_key_id();\n\tlet key_id = keys::next_available_key(wallet, keychain_mask, &active)?;", "C16.R7")

m("C03-r8", "C03", "libwallet/src/api_impl/owner.rs", "\tif context.late_lock_args.is_some() {\n\t\treturn Ok(());\n\t}\n", "\tif context.late_lock_args.is_some() {\n\t\tdebug!(\"late lock pending\");\n\t}\n", "C03.R8")
m("C03-r8b", "C03", "libwallet/src/api_impl/owner.rs", "\tif context.late_lock_args.is_some() {\n\t\treturn Ok(());\n\t}\n", "\tif context.late_lock_args.is_none() {\n\t\treturn Ok(());\n\t}\n", "C03.R8")

m("C06-r8", "C06", "libwallet/src/internal/scan.rs", "\tif delete_output {\n\t\tbatch.delete(&output.key_id, &output.mmr_index)?;\n\t} else {\n\t\tbatch.save(output.clone())?;\n\t}\n\tbatch.commit()?;\n\tOk(())\n}", "\tbatch.commit()?;\n\tdrop(batch);\n\tlet mut batch = w.batch(keychain_mask)?;\n\tif delete_output {\n\t\tbatch.delete(&output.key_id, &output.mmr_index)?;\n\t} else {\n\t\tbatch.save(output.clone())?;\n\t}\n\tbatch.commit()?;\n\tOk(())\n}", "C06.R8")
m("C03-r3acct", "C03", "libwallet/src/api_impl/foreign.rs", "\tlet tx = updater::retrieve_txs(&mut *w, None, Some(ret_slate.id), None, None, use_test_rng)?;", "\tlet tx = updater::retrieve_txs(\n\t\t&mut *w,\n\t\tNone,\n\t\tSome(ret_slate.id),\n\t\tNone,\n\t\tSome(&parent_key_id),\n\t\tuse_test_rng,\n\t)?;", "C03.R3")
m("C16-r3h", "C16", "libwallet/src/internal/scan.rs", "\t\t\to.status = OutputStatus::Unspent;\n\t\t\tcancel_tx_log_entry(wallet_inst.clone(), keychain_mask, &o, false)?;", "\t\t\to.status = OutputStatus::Unspent;\n\t\t\tcancel_tx_log_entry(wallet_inst.clone(), keychain_mask, &o, true)?;", "C16.R3")

m("C18-r6", "C18", "libwallet/src/internal/selection.rs", "\t\t\t\t|| coin.status == OutputStatus::Reverted\n", "", "C18.R6")
m("C17-r4a", "C17", "libwallet/src/api_impl/owner.rs", "\t\tif tx.confirmed || tx.tx_type == TxLogEntryType::TxReverted {\n\t\t\tcontinue;\n\t\t}\n", "\t\tif tx.tx_type == TxLogEntryType::TxReverted {\n\t\t\tcontinue;\n\t\t}\n", "C17.R4")
m("C18-r7", "C18", "libwallet/src/api_impl/owner.rs", "\t\tif tx.confirmed || tx.tx_type == TxLogEntryType::TxReverted {\n\t\t\tcontinue;\n\t\t}\n", "\t\tif tx.confirmed {\n\t\t\tcontinue;\n\t\t}\n", "C18.R7")
m("C05-r1id", "C05", "libwallet/src/internal/tx.rs", "\t} else {\n\t\t// nothing names the transaction to cancel\n\t\treturn Err(Error::TransactionDoesntExist(tx_id_string));\n\t}\n", "\t}\n", "C05.R1")
m("C03-r3c", "C03", "libwallet/src/api_impl/owner.rs", "\t\tif t.tx_type == TxLogEntryType::TxSentCancelled {\n\t\t\treturn Err(Error::TransactionWasCancelled(slate.id.to_string()));\n\t\t}\n", "", "C03.R3")
m("C16-r9", "C16", "libwallet/src/internal/scan.rs", "\t\t\t\to.output.status == OutputStatus::Unconfirmed && !chain_commits.contains(&o.commit)\n", "\t\t\t\to.output.status == OutputStatus::Unconfirmed || chain_commits.is_empty()\n", "C16.R9")
m("C16-r5l", "C16", "libwallet/src/internal/scan.rs", "\t\t\twhile labels.contains(&label) {", "\t\t\twhile labels.is_empty() {", "C16.R5")
m("C14-r7", "C14", "api/src/owner.rs", "\t\t// Test keychain mask, to keep API consistent\n\t\tlet _ = w.keychain(keychain_mask)?;\n\t\towner::set_active_account(&mut **w, label)\n", "\t\towner::set_active_account(&mut **w, label)?;\n\t\tlet _ = w.keychain(keychain_mask)?;\n\t\tOk(())\n", "C14.R7")
m("C13-r1b", "C13", "controller/src/controller.rs", "\t\tmatches!(val[\"method\"].as_str(), Some(\"init_secure_api\"))", "\t\tmatches!(val.get(0).unwrap_or(val)[\"method\"].as_str(), Some(\"init_secure_api\"))", "C13.R1")

m("C13-r6a", "C13", "api/src/types.rs", "\t\tif nonce.len() != 12 {", "\t\tif nonce.len() < 12 {", "C13.R6")
m("C13-r6b", "C13", "controller/src/controller.rs", "\t\tif !req.is_object() || req[\"method\"].as_str() != Some(\"encrypted_request_v3\") {", "\t\tif req[\"method\"].as_str() != Some(\"encrypted_request_v3\") {", "C13.R6")
m("C13-r6c", "C13", "controller/src/controller.rs", "\t\tif !req.is_object() || req[\"method\"].as_str() != Some(\"encrypted_request_v3\") {", "\t\tif !req.is_object() {", "C13.R6")
m("C17-r2w", "C17", "libwallet/src/api_impl/owner.rs", "\t\tstd::cmp::max(w.last_confirmed_height()?, w.last_scanned_block()?.height);", "\t\tw.last_confirmed_height()?;", "C17.R2")

m("C14-r8", "C14", "api/src/owner.rs", "\t\t\tlet _ = w.keychain(keychain_mask)?;\n\t\t}\n\t\tlet updater_inner = self.updater.clone();", "\t\t\tlet _ = w.keychain(keychain_mask);\n\t\t}\n\t\tlet updater_inner = self.updater.clone();", "C14.R8")

m("C19-r5", "C19", "libwallet/src/internal/updater.rs", "\t\t\t\t\t\tt >= v\n\t\t\t\t\t} else {\n\t\t\t\t\t\tfalse\n", "\t\t\t\t\t\tt >= v\n\t\t\t\t\t} else {\n\t\t\t\t\t\ttrue\n", "C19.R5")
m("C19-r3w", "C19", "libwallet/src/api_impl/owner.rs", "\t\tquery_args,\n\t\tSome(&parent_key_id),\n\t\tfalse,\n\t)?;\n\n\tOk((validated, txs))", "\t\tquery_args,\n\t\tif tx_slate_id.is_some() { None } else { Some(&parent_key_id) },\n\t\tfalse,\n\t)?;\n\n\tOk((validated, txs))", "C19.R3")

m("C12-r10", "C12", "libwallet/src/api_impl/owner.rs", "\t\tif !c.input_ids.is_empty() {\n\t\t\treturn Err(Error::TransactionAlreadyReceived(ret_slate.id.to_string()));\n\t\t}\n", "\t\tif !c.input_ids.is_empty() {\n\t\t\tdebug!(\"context already stored\");\n\t\t}\n", "C12.R10")
m("C07-r5", "C07", "libwallet/src/internal/selection.rs", "\tlet log_id = batch.next_tx_log_id(&parent_key_id)?;\n\tlet mut t = TxLogEntry::new(parent_key_id.clone(), TxLogEntryType::TxReceived, log_id);", "\tlet log_id = batch.next_tx_log_id(&context.parent_key_id.clone())?;\n\tlet mut t = TxLogEntry::new(parent_key_id.clone(), TxLogEntryType::TxReceived, log_id);", "C07.R5")
m("C12-r5n", "C12", "impls/src/lifecycle/seed.rs", "\t\twhile Path::new(&backup_seed_file_name).exists() {", "\t\tif Path::new(&backup_seed_file_name).exists() {", "C12.R5")

m("C09-r4", "C09", "libwallet/src/slate_versions/ser.rs", "\t\t\t\t\tif val.len() > MAX_PROOF_SIZE {", "\t\t\t\t\tif val.len() > MAX_PROOF_SIZE * 2 {", "C09.R4")
m("C04-r7lb", "C04", "libwallet/src/api_impl/owner.rs", "\tlet start_index = last_scanned_block.height.saturating_sub(100);", "\tlet start_index = last_scanned_block.height.saturating_sub(10);", "C04.R7")
m("C10-r5", "C10", "libwallet/src/slatepack/packer.rs", "\t\tslatepack.try_encrypt_payload(self.0.recipients.clone())?;", "\t\tif slatepack.sender.is_some() {\n\t\t\tslatepack.try_encrypt_payload(self.0.recipients.clone())?;\n\t\t}", "C10.R5")

m("C11-r10", "C11", "libwallet/src/internal/tx.rs", "\t\t.find(|t| t.tx_type == TxLogEntryType::TxSent)\n\t\t.and_then(|t| t.payment_proof.clone());", "\t\t.next()\n\t\t.and_then(|t| t.payment_proof.clone());", "C11.R10")
m("C06-r8rel", "C06", "libwallet/src/internal/scan.rs", "\tfor mut o in released {\n\t\to.status = OutputStatus::Unspent;\n\t\tbatch.save(o)?;\n\t}\n", "\tdrop(released);\n", "C06.R8")
m("C06-r9", "C06", "libwallet/src/internal/scan.rs", "\t// restore labels, account paths and child derivation indices\n", "\t// restore labels, account paths and child derivation indices\n\tif delete_unconfirmed {\n\t\tfound_parents.clear();\n\t}\n", "C06.R9")

m("C19-r3g", "C19", "libwallet/src/api_impl/owner.rs", "\t\t\t.find(|t| t.id == i && t.parent_key_id == parent_key_id);", "\t\t\t.find(|t| t.id == i);", "C19.R3")
m("C03-r3rx", "C03", "libwallet/src/api_impl/foreign.rs", "\t\tif t.tx_type == TxLogEntryType::TxReceivedCancelled {\n\t\t\treturn Err(Error::TransactionWasCancelled(ret_slate.id.to_string()));\n\t\t}\n", "", "C03.R3")
m("C18-r9", "C18", "libwallet/src/api_impl/owner.rs", "\tupdate_outputs(wallet_inst.clone(), keychain_mask, true, true)?;\n\tlet tip = {", "\tupdate_outputs(\n\t\twallet_inst.clone(),\n\t\tkeychain_mask,\n\t\tstart_height.map_or(true, |h| h <= 1),\n\t\ttrue,\n\t)?;\n\tlet tip = {", "C18.R9")

m("C03-r3rev", "C03", "libwallet/src/api_impl/foreign.rs", "\t\tif t.tx_type == TxLogEntryType::TxReceived || t.tx_type == TxLogEntryType::TxReverted {", "\t\tif t.tx_type == TxLogEntryType::TxReceived {", "C03.R3")
m("C03-r3inv", "C03", "libwallet/src/api_impl/owner.rs", "\t// Don't do this multiple times, from whichever account\n\tlet tx = updater::retrieve_txs(&mut *w, None, Some(ret_slate.id), None, None, use_test_rng)?;", "\t// Don't do this multiple times\n\tlet tx = updater::retrieve_txs(\n\t\t&mut *w,\n\t\tNone,\n\t\tSome(ret_slate.id),\n\t\tNone,\n\t\tSome(&parent_key_id),\n\t\tuse_test_rng,\n\t)?;", "C03.R3")
m("C14-r9", "C14", "libwallet/src/api_impl/owner_updater.rs", "\t\tself.is_running.store(false, Ordering::Relaxed);\n\t\tres\n", "\t\tres\n", "C14.R9")
m("C03-r3ctx", "C03", "libwallet/src/api_impl/owner.rs", "\t// Don't do this multiple times\n\tlet tx = updater::retrieve_txs(\n\t\t&mut *w,\n\t\tNone,\n\t\tSome(slate.id),\n\t\tNone,\n\t\tSome(&context.parent_key_id),", "\t// Don't do this multiple times\n\tlet active_account = w.parent_key_id();\n\tlet tx = updater::retrieve_txs(\n\t\t&mut *w,\n\t\tNone,\n\t\tSome(slate.id),\n\t\tNone,\n\t\tSome(&active_account),", "C03.R3")
m("C06-r8mu", "C06", "libwallet/src/internal/scan.rs", "\tfor mut o in released {\n\t\to.status = OutputStatus::Unspent;", "\tfor mut o in released {\n\t\to.mark_unspent();", "C06.R8")

m("C16-r11a", "C16", "libwallet/src/api_impl/owner.rs", "\tupdate_outputs(wallet_inst.clone(), keychain_mask, true, true)?;\n\tlet tip = {", "\tupdate_outputs(wallet_inst.clone(), keychain_mask, true, false)?;\n\tlet tip = {", "C16.R11")
m("C16-r11b", "C16", "libwallet/src/api_impl/owner.rs", "\t\ttrue => w.acct_path_iter().map(|m| m.path).collect(),", "\t\ttrue => w.acct_path_iter().map(|m| m.path).take(1).collect(),", "C16.R11")
m("C06-r5sum", "C06", "libwallet/src/internal/updater.rs", "\t\t\t\t\t\tawaiting_finalization_total =\n\t\t\t\t\t\t\tawaiting_finalization_total.saturating_add(out.value);", "\t\t\t\t\t\tawaiting_finalization_total += out.value;", "C06.R5")

m("C13-r7", "C13", "controller/src/controller.rs", "\t\t\t\t\tlet res = OwnerV3Helpers::encrypt_response(\n\t\t\t\t\t\treq_key.clone(),", "\t\t\t\t\tlet res = OwnerV3Helpers::encrypt_response(\n\t\t\t\t\t\tkey.clone(),", "C13.R7")

m("C17-r7", "C17", "libwallet/src/api_impl/owner.rs", "\t\t\t\ttx::cancel_tx(\n\t\t\t\t\t&mut **w,\n\t\t\t\t\tkeychain_mask,\n\t\t\t\t\t&tx.parent_key_id,", "\t\t\t\tlet active = w.parent_key_id();\n\t\t\t\ttx::cancel_tx(\n\t\t\t\t\t&mut **w,\n\t\t\t\t\tkeychain_mask,\n\t\t\t\t\t&active,", "C17.R7")
m("C17-r6", "C17", "libwallet/src/internal/tx.rs", "\t\tSome(tx.id),\n\t\tSome(&parent_key_id),\n\t)?;\n\tlet outputs = res.iter()", "\t\tSome(tx.id),\n\t\tNone,\n\t)?;\n\tlet outputs = res.iter()", "C17.R6")
m("C10-h", "C10", "libwallet/src/slatepack/types.rs", "\t\tself.sender = meta.sender;\n\t\tself.encrypted_meta.recipients", "\t\tif self.sender.is_none() {\n\t\t\tself.sender = meta.sender;\n\t\t}\n\t\tself.encrypted_meta.recipients", "C10.R3")
m("C18-n1", "C18", "libwallet/src/internal/updater.rs", "\t\t\t\t\t\t\t&& (output.status == OutputStatus::Unconfirmed\n\t\t\t\t\t\t\t\t|| output.status == OutputStatus::Reverted)\n", "\t\t\t\t\t\t\t&& output.status == OutputStatus::Unconfirmed\n", "C18.R4")
m("C18-n2", "C18", "libwallet/src/api_impl/owner.rs", "\tupdate_outputs(wallet_inst.clone(), keychain_mask, true, true)?;\n\tlet tip = {", "\tupdate_outputs(wallet_inst.clone(), keychain_mask, true, false)?;\n\tlet tip = {", "C18.R9")
m("C18-n3", "C18", "libwallet/src/api_impl/owner.rs", "\t\ttrue => w.acct_path_iter().map(|m| m.path).collect(),\n\t\tfalse => vec![w.parent_key_id()],", "\t\tfalse => w.acct_path_iter().map(|m| m.path).collect(),\n\t\ttrue => vec![w.parent_key_id()],", "C18.R9")
m("C10-i", "C10", "libwallet/src/slatepack/armor.rs", "\tif error_code.iter().eq(new_check.iter()) {", "\tlet diff = error_code.iter().zip(new_check.iter()).fold(0u8, |acc, (a, b)| acc ^ (a ^ b));\n\tif error_code.len() == new_check.len() && diff == 0 {", "C10.R4")
m("C07-n1", "C07", "libwallet/src/api_impl/foreign.rs", "\t\tif t.tx_type == TxLogEntryType::TxReceived || t.tx_type == TxLogEntryType::TxReverted {", "\t\tif t.tx_type == TxLogEntryType::TxReceived {", "C07.R3")
m("C12-n1", "C12", "impls/src/lifecycle/seed.rs", "\t\tlet nonce: [u8; 12] = thread_rng().gen();\n\t\tlet password = password.as_bytes();", "\t\tlet nonce: [u8; 12] = thread_rng().gen();\n\t\tlet password = &password.as_bytes()[..password.len().min(64)];", "C12.R4")
m("C10-r6", "C10", "libwallet/src/address.rs", "key_path.path[key_path.depth as usize - 1] = ChildNumber::from(index);", "key_path.path[key_path.depth as usize] = ChildNumber::from(index);", "C10.R6")
m("C19-r6", "C19", "libwallet/src/types.rs", "\t#[serde(with = \"option_duration_as_secs\", default)]\n\tpub reverted_after: Option<Duration>,\n}\n\nimpl ser::Writeable for TxLogEntry", "\t#[serde(with = \"option_duration_as_secs\")]\n\tpub reverted_after: Option<Duration>,\n}\n\nimpl ser::Writeable for TxLogEntry", "C19.R6")

m("C04-r11", "C04", "libwallet/src/internal/selection.rs", "\t\t\tif batch.get(id, mmr_index).is_ok() {\n\t\t\t\tcontinue;\n\t\t\t}\n", "\t\t\tlet _ = mmr_index;\n", "C04.R11")

m("C12-r11a", "C12", "libwallet/src/api_impl/owner.rs", "\t\tif !own_invoice {\n\t\t\tlet mut batch = w.batch(keychain_mask)?;\n\t\t\tbatch.delete_private_context(slate.id.as_bytes())?;\n\t\t\tbatch.commit()?;\n\t\t}\n", "\t\tlet _ = own_invoice;\n", "C12.R11")
m("C12-r11b", "C12", "libwallet/src/api_impl/owner.rs", "\tif slate.state == SlateState::Invoice2 {\n\t\tlet own_invoice", "\tif slate.state == SlateState::Invoice3 {\n\t\tlet own_invoice", "C12.R11")

m("C12-r10ll", "C12", "libwallet/src/api_impl/owner.rs", "\t\tif c.late_lock_args.is_some() {\n\t\t\treturn Err(Error::GenericError(format!(\n\t\t\t\t\"A pending transaction with id {} already exists\",", "\t\tif c.late_lock_args.is_some() && c.amount == 0 {\n\t\t\treturn Err(Error::GenericError(format!(\n\t\t\t\t\"A pending transaction with id {} already exists\",", "C12.R10")

m("C01-r10", "C01", "libwallet/src/internal/selection.rs", "\t\t\tif coin.status == OutputStatus::Locked\n\t\t\t\t|| coin.status == OutputStatus::Spent\n\t\t\t\t|| coin.status == OutputStatus::Reverted\n\t\t\t{", "\t\t\tif coin.status == OutputStatus::Locked || coin.status == OutputStatus::Reverted {", "C01.R10")

m("C20-r5", "C20", "libwallet/src/internal/updater.rs", "\t\tif client.get_kernel(&excess, min_height, None)?.is_none() {\n\t\t\treverted.insert(id);\n\t\t}", "\t\tmatch client.get_kernel(&excess, min_height, None) {\n\t\t\tOk(Some(_)) => {}\n\t\t\t_ => {\n\t\t\t\treverted.insert(id);\n\t\t\t}\n\t\t}", "C20.R5")
m("C09-r5", "C09", "libwallet/src/slate.rs", "\t\tif pub_nonces.len() == 0 {\n\t\t\treturn Err(Error::Commit(format!(\"Participant nonces cannot be empty\")));\n\t\t}\n", "", "C09.R5")
m("C15-r1bo", "C15", "libwallet/src/api_impl/owner.rs", "\tlet key_id = keys::next_available_key(&mut *w, keychain_mask, &parent_key_id)?;\n\n\tlet blind = k.derive_key(amount, &key_id, SwitchCommitmentType::Regular)?;", "\tlet mut path = parent_key_id.to_path();\n\tpath.depth += 1;\n\tpath.path[path.depth as usize - 1] = w.current_child_index(&parent_key_id)?.into();\n\tlet key_id = Identifier::from_path(&path);\n\n\tlet blind = k.derive_key(amount, &key_id, SwitchCommitmentType::Regular)?;", "C15.R1")
m("C08-r2p", "C08", "libwallet/src/slate_versions/v4_bin.rs", "\t\tif self.coms.is_some() {\n\t\t\tstatus |= 0x01\n\t\t};", "\t\tif self.coms.as_ref().filter(|c| !c.is_empty()).is_some() {\n\t\t\tstatus |= 0x01\n\t\t};", "C08.R2")

m("C05-r8", "C05", "libwallet/src/api_impl/owner.rs", "\t\t\t\t\t&& o.tx_log_entry == Some(id)\n\t\t\t\t\t&& o.status == OutputStatus::Unconfirmed\n", "\t\t\t\t\t&& o.tx_log_entry == Some(id)\n\t\t\t\t\t&& o.status != OutputStatus::Spent\n", "C05.R8")
m("C06-r10", "C06", "libwallet/src/internal/tx.rs", "\twallet.store_tx(&format!(\"{}\", tx.tx_slate_id.unwrap()), slate.tx_or_err()?)?;\n", "\tif let Err(e) = wallet.store_tx(&format!(\"{}\", tx.tx_slate_id.unwrap()), slate.tx_or_err()?) {\n\t\twarn!(\"Unable to store finalized transaction {}: {}\", slate.id, e);\n\t}\n", "C06.R10")

m("C02-r8", "C02", "libwallet/src/internal/selection.rs", "\t\t\tif coin.status == OutputStatus::Locked\n\t\t\t\t|| coin.status == OutputStatus::Spent\n\t\t\t\t|| coin.status == OutputStatus::Reverted\n\t\t\t{", "\t\t\tif coin.status == OutputStatus::Spent || coin.status == OutputStatus::Reverted {", "C02.R8")

m("C07-r6", "C07", "impls/src/backends/lmdb.rs", "\t\tlet mut deriv_idx = {\n\t\t\tlet batch = self.db.batch()?;\n\t\t\tlet deriv_key = to_key(DERIV_PREFIX, &mut parent_key_id.to_bytes().to_vec());", "\t\tlet mut deriv_idx = {\n\t\t\tlet batch = self.db.batch()?;\n\t\t\tlet deriv_key = to_key(DERIV_PREFIX, &mut self.parent_key_id.to_bytes().to_vec());", "C07.R6")
m("C03-r9", "C03", "libwallet/src/internal/tx.rs", "\t\tif t.tx_type == TxLogEntryType::TxSent && !is_invoiced {\n\t\t\ttx = Some(t);\n\t\t\tbreak;\n\t\t}\n\t\tif t.tx_type == TxLogEntryType::TxReceived && is_invoiced {", "\t\tif (t.tx_type == TxLogEntryType::TxReceived) == is_invoiced {", "C03.R9")

m("C05-r9", "C05", "src/cmd/wallet_args.rs", "pub fn parse_cancel_args(args: &ArgMatches) -> Result<command::CancelArgs, ParseError> {\n\tlet mut tx_id_string = \"\";\n\tlet tx_id = match args.value_of(\"id\") {\n\t\tNone => None,\n\t\tSome(tx) => Some(parse_u32(tx, \"id\")?),", "pub fn parse_cancel_args(args: &ArgMatches) -> Result<command::CancelArgs, ParseError> {\n\tlet mut tx_id_string = \"\";\n\tlet tx_id = match args.value_of(\"id\") {\n\t\tNone => None,\n\t\tSome(tx) => Some(parse_u64(tx, \"id\")? as u32),", "C05.R9")
m("C19-r7", "C19", "src/cmd/wallet_args.rs", "pub fn parse_txs_args(args: &ArgMatches) -> Result<command::TxsArgs, ParseError> {\n\tlet tx_id = match args.value_of(\"id\") {\n\t\tNone => None,\n\t\tSome(tx) => Some(parse_u32(tx, \"id\")?),", "pub fn parse_txs_args(args: &ArgMatches) -> Result<command::TxsArgs, ParseError> {\n\tlet tx_id = match args.value_of(\"id\") {\n\t\tNone => None,\n\t\tSome(tx) => Some(parse_u64(tx, \"id\")? as u32),", "C19.R7")

m("C09-r6a", "C09", "libwallet/src/slate_versions/ser.rs", "\t\tif !is_hex(&string) {\n\t\t\treturn Err(Error::custom(\"invalid hex in blinding factor\"));\n\t\t}\n", "", "C09.R6")
m("C09-r6b", "C09", "api/src/types.rs", "\t\tif !self.nonce.is_ascii() {\n\t\t\treturn Err(Error::APIEncryption(\n\t\t\t\t\"EncryptedBody Dec: Invalid Nonce\".to_string(),\n\t\t\t));\n\t\t}\n", "", "C09.R6")
m("C09-r6c", "C09", "libwallet/src/slate_versions/v4.rs", "\t\tdeserialize_with = \"ser::blind_from_hex\"", "\t\tdeserialize_with = \"secp_ser::blind_from_hex\"", "C09.R6")

m("C14-r10", "C14", "api/src/owner.rs", "\t\tlc.open_wallet(name, password, use_mask, self.doctest_mode)", "\t\tlc.open_wallet(name, password, use_mask, use_mask)", "C14.R10")


def for_property(prop):
    return [x for x in M if x["property"] == prop]


def run_battery(prop, seed=0, verbose=True):
    """Apply each mutant of `prop` to a scratch copy of /repo and run the property's quick
    check against it. Returns list of result dicts."""
    muts = for_property(prop)
    if seed:
        import random

        random.Random(seed).shuffle(muts)
    results = []
    base = tempfile.mkdtemp(prefix="gwmut-%s-" % prop, dir="/tmp")
    repo_copy = os.path.join(base, "repo")
    try:
        for mu in muts:
            t0 = time.time()
            rc = subprocess.run(["rsync", "-a", "--delete", "--exclude", "target", "--exclude", ".git", "--exclude", "test_output", facts.REPO + "/", repo_copy + "/"]).returncode
            if rc not in (0, 24):  # 24 = source files vanished during the copy (harmless)
                raise RuntimeError("rsync failed: %d" % rc)
            p = os.path.join(repo_copy, mu["file"])
            try:
                src = open(p).read()
            except OSError:
                results.append(dict(mu, status="not-applicable", why="file missing"))
                continue
            if src.count(mu["old"]) != 1:
                results.append(dict(mu, status="not-applicable", why="anchor text occurs %d times" % src.count(mu["old"])))
                continue
            open(p, "w").write(src.replace(mu["old"], mu["new"]))
            env = dict(os.environ, GW_REPO=repo_copy, GW_MUTANT_RUN="1")
            r = subprocess.run([sys.executable, os.path.join(facts.VERIF, "bin", "check"), prop, "--tier", "quick"], env=env, capture_output=True, text=True)
            found = [l.split(" ", 1)[1] for l in r.stdout.splitlines() if l.startswith("MUTANT-FINDING ")]
            errs = [l.split(" ", 1)[1] for l in r.stdout.splitlines() if l.startswith("MUTANT-ERROR ")]
            compile_fail = any("facts extraction failed" in e for e in errs)
            if compile_fail:
                status = "does-not-compile"
            elif any(f.startswith(mu["expect"]) for f in found) or (errs and not found and any(mu["expect"].split(".")[0] in e for e in errs)):
                status = "killed"
            elif found or errs:
                status = "killed-by-other-rule"
            else:
                status = "SURVIVED"
            results.append(dict(mu, status=status, findings=found[:4], errors=errs[:2], wall_s=round(time.time() - t0, 1)))
            if verbose:
                print("mutant %-7s %-22s expect %-8s -> %s" % (mu["id"], mu["file"].split("/")[-1], mu["expect"], status))
    finally:
        shutil.rmtree(base, ignore_errors=True)
    for r in results:
        r.pop("old", None)
        r.pop("new", None)
    return results
