"""A1 - resolved call graph, A3 - effect summaries."""
from collections import deque

from . import cfg

NON_PRODUCTION = (
    "grin_wallet_impls::test_framework",
    "grin_wallet_api::owner_rpc::run_doctest_owner",
    "grin_wallet_api::foreign_rpc::run_doctest_foreign",
)


def non_production(fid):
    if any(fid.startswith(p) for p in NON_PRODUCTION):
        return True
    if "doctest_helper" in fid or "::run_doctest" in fid:
        return True
    if "::tests::" in fid or "::test::" in fid:
        return True
    # trait impls of test-framework types: `<impls::test_framework::X as Trait>::method`
    if fid.startswith("<"):
        head = fid[1:].split(" as ", 1)[0]
        if any(head.startswith(p) for p in NON_PRODUCTION):
            return True
    return False


DECODE_TRAITS = (
    "serde::de::Deserialize",
    "serde::Deserialize",
    "serde::de::Visitor",
    "serde::de::DeserializeSeed",
    "grin_core::ser::Readable",
    "core::str::traits::FromStr",
    "core::convert::TryFrom",
    "core::convert::From",
    "core::default::Default",
)
ENCODE_TRAITS = (
    "serde::ser::Serialize",
    "serde::Serialize",
    "grin_core::ser::Writeable",
    "core::fmt::Display",
)


def _dyn_norm(ty):
    ty = ty.lstrip("&").strip()
    if ty.startswith("(") and ty.endswith(")"):
        ty = ty[1:-1]
    return ty.replace(" + 'static", "").strip()


def _is_type_param(ty):
    ty = ty.lstrip("&").replace("mut ", "").strip()
    return bool(ty) and "::" not in ty and "<" not in ty and ty[0].isupper() and ty not in ("Self",) and len(ty) <= 12 and not ty.startswith("dyn")


class CallGraph:
    def __init__(self, db, callback_traits=DECODE_TRAITS + ENCODE_TRAITS):
        self.db = db
        self.edges = {}  # fid -> {callee fid: (bb, kind)}
        self.ext = {}  # fid -> set of external callee names
        self.indirect = {}  # fid -> list of (bb, sp)
        self.callback_traits = callback_traits
        # adt -> [(trait, [method ids])]
        self.adt_impls = {}
        for im in db.impls:
            a = im.get("self_adt")
            tr = im.get("trait")
            if a and tr and a in db.adts:
                self.adt_impls.setdefault(a, []).append((tr, [m["id"] for m in im["methods"]]))
        for fid, fn in db.fns.items():
            self._scan(fid, fn)
        self.rev = {}
        for a, es in self.edges.items():
            for b in es:
                self.rev.setdefault(b, set()).add(a)

    # ------------------------------------------------------------------
    def targets_of_call(self, t):
        """Workspace functions a call terminator may invoke: list of (fid, kind)."""
        db = self.db
        out = []
        f = t.get("f")
        if not f:
            return out
        r = t.get("r")
        if r and r in db.fns and not t.get("virt"):
            out.append((r, "resolved"))
            return out
        if t.get("tr"):
            # trait method call
            ims = db.impl_methods.get(f, [])
            if r and not t.get("virt") and r not in db.fns:
                # resolved to an external impl: nothing in workspace (callbacks below)
                pass
            elif t["tr"] not in db.traits and _is_type_param(t.get("trself", "")):
                # external trait method on a bare type parameter inside a generic body:
                # the instantiating call sites carry the callback edges instead
                pass
            else:
                for mid, _im in ims:
                    if mid in db.fns:
                        out.append((mid, "cha"))
                if f in db.fns:
                    out.append((f, "default"))
            # provided method of an external trait called on a workspace dyn/generic
            # receiver: edges to all methods of workspace impls of that trait for it
            if t["tr"] not in db.traits:
                adt = t.get("trself_adt")
                tys = t.get("trself", "")
                for im in db.impls:
                    if im.get("trait") == t["tr"] and (
                        (adt and im.get("self_adt") == adt) or (_dyn_norm(tys).startswith("dyn ") and _dyn_norm(im["self_ty"]) == _dyn_norm(tys))
                    ):
                        for m in im["methods"]:
                            if m["id"] in db.fns and (m["id"], "cha") not in out:
                                out.append((m["id"], "ext-trait-impl"))
        elif f in db.fns:
            out.append((f, "direct"))
        return out

    def callback_targets(self, t):
        """Callback edges for external generic callees mentioning workspace ADTs."""
        out = []
        f = t.get("f")
        if not f:
            return out
        last = f.split("::")[-1]
        enc_only = last.startswith(("try_serialize", "serialize", "to_value", "to_string", "to_vec", "to_writer", "ser_vec", "to_bytes", "write_", "put_ser")) or last in ("to_string_pretty", "format")
        dec_only = last.startswith(("deserialize", "from_value", "from_str", "from_slice", "from_reader", "from_bytes", "next_element", "next_value", "next_key", "parse", "get_ser", "read_"))
        std_callee = f.startswith(("core::", "alloc::", "std::"))
        STD_OK = ("core::str::traits::FromStr", "core::convert::TryFrom", "core::convert::From", "core::default::Default", "core::fmt::Display")
        for adt in t.get("gadts", []):
            for tr, mids in self.adt_impls.get(adt, []):
                if std_callee and tr not in STD_OK:
                    continue
                if enc_only and tr in DECODE_TRAITS and tr not in ENCODE_TRAITS:
                    continue
                if dec_only and tr in ENCODE_TRAITS and tr not in DECODE_TRAITS:
                    continue
                if tr in self.callback_traits:
                    for m in mids:
                        if m in self.db.fns:
                            out.append((m, "callback:" + tr.split("::")[-1]))
        return out

    def _add(self, fid, callee, b, kind):
        self.edges.setdefault(fid, {}).setdefault(callee, (b, kind))

    def _scan_operand(self, fid, b, o):
        k = o.get("k")
        if k and "fn" in k:
            tgt = k.get("fnr") or k["fn"]
            if tgt in self.db.fns:
                self._add(fid, tgt, b, "reify")
            elif k.get("fnr") and k["fnr"] != k["fn"]:
                pass  # resolved to an implementation outside the workspace
            else:
                for mid, _ in self.db.impl_methods.get(k["fn"], []):
                    if mid in self.db.fns:
                        self._add(fid, mid, b, "reify-cha")

    def _scan(self, fid, fn):
        self.edges.setdefault(fid, {})
        for b, bb in enumerate(fn.bbs):
            for s in bb["s"]:
                if s["k"] != "a":
                    continue
                r = s["r"]
                k = r["k"]
                if k == "agg":
                    if r["ak"] in ("closure", "coroutine", "coroutine_closure") and r["adt"] in self.db.fns:
                        self._add(fid, r["adt"], b, "closure")
                    for _n, o in r["f"]:
                        self._scan_operand(fid, b, o)
                elif k in ("use", "cast", "repeat", "un"):
                    self._scan_operand(fid, b, r["o"])
            t = bb["t"]
            if t["k"] != "call":
                continue
            for a in t["a"]:
                self._scan_operand(fid, b, a)
            if not t.get("f"):
                self.indirect.setdefault(fid, []).append((b, t["sp"]))
                continue
            tg = self.targets_of_call(t)
            for callee, kind in tg:
                self._add(fid, callee, b, kind)
            for callee, kind in self.callback_targets(t):
                self._add(fid, callee, b, kind)
            if not tg:
                self.ext.setdefault(fid, set()).add(t.get("r") or t["f"])

    # ------------------------------------------------------------------
    def reachable(self, entries, stop=None, production_only=True, edge_filter=None):
        """BFS; returns {fid: parent fid or None}."""
        par = {}
        dq = deque()
        for e in entries:
            if e in self.db.fns and e not in par:
                par[e] = None
                dq.append(e)
        while dq:
            f = dq.popleft()
            if stop and stop(f) and par[f] is not None:
                continue
            for c, (b, kind) in self.edges.get(f, {}).items():
                if c in par:
                    continue
                if production_only and non_production(c):
                    continue
                if edge_filter and not edge_filter(f, c, b, kind):
                    continue
                par[c] = f
                dq.append(c)
        return par

    def path(self, par, f):
        p = []
        while f is not None:
            p.append(f)
            f = par[f]
        return list(reversed(p))

    def callers(self, fid):
        return sorted(self.rev.get(fid, ()))


# ---------------------------------------------------------------------------
# A3 effects

WOB = "grin_wallet_libwallet::types::WalletOutputBatch::"
WB = "grin_wallet_libwallet::types::WalletBackend::"
NC = "grin_wallet_libwallet::types::NodeClient::"

EFFECTS = {
    WOB + "save": "save_output",
    WOB + "delete": "delete_output",
    WOB + "lock_output": "lock_output",
    WOB + "save_tx_log_entry": "save_tx_log_entry",
    WOB + "next_tx_log_id": "next_tx_log_id",
    WOB + "save_private_context": "save_private_context",
    WOB + "delete_private_context": "delete_private_context",
    WOB + "save_child_index": "save_child_index",
    WOB + "save_last_confirmed_height": "save_last_confirmed_height",
    WOB + "save_last_scanned_block": "save_last_scanned_block",
    WOB + "save_init_status": "save_init_status",
    WOB + "save_acct_path": "save_acct_path",
    WOB + "commit": "commit",
    WB + "store_tx": "store_tx",
    WB + "next_child": "next_child",
    WB + "set_parent_key_id": "set_parent_key_id",
    WB + "set_parent_key_id_by_name": "set_parent_key_id",
    WB + "close": "close",
    WB + "set_keychain": "set_keychain",
    NC + "post_tx": "post_tx",
}

# effects that change persistent wallet state (commit alone changes nothing)
STATE_EFFECTS = set(EFFECTS.values()) - {"commit"}


def direct_effects(fn, table=EFFECTS):
    out = []
    for b, t in fn.calls():
        f = t.get("f")
        if f in table:
            out.append((b, table[f]))
    return out


class Effects:
    def __init__(self, db, cg, table=EFFECTS, skip_impl_prefix=("grin_wallet_impls::backends::lmdb",)):
        """Summaries of transitive effects. Calls *into* the LMDB backend are
        not followed (the trait method name is the effect)."""
        self.db = db
        self.cg = cg
        self.table = table
        self.direct = {}
        for fid, fn in db.fns.items():
            d = set(e for _b, e in direct_effects(fn, table))
            if d:
                self.direct[fid] = d
        self.summary = {fid: set(d) for fid, d in self.direct.items()}
        self.skip = skip_impl_prefix
        changed = True
        while changed:
            changed = False
            for fid, es in cg.edges.items():
                cur = self.summary.get(fid)
                for c in es:
                    if non_production(c):
                        continue
                    cs = self.summary.get(c)
                    if not cs:
                        continue
                    if cur is None:
                        cur = self.summary[fid] = set()
                    if not cs <= cur:
                        cur |= cs
                        changed = True

    def of(self, fid):
        return self.summary.get(fid, set())

    def call_effects(self, t):
        """Effects a call terminator may (transitively) have."""
        f = t.get("f")
        out = set()
        if f in self.table:
            out.add(self.table[f])
            return out
        for callee, _k in self.cg.targets_of_call(t):
            out |= self.of(callee)
        return out

    def effect_blocks(self, fn, wanted=None):
        """Blocks of fn whose call may have one of `wanted` effects (default: any state effect)."""
        if wanted is None:
            wanted = STATE_EFFECTS
        out = {}
        for b, t in fn.calls():
            e = self.call_effects(t) & wanted
            if e:
                out[b] = e
        return out
