"""A6 - wallet-lock epochs, lock order, stale write-backs."""
from . import cfg, pp
from . import valueflow as vf
from .callgraph import non_production

LOCK_FN = "lock_api::mutex::Mutex::<R, T>::lock"
STD_LOCK_FNS = ("std::sync::Mutex::<T>::lock", "std::sync::poison::mutex::Mutex::<T>::lock")
LOCK_FNS = (LOCK_FN,) + STD_LOCK_FNS
# grin_util::static_secp_instance() itself locks the global secp mutex (to re-randomise the
# context) before it returns the Arc: every *call* is a momentary acquisition of SECP
# (witnessed by W2: a probe calling it while another thread held the guard blocked there).
MOMENTARY = {"grin_util::secp_static::static_secp_instance": "SECP"}

# different names of the same mutex object (confirmed by reading the construction sites)
ALIASES = {
    "mask": "KEYCHAIN_MASK",
    "keychain_mask": "KEYCHAIN_MASK",
    "ForeignAPIHandlerV2.keychain_mask": "KEYCHAIN_MASK",
    "OwnerAPIHandlerV3.keychain_mask": "KEYCHAIN_MASK",
    "key": "OWNER_SHARED_KEY",  # OwnerV3Helpers::*(key: Arc<Mutex<Option<SecretKey>>>) = handler.shared_key
    "OwnerAPIHandlerV3.shared_key": "OWNER_SHARED_KEY",
}

WALLET_T = "alloc::boxed::Box<dyn grin_wallet_libwallet::types::WalletInst<"


def lock_identity(fn, t):
    """Abstract identity of the mutex locked by call terminator t."""
    ga = t.get("ga") or []
    ty = ga[1] if len(ga) > 1 else (ga[0] if ga else "?")
    if ty.startswith(WALLET_T):
        return "WALLET"
    pr = vf.producers(fn, t["a"][0])
    if ty == "secp256k1zkp::Secp256k1":
        return "SECP"
    owners = sorted((x[1].split("::")[-1], x[2]) for x in pr if x[0] == "field" and x[1] not in ("()",) and not x[1].startswith(("core::", "alloc::", "std::", "lock_api::", "parking_lot::")) and "{closure" not in x[1])
    if owners:
        o = owners[-1]
        return ALIASES.get("%s.%s" % (o[0], o[1]), "%s.%s" % (o[0], o[1]))
    # parameter / captured variable: use its name
    names = set()
    for x in pr:
        if x[0] == "arg":
            n = fn.var_names().get(x[1])
            if n:
                names.add(n)
        if x[0] == "field" and "{closure" in x[1]:
            for vn, pl, _a in fn.vars:
                if pl[1] and any(isinstance(e, dict) and e.get("n") == x[2] and e.get("a") == x[1] for e in pl[1]):
                    names.add(vn)
            # captured in the parent: name recorded in the closure's debug info
    if names:
        n = sorted(names)[0]
        return ALIASES.get(n, "var:" + n)
    return "T:" + pp.short(ty)[:60]


class LockSite:
    def __init__(self, fn, b, t, ident):
        self.fn = fn
        self.b = b
        self.t = t
        self.ident = ident
        self.guard = t["d"][0] if not t["d"][1] else None
        self.live = self._live()

    def _live(self):
        """Blocks executed while the guard is held (from the lock's return until the guard is dropped)."""
        fn = self.fn
        g = self.guard
        start = self.t["t"]
        if start is None or g is None:
            return set()
        # the guard value may be moved into another local (let w_lock = inst.lock())
        holders = {g}
        changed = True
        while changed:
            changed = False
            for bb in fn.bbs:
                tt = bb["t"]
                if tt["k"] == "call" and tt.get("f") in vf.TRANSPARENT_CALLS and tt["a"] and not tt["d"][1]:
                    p = vf.op_place(tt["a"][0])
                    if p and not p[1] and p[0] in holders and "m" in tt["a"][0] and tt["d"][0] not in holders:
                        holders.add(tt["d"][0])
                        changed = True
                for s in bb["s"]:
                    if s["k"] == "a" and not s["d"][1] and s["r"]["k"] == "use":
                        p = vf.op_place(s["r"]["o"])
                        if p and not p[1] and p[0] in holders and "m" in s["r"]["o"] and s["d"][0] not in holders:
                            holders.add(s["d"][0])
                            changed = True
        live = set()
        stack = [start]
        while stack:
            b = stack.pop()
            if b in live:
                continue
            bb = fn.bbs[b]
            if bb["cleanup"]:
                continue
            # does this block end the guard's life?
            ends = False
            t = bb["t"]
            if t["k"] == "drop" and not t["p"][1] and t["p"][0] in holders:
                # dropping the final holder releases the lock
                ends = t["p"][0] == max(holders, key=lambda l: l) or True
            live.add(b)
            if ends:
                continue
            dead = any(s["k"] == "sd" and s["l"] in holders for s in bb["s"])
            # StorageDead of the last holder without a Drop (moved-out guard)
            for s_ in fn.succ(b):
                stack.append(s_)
        return live


def lock_sites(fn):
    out = []
    for b, t in fn.calls():
        if t.get("f") in LOCK_FNS:
            out.append(LockSite(fn, b, t, lock_identity(fn, t)))
    return out


class LockAnalysis:
    def __init__(self, ctx):
        self.ctx = ctx
        self.db = ctx.db
        self.cg = ctx.cg
        self.sites = {}
        for fid, f in self.db.fns.items():
            if non_production(fid):
                continue
            ls = lock_sites(f)
            if ls:
                self.sites[fid] = ls
        # transitive acquisitions
        self.acq = {fid: {s.ident for s in ls} for fid, ls in self.sites.items()}
        for fid, f in self.db.fns.items():
            if non_production(fid):
                continue
            for _b, t in f.calls():
                if t.get("f") in MOMENTARY:
                    self.acq.setdefault(fid, set()).add(MOMENTARY[t["f"]])
        changed = True
        while changed:
            changed = False
            for fid, es in self.cg.edges.items():
                if non_production(fid):
                    continue
                cur = self.acq.get(fid)
                for c in es:
                    if non_production(c):
                        continue
                    cs = self.acq.get(c)
                    if not cs:
                        continue
                    if cur is None:
                        cur = self.acq[fid] = set()
                    if not cs <= cur:
                        cur |= cs
                        changed = True

    def held_while_acquire(self):
        """Edges (I, J, witness) : J may be acquired while I is held."""
        edges = {}
        for fid, ls in self.sites.items():
            f = self.db.fns[fid]
            for s in ls:
                for b in s.live:
                    t = f.bbs[b]["t"]
                    if t["k"] != "call" or b == s.b:
                        continue
                    if t.get("f") in LOCK_FNS:
                        j = lock_identity(f, t)
                        edges.setdefault((s.ident, j), []).append((fid, pp.short(fid), _site(t), "direct"))
                        continue
                    if t.get("f") in MOMENTARY:
                        edges.setdefault((s.ident, MOMENTARY[t["f"]]), []).append((fid, pp.short(fid), _site(t), "direct (momentary lock inside the callee)"))
                        continue
                    for callee, _k in self.cg.targets_of_call(t):
                        if non_production(callee):
                            continue
                        for j in self.acq.get(callee, ()):
                            edges.setdefault((s.ident, j), []).append((fid, pp.short(fid), _site(t), "via " + pp.short(callee)))
                    # closures created/called here are covered through reify edges of the call graph only when invoked by a callee
        return edges

    def wallet_epochs(self, fn):
        return [s for s in self.sites.get(fn.id, []) if s.ident == "WALLET"]


def _site(t):
    p = t["sp"].split(":")
    return "%s:%s" % (p[0], p[1])


def find_cycles(edges):
    graph = {}
    for (a, b) in edges:
        graph.setdefault(a, set()).add(b)
    cycles = []
    nodes = sorted(graph)
    for a in nodes:
        for b in sorted(graph.get(a, ())):
            if a == b:
                cycles.append((a,))
            elif a < b and a in graph.get(b, ()):
                cycles.append((a, b))
    # longer cycles: DFS
    def dfs(start, cur, path, seen):
        for n in sorted(graph.get(cur, ())):
            if n == start and len(path) > 2:
                c = tuple(path)
                m = min(range(len(c)), key=lambda i: c[i])
                c = c[m:] + c[:m]
                if c not in cycles:
                    cycles.append(c)
            elif n not in seen and n > start:
                dfs(start, n, path + [n], seen | {n})

    for a in nodes:
        dfs(a, a, [a], {a})
    return cycles
