"""Positive controls: compile /verif/fixtures/positive with the same driver and assert that the
analysis library recognises each violating shape and accepts each conforming twin."""
import hashlib
import json
import os
import shutil
import subprocess
import sys

from . import cfg, codec, dectree, facts, panics, valueflow as vf

FIX = os.path.join(facts.VERIF, "fixtures", "positive")
P = "gw_fixture::"


def fixture_db():
    facts.build_driver()
    h = hashlib.sha256()
    for root, _d, fs in os.walk(os.path.join(FIX, "src")):
        for f in sorted(fs):
            h.update(open(os.path.join(root, f), "rb").read())
    st = os.stat(facts.DRIVER)
    h.update(("%d:%d" % (st.st_size, int(st.st_mtime))).encode())
    out = os.path.join(facts.CACHE, "fixture-facts", h.hexdigest()[:16])
    if not os.path.exists(os.path.join(out, ".complete")):
        tmp = out + ".tmp%d" % os.getpid()
        shutil.rmtree(tmp, ignore_errors=True)
        os.makedirs(tmp)
        target = os.path.join(facts.CACHE, "fixture-target")
        shutil.rmtree(os.path.join(target, "debug", ".fingerprint"), ignore_errors=True)
        env = dict(os.environ, CARGO_NET_OFFLINE="true", LD_LIBRARY_PATH=facts.sysroot_lib(), CARGO_INCREMENTAL="0",
                   RUSTFLAGS="-Zmir-opt-level=0 -Awarnings", RUSTC_WORKSPACE_WRAPPER=facts.DRIVER, GW_FACTS_DIR=tmp, CARGO_TARGET_DIR=target)
        r = subprocess.run(["cargo", "+nightly", "check", "--offline"], cwd=FIX, env=env, capture_output=True, text=True)
        if r.returncode != 0:
            raise facts.FactsError("fixture crate failed to compile:\n" + r.stderr[-3000:])
        open(os.path.join(tmp, ".complete"), "w").write(json.dumps({"repo": FIX}))
        shutil.rmtree(out, ignore_errors=True)
        os.makedirs(os.path.dirname(out), exist_ok=True)
        os.rename(tmp, out)
    return facts.DB(out)


def run():
    """Returns list of (name, ok, detail)."""
    db = fixture_db()
    res = []

    def chk(name, ok, detail=""):
        res.append((name, bool(ok), detail))

    def must(fid, guard, sink):
        f = db.fns[P + fid]
        edges = set()
        for b, _t in cfg.find_calls(f, P + guard):
            edges |= cfg.call_guard(f, b).ok
        sinks = {b for b, _t in cfg.find_calls(f, P + sink)}
        return cfg.must_pass(f, edges, sinks)[0] if sinks else None

    chk("must-pass holds on guarded", must("guarded", "check", "effect") is True)
    chk("must-pass fires on unguarded (result ignored)", must("unguarded", "check", "effect") is False)
    chk("must-pass fires on half_guarded (one branch)", must("half_guarded", "check", "effect") is False)

    def sites(fid):
        return panics.all_sites([db.fns[P + fid]])

    s = sites("slice_unguarded")
    chk("unguarded slice is a reported panic site", any(x.kind == "index" and not x.discharged for x in s), str([(x.kind, x.discharged) for x in s]))
    s = sites("slice_guarded")
    chk("length-guarded slice is discharged", all(x.discharged for x in s if x.kind in ("index", "copy_from_slice")) and any(x.kind == "index" for x in s), str([(x.kind, x.discharged) for x in s]))
    s = sites("div_unguarded")
    chk("division by a parameter is reported", any(x.kind == "assert:DivisionByZero" and not x.discharged for x in s))
    s = sites("div_guarded")
    chk("division guarded by n == 0 test is discharged", all(x.discharged for x in s if x.kind == "assert:DivisionByZero") and any(x.kind == "assert:DivisionByZero" for x in s), str([(x.kind, x.discharged) for x in s]))
    s = sites("add_overflow")
    chk("u64 addition is an overflow site", any(x.kind == "assert:Overflow:Add" and not x.discharged for x in s))
    s = sites("sub_guarded")
    chk("subtraction under a >= b is discharged", all(x.discharged for x in s if x.kind.startswith("assert:Overflow:Sub")) and any(x.kind.startswith("assert:Overflow:Sub") for x in s))
    s = sites("unwrap_site")
    chk("unwrap is a panic site", any(x.kind == "unwrap" for x in s))

    from .rules.C06 import result_dropped

    f = db.fns[P + "drops_result"]
    b, t = cfg.find_calls(f, P + "effect")[0]
    chk("`let _ = effect()` is a dropped Result", result_dropped(f, b, t))
    f = db.fns[P + "guarded"]
    b, t = cfg.find_calls(f, P + "effect")[0]
    chk("`effect()?` is not a dropped Result", not result_dropped(f, b, t))

    f = db.fns[P + "by_variant"]
    pe = dectree.PathEnum(f, db)
    out = {}
    for st in ("A", "B", "C"):
        vals = set()
        for p in pe.paths(0, init_state={"_1.st": frozenset([st])}, universe={"_1.st": frozenset("ABC")}):
            v = [e[2] for e in p.events if e[0] == "set" and e[1] == "_0"]
            vals.add(v[-1] if v else None)
        out[st] = vals
    chk("path enumeration: per-variant results of by_variant", out == {"A": {"1"}, "B": {"1"}, "C": {"2"}}, str(out))

    from . import locks

    ls = {fid: locks.lock_sites(db.fns[P + fid]) for fid in ("ab", "ba")}
    ok = all(len(v) == 2 for v in ls.values())
    order = {}
    for fid, v in ls.items():
        first = [s for s in v if any(o.b in s.live for o in v if o is not s)]
        order[fid] = first[0].ident if first else None
    chk("lock analysis: opposite acquisition orders in ab / ba", ok and order["ab"] != order["ba"] and None not in order.values(), str(order))

    w = db.fns[P + "write_ok"]
    r = db.fns[P + "read_ok"]
    ws = db.fns[P + "write_swapped"]
    saved_w, saved_r, wt, rt = dict(codec.PRIM_W), dict(codec.PRIM_R), codec.WRITE_TRAIT, codec.READ_TRAIT
    try:
        codec.PRIM_W.update({P + "W::w8": "u8", P + "W::w64": "u64"})
        codec.PRIM_R.update({P + "R::r8": "u8", P + "R::r64": "u64"})
        ok1, _c, _n = codec.language_included(codec.NFA(w, "w"), codec.NFA(r, "r"))
        ok2, cex, _n = codec.language_included(codec.NFA(ws, "w"), codec.NFA(r, "r"))
    finally:
        codec.PRIM_W.clear(); codec.PRIM_W.update(saved_w)
        codec.PRIM_R.clear(); codec.PRIM_R.update(saved_r)
    chk("codec inclusion holds for matching writer/reader", ok1 is True)
    chk("codec inclusion fires on swapped fields", ok2 is False, str(cex))

    from .flags import FlagRoots

    class _Ctx:
        pass

    from . import callgraph

    ctx = _Ctx()
    ctx.db = db
    ctx.cg = callgraph.CallGraph(db)
    fr = FlagRoots(ctx)
    sk = db.fns[P + "sink"]
    roots = fr.roots_of_operand(sk, {"c": [1, []]})
    kinds = sorted((r[0], str(r[1])) for r in roots)
    chk("flag roots: literal false and a struct field written true are both found", ("const", "0") in kinds and ("const", "1") in kinds, str(kinds))
    return res


if __name__ == "__main__":
    bad = 0
    for name, ok, detail in run():
        print("%s  %s%s" % ("ok  " if ok else "FAIL", name, ("  [" + detail + "]") if (detail and not ok) else ""))
        bad += 0 if ok else 1
    sys.exit(1 if bad else 0)
