"""Behaviour-preserving edits: every registered check must stay silent on each of them.
Run: python3 -m gw.benign [id ...]   (scratch copy under /tmp, removed afterwards)
A reported finding here is a false alarm of the machinery (never a property violation)."""
import json
import os
import shutil
import subprocess
import sys
import tempfile
import time

from . import facts

B = []


def b(bid, file, old, new, note):
    B.append({"id": bid, "file": file, "old": old, "new": new, "note": note})


FOREIGN = "libwallet/src/api_impl/foreign.rs"
OWNER = "libwallet/src/api_impl/owner.rs"
TX = "libwallet/src/internal/tx.rs"
UPD = "libwallet/src/internal/updater.rs"
SEL = "libwallet/src/internal/selection.rs"
LMDB = "impls/src/backends/lmdb.rs"
CTRL = "controller/src/controller.rs"

# 1. logging added at the top of an entry point
b("B01", FOREIGN, "\tlet mut ret_slate = slate.clone();\n\tcheck_ttl(w, &ret_slate)?;",
  "\tdebug!(\"receive_tx: slate {}\", slate.id);\n\tlet mut ret_slate = slate.clone();\n\tcheck_ttl(w, &ret_slate)?;", "log line added")
# 2. accumulators renamed in retrieve_info
b("B02", UPD, None, None, "rename unspent_total -> spendable_sum (whole file)")
# 3. duplicate check of receive_tx extracted into a helper
b("B03", FOREIGN,
  "\t// Don't do this multiple times, in whichever account: whoever delivers the slate\n\t// also names the destination account\n\tlet tx = updater::retrieve_txs(&mut *w, None, Some(ret_slate.id), None, None, use_test_rng)?;\n\tfor t in &tx {\n\t\t// (TxReverted: received, confirmed and reorganised away; it is confirmed again when\n\t\t// the transaction is mined again)\n\t\tif t.tx_type == TxLogEntryType::TxReceived || t.tx_type == TxLogEntryType::TxReverted {\n\t\t\treturn Err(Error::TransactionAlreadyReceived(ret_slate.id.to_string()));\n\t\t}\n\t\t// a payment that was cancelled here stays cancelled, it is not received again\n\t\tif t.tx_type == TxLogEntryType::TxReceivedCancelled {\n\t\t\treturn Err(Error::TransactionWasCancelled(ret_slate.id.to_string()));\n\t\t}\n\t}\n",
  "\t// Don't do this multiple times\n\trefuse_if_already_received(&mut *w, &ret_slate, use_test_rng)?;\n",
  "duplicate check extracted into a helper (helper appended to the file)")
# 4. cancel_tx: the two refusals swapped
b("B04", TX,
  "\tmatch tx.tx_type {\n\t\tTxLogEntryType::TxSent | TxLogEntryType::TxReceived | TxLogEntryType::TxReverted => {}\n\t\t_ => return Err(Error::TransactionNotCancellable(tx_id_string)),\n\t}\n\tif tx.confirmed {\n\t\treturn Err(Error::TransactionNotCancellable(tx_id_string));\n\t}\n",
  "\tif tx.confirmed {\n\t\treturn Err(Error::TransactionNotCancellable(tx_id_string));\n\t}\n\tmatch tx.tx_type {\n\t\tTxLogEntryType::TxSent | TxLogEntryType::TxReceived | TxLogEntryType::TxReverted => {}\n\t\t_ => return Err(Error::TransactionNotCancellable(tx_id_string)),\n\t}\n",
  "order of two independent refusals swapped")
# 5. check_ttl: nested ifs merged
b("B05", OWNER,
  "\tif slate.ttl_cutoff_height != 0 {\n\t\tif last_confirmed_height >= slate.ttl_cutoff_height {\n\t\t\treturn Err(Error::TransactionExpired);\n\t\t}\n\t}\n\tOk(())",
  "\tif slate.ttl_cutoff_height != 0 && last_confirmed_height >= slate.ttl_cutoff_height {\n\t\treturn Err(Error::TransactionExpired);\n\t}\n\tOk(())",
  "nested ifs merged into one condition")
# 6. keychain(): early return instead of match arm
b("B06", LMDB,
  "\t\t\t\tif *self.master_checksum != Some(hasher.finalize()) {\n\t\t\t\t\terror!(\"Supplied keychain mask is invalid\");\n\t\t\t\t\treturn Err(Error::InvalidKeychainMask);\n\t\t\t\t}\n\t\t\t\tOk(k_masked)",
  "\t\t\t\tlet checksum = Some(hasher.finalize());\n\t\t\t\tif *self.master_checksum == checksum {\n\t\t\t\t\tOk(k_masked)\n\t\t\t\t} else {\n\t\t\t\t\terror!(\"Supplied keychain mask is invalid\");\n\t\t\t\t\tErr(Error::InvalidKeychainMask)\n\t\t\t\t}",
  "checksum test inverted into if/else expression")
# 7. query filter rewritten with map_or
b("B07", UPD,
  "\t\t\t\tif let Some(v) = query_args.min_id {\n\t\t\t\t\ttx_entry.id >= v\n\t\t\t\t} else {\n\t\t\t\t\ttrue\n\t\t\t\t}",
  "\t\t\t\tmatch query_args.min_id {\n\t\t\t\t\tSome(v) => tx_entry.id >= v,\n\t\t\t\t\tNone => true,\n\t\t\t\t}",
  "if-let rewritten as match in one filter closure")
# 8. variable renamed in call_api
b("B08", CTRL, None, None, "rename was_encrypted -> encrypted_call (whole file)")
# 9. `?` replaced by an explicit match on a guard call
b("B09", FOREIGN,
  "\t\ttx::complete_tx(&mut *w, keychain_mask, &mut sl, &context)?;\n\t\ttx::verify_slate_payment_proof",
  "\t\tmatch tx::complete_tx(&mut *w, keychain_mask, &mut sl, &context) {\n\t\t\tOk(()) => {}\n\t\t\tErr(e) => return Err(e),\n\t\t}\n\t\ttx::verify_slate_payment_proof",
  "`?` replaced by explicit match")
# 10. comparison operands swapped
b("B10", UPD, "\t\tif height < last_confirmed_height {", "\t\tif last_confirmed_height > height {", "comparison operands swapped")
# 11. a local introduced for an argument
b("B11", TX,
  "\tlet res = updater::retrieve_outputs(\n\t\twallet,\n\t\tkeychain_mask,\n\t\tfalse,\n\t\tSome(tx.id),\n\t\tSome(&parent_key_id),\n\t)?;",
  "\tlet log_id = tx.id;\n\tlet account: Option<&Identifier> = Some(&parent_key_id);\n\tlet res = updater::retrieve_outputs(wallet, keychain_mask, false, Some(log_id), account)?;",
  "arguments bound to locals first")
# 12. an unrelated private helper + a constant added
b("B12", SEL, None, None, "unrelated private helper appended")
# 13. TTL check of finalize_tx through a thin wrapper
b("B13", FOREIGN, None, None, "check_ttl called through a thin local wrapper in finalize_tx")
# 14. status test written as matches!
b("B14", "libwallet/src/types.rs", None, None, "eligible_to_spend: == replaced by matches!")

# ---- second batch
TYPES = "libwallet/src/types.rs"
# 15. two independent proof comparisons swapped
b("B15", TX,
  "\t\tif p.sender_address != orig_sender_address.to_ed25519()? {\n\t\t\treturn Err(Error::PaymentProof(\n\t\t\t\t\"Sender address on slate does not match original sender address\".to_owned(),\n\t\t\t));\n\t\t}\n\n\t\tif orig_proof_info.receiver_address != p.receiver_address {\n\t\t\treturn Err(Error::PaymentProof(\n\t\t\t\t\"Recipient address on slate does not match original recipient address\".to_owned(),\n\t\t\t));\n\t\t}\n",
  "\t\tif orig_proof_info.receiver_address != p.receiver_address {\n\t\t\treturn Err(Error::PaymentProof(\n\t\t\t\t\"Recipient address on slate does not match original recipient address\".to_owned(),\n\t\t\t));\n\t\t}\n\n\t\tif p.sender_address != orig_sender_address.to_ed25519()? {\n\t\t\treturn Err(Error::PaymentProof(\n\t\t\t\t\"Sender address on slate does not match original sender address\".to_owned(),\n\t\t\t));\n\t\t}\n",
  "sender / receiver address comparisons swapped")
# 16. mark_reverted as if instead of match
b("B16", TYPES,
  "\t\tmatch self.status {\n\t\t\tOutputStatus::Unspent => self.status = OutputStatus::Reverted,\n\t\t\t_ => (),\n\t\t}",
  "\t\tif self.status == OutputStatus::Unspent {\n\t\t\tself.status = OutputStatus::Reverted;\n\t\t}",
  "match with one arm rewritten as if")
# 17. next_child: the incremented index in its own local
b("B17", LMDB,
  "\t\tderiv_idx += 1;\n\t\tlet mut batch = self.batch(keychain_mask)?;\n\t\tbatch.save_child_index(parent_key_id, deriv_idx)?;",
  "\t\tlet next_idx = deriv_idx + 1;\n\t\tlet mut batch = self.batch(keychain_mask)?;\n\t\tbatch.save_child_index(parent_key_id, next_idx)?;",
  "incremented index bound to a new local")
# 18. XOR loop variable renamed, loop split in two
b("B18", LMDB,
  "\t\tlet mut s_ctx = ctx.clone();\n\t\tfor i in 0..SECRET_KEY_SIZE {\n\t\t\ts_ctx.sec_key.0[i] ^= blind_xor_key[i];\n\t\t\ts_ctx.sec_nonce.0[i] ^= nonce_xor_key[i];\n\t\t}",
  "\t\tlet mut s_ctx = ctx.clone();\n\t\tfor n in 0..SECRET_KEY_SIZE {\n\t\t\ts_ctx.sec_key.0[n] ^= blind_xor_key[n];\n\t\t}\n\t\tfor n in 0..SECRET_KEY_SIZE {\n\t\t\ts_ctx.sec_nonce.0[n] ^= nonce_xor_key[n];\n\t\t}",
  "masking loop split in two")
# 19. rollback loop variable renamed and the two ifs turned into if / else if
b("B19", UPD,
  "\tfor mut o in outputs {\n\t\t// unlock locked outputs\n\t\tif o.status == OutputStatus::Unconfirmed || o.status == OutputStatus::Reverted {\n\t\t\tbatch.delete(&o.key_id, &o.mmr_index)?;\n\t\t}\n\t\tif o.status == OutputStatus::Locked {\n\t\t\to.status = OutputStatus::Unspent;\n\t\t\tbatch.save(o)?;\n\t\t}\n\t}",
  "\tfor mut out in outputs {\n\t\t// unlock locked outputs\n\t\tif out.status == OutputStatus::Unconfirmed || out.status == OutputStatus::Reverted {\n\t\t\tbatch.delete(&out.key_id, &out.mmr_index)?;\n\t\t} else if out.status == OutputStatus::Locked {\n\t\t\tout.status = OutputStatus::Unspent;\n\t\t\tbatch.save(out)?;\n\t\t}\n\t}",
  "rollback loop: variable renamed, second if becomes else-if")
# 20. check_ttl with an early return for 'no ttl'
b("B20", OWNER,
  "\tlet last_confirmed_height =\n\t\tstd::cmp::max(w.last_confirmed_height()?, w.last_scanned_block()?.height);\n\tif slate.ttl_cutoff_height != 0 {\n\t\tif last_confirmed_height >= slate.ttl_cutoff_height {\n\t\t\treturn Err(Error::TransactionExpired);\n\t\t}\n\t}\n\tOk(())",
  "\tif slate.ttl_cutoff_height == 0 {\n\t\treturn Ok(());\n\t}\n\tlet last_confirmed_height =\n\t\tstd::cmp::max(w.last_confirmed_height()?, w.last_scanned_block()?.height);\n\tif last_confirmed_height >= slate.ttl_cutoff_height {\n\t\treturn Err(Error::TransactionExpired);\n\t}\n\tOk(())",
  "early return for slates without a ttl")
# 21. rename the snapshot variable of update_wallet_state's callers: whole-file rename in owner.rs of `tx_vec`? (kept small)
b("B21", TX, None, None, "rename tx_vec -> entries in tx.rs (whole file)")
# 22. Owner API method binds the mask to a local first
b("B22", "api/src/owner.rs", None, None, "Owner::cancel_tx binds keychain_mask to a local before use")

b("B23", SEL, None, None, "rename local `change` -> `leftover` in selection.rs (word-boundary, whole file)")
b("B24", TX, None, None, "rename parameter use_test_rng -> test_mode in tx.rs (whole file)")
b("B25", UPD, None, None, "rename reverted_total -> rev_sum and locked_total -> held_sum in updater.rs")
b("B26", FOREIGN, None, None, "rename parameter slate -> incoming in foreign.rs finalize_tx/receive_tx (word-boundary, whole file)")

b("B29", FOREIGN, "\tfor t in &tx {\n\t\t// (TxReverted: received, confirmed and reorganised away; it is confirmed again when\n\t\t// the transaction is mined again)\n\t\tif t.tx_type == TxLogEntryType::TxReceived || t.tx_type == TxLogEntryType::TxReverted {\n\t\t\treturn Err(Error::TransactionAlreadyReceived(ret_slate.id.to_string()));\n\t\t}\n\t\t// a payment that was cancelled here stays cancelled, it is not received again\n\t\tif t.tx_type == TxLogEntryType::TxReceivedCancelled {\n\t\t\treturn Err(Error::TransactionWasCancelled(ret_slate.id.to_string()));\n\t\t}\n\t}\n", "\tif tx\n\t\t.iter()\n\t\t.any(|t| t.tx_type == TxLogEntryType::TxReceived || t.tx_type == TxLogEntryType::TxReverted)\n\t{\n\t\treturn Err(Error::TransactionAlreadyReceived(ret_slate.id.to_string()));\n\t}\n\tif tx.iter().any(|t| t.tx_type == TxLogEntryType::TxReceivedCancelled) {\n\t\treturn Err(Error::TransactionWasCancelled(ret_slate.id.to_string()));\n\t}\n", "duplicate tests written with iter().any(..)")
b("B30", TX,
  "\tmatch tx.tx_type {\n\t\tTxLogEntryType::TxSent | TxLogEntryType::TxReceived | TxLogEntryType::TxReverted => {}\n\t\t_ => return Err(Error::TransactionNotCancellable(tx_id_string)),\n\t}\n",
  "\tif !matches!(\n\t\ttx.tx_type,\n\t\tTxLogEntryType::TxSent | TxLogEntryType::TxReceived | TxLogEntryType::TxReverted\n\t) {\n\t\treturn Err(Error::TransactionNotCancellable(tx_id_string));\n\t}\n",
  "cancellable-type test written with matches!")
b("B31", LMDB,
  "\t\tfor i in 0..SECRET_KEY_SIZE {\n\t\t\ts_ctx.sec_key.0[i] ^= blind_xor_key[i];\n\t\t\ts_ctx.sec_nonce.0[i] ^= nonce_xor_key[i];\n\t\t}",
  "\t\tfor (b, k) in s_ctx.sec_key.0.iter_mut().zip(blind_xor_key.iter()) {\n\t\t\t*b ^= *k;\n\t\t}\n\t\tfor (b, k) in s_ctx.sec_nonce.0.iter_mut().zip(nonce_xor_key.iter()) {\n\t\t\t*b ^= *k;\n\t\t}",
  "masking loop written with iter_mut().zip(..)")

b("B32", FOREIGN,
  "\t\ttx::update_stored_tx(&mut *w, keychain_mask, &context, &sl, false)?;\n\t\t{\n\t\t\tlet mut batch = w.batch(keychain_mask)?;\n\t\t\tbatch.delete_private_context(sl.id.as_bytes())?;\n\t\t\tbatch.commit()?;\n\t\t}\n\t\tsl.state = SlateState::Standard3;",
  "\t\tstore_and_forget(&mut *w, keychain_mask, &context, &sl)?;\n\t\tsl.state = SlateState::Standard3;",
  "storing the finalized tx and deleting the context extracted into a helper (appended)")

b("B33", OWNER, "\t\tif let Some(e) = tx.ttl_cutoff_height {\n\t\t\tif tip.0 >= e {\n\t\t\t\t// under the account the entry belongs to: log ids are per account, and the\n\t\t\t\t// active account may have been switched since the entries were collected\n\t\t\t\twallet_lock!(wallet_inst, w);\n\t\t\t\ttx::cancel_tx(\n\t\t\t\t\t&mut **w,\n\t\t\t\t\tkeychain_mask,\n\t\t\t\t\t&tx.parent_key_id,\n\t\t\t\t\tSome(tx.id),\n\t\t\t\t\tNone,\n\t\t\t\t)?;\n\t\t\t}\n\t\t}\n", "\t\tlet e = match tx.ttl_cutoff_height {\n\t\t\tSome(e) => e,\n\t\t\tNone => continue,\n\t\t};\n\t\tif tip.0 < e {\n\t\t\tcontinue;\n\t\t}\n\t\twallet_lock!(wallet_inst, w);\n\t\ttx::cancel_tx(&mut **w, keychain_mask, &tx.parent_key_id, Some(tx.id), None)?;\n", "expiry walk rewritten in early-continue style")

SCAN = "libwallet/src/internal/scan.rs"
b("B34", SCAN, "\t\t\tkeys::set_acct_path(&mut **w, keychain_mask, &label, path)?;\n\t\t\tacct_index += 1;", "\t\t\tkeys::set_acct_path(&mut **w, keychain_mask, &label, path)?;\n\t\t\tacct_index = acct_index + 1;", "counter increment written out")
b("B35", SCAN, "\t\t\tlast_retrieved_return_index = last_retrieved_index;\n\t\t\tbreak;\n\t\t}\n\t\tstart_index = last_retrieved_index + 1;", "\t\t\tlast_retrieved_return_index = last_retrieved_index;\n\t\t\tbreak;\n\t\t}\n\t\tstart_index = 1 + last_retrieved_index;", "addition operands swapped")
b("B36", "libwallet/src/slate.rs", "\t\tif fee > tx.fee() {", "\t\tif tx.fee() < fee {", "minimum-fee comparison mirrored")
b("B37", UPD, "\t\tif out.status == OutputStatus::Unconfirmed\n\t\t\t&& out.height > 0\n\t\t\t&& out.height < height - 50\n\t\t\t&& out.is_coinbase\n", "\t\tif out.is_coinbase\n\t\t\t&& out.status == OutputStatus::Unconfirmed\n\t\t\t&& out.height > 0\n\t\t\t&& out.height < height - 50\n", "conjuncts reordered")
b("B38", SEL, "\t\twhile total < amount_with_fee {", "\t\twhile amount_with_fee > total {", "loop test mirrored")
b("B39", OWNER, "\tif !update_wallet_state(\n\t\twallet_inst.clone(),\n\t\tkeychain_mask,\n\t\tstatus_send_channel,\n\t\tfalse,\n\t)? {\n\t\treturn Err(Error::TransactionCancellationError(", "\tlet refreshed = update_wallet_state(\n\t\twallet_inst.clone(),\n\t\tkeychain_mask,\n\t\tstatus_send_channel,\n\t\tfalse,\n\t)?;\n\tif !refreshed {\n\t\treturn Err(Error::TransactionCancellationError(", "refresh result bound to a local first")
b("B40", "libwallet/src/internal/keys.rs", "p.path[0] = ChildNumber::from(<u32>::from(p.path[0]) + 1);", "p.path[0] = ChildNumber::from(1 + <u32>::from(p.path[0]));", "addition operands swapped")
b("B41", "controller/src/controller.rs", "\t\tmatches!(val[\"method\"].as_str(), Some(\"init_secure_api\"))", "\t\tval[\"method\"].as_str() == Some(\"init_secure_api\")", "matches! rewritten as == on Option<&str>")

b("B42", UPD, "\tif query_args.is_some() && tx_id.is_none() && tx_slate_id.is_none() {\n\t\ttxs = apply_advanced_tx_list_filtering(wallet, &query_args.unwrap(), parent_key_id)", "\tif let (Some(q), None, None) = (query_args.as_ref(), tx_id, tx_slate_id) {\n\t\ttxs = apply_advanced_tx_list_filtering(wallet, q, parent_key_id)", "dispatch test written as a tuple pattern")

SCAN = "libwallet/src/internal/scan.rs"
b("B43", OWNER, "\t\tif tx.amount_debited != 0 && tx.amount_credited != 0 {\n\t\t\t// confirmed through", "\t\tif tx.amount_credited != 0 {\n\t\t\t// confirmed through", "kernel step: the pending-output test applied to every entry with a credit (the output test alone makes the skip safe)")
b("B44", SCAN, "\t\tif deffo.n_child > *max_child_index {\n\t\t\t*max_child_index = deffo.n_child;\n\t\t}\n", "\t\t*max_child_index = (*max_child_index).max(deffo.n_child);\n", "running maximum written with max()")
b("B45", SCAN, "\tif output.n_child >= max_child_index {", "\tif max_child_index <= output.n_child {", "running-maximum test mirrored")
b("B46", OWNER, "\t\t\tlet change_pending = w.iter().any(|o| {\n\t\t\t\to.root_key_id == parent_key_id\n\t\t\t\t\t&& o.tx_log_entry == Some(id)\n\t\t\t\t\t&& o.status == OutputStatus::Unconfirmed\n\t\t\t});\n\t\t\tif change_pending {\n\t\t\t\tcontinue;\n\t\t\t}\n", "\t\t\tif w.iter().any(|o| {\n\t\t\t\to.status == OutputStatus::Unconfirmed\n\t\t\t\t\t&& o.tx_log_entry == Some(id)\n\t\t\t\t\t&& o.root_key_id == parent_key_id\n\t\t\t}) {\n\t\t\t\tcontinue;\n\t\t\t}\n", "pending-output test inlined, conjuncts reordered")
b("B47", TX, "\t\tlet parent_key_id = context.parent_key_id.clone();\n\t\tlet excess = slate.calc_excess(keychain.secp())?;", "\t\tlet parent_key_id = parent_key.clone();\n\t\tlet excess = slate.calc_excess(keychain.secp())?;", "proof key account taken from the log entry instead of the context (same account)")
b("B48", FOREIGN, "\t\ttx::update_stored_tx(&mut *w, keychain_mask, &context, &sl, false)?;\n\t\t{\n\t\t\tlet mut batch = w.batch(keychain_mask)?;\n\t\t\tbatch.delete_private_context(sl.id.as_bytes())?;\n\t\t\tbatch.commit()?;\n\t\t}\n", "\t\ttx::update_stored_tx(&mut *w, keychain_mask, &context, &sl, false)?;\n\t\tdebug!(\"finalize_tx: stored, dropping the context of {}\", sl.id);\n\t\tlet mut batch = w.batch(keychain_mask)?;\n\t\tbatch.delete_private_context(sl.id.as_bytes())?;\n\t\tbatch.commit()?;\n", "context deletion without its own block, log line in between")

b("B49", OWNER, "\tif context.late_lock_args.is_some() {\n\t\treturn Ok(());\n\t}\n", "\tif let Some(_) = context.late_lock_args {\n\t\treturn Ok(());\n\t}\n", "late-lock test written as if-let")
b("B50", CTRL, "\t\tif !req.is_object() || req[\"method\"].as_str() != Some(\"encrypted_request_v3\") {", "\t\tlet named = req[\"method\"].as_str() == Some(\"encrypted_request_v3\");\n\t\tif !(req.is_object() && named) {", "envelope test written positively")
b("B51", OWNER, "\t\tstd::cmp::max(w.last_confirmed_height()?, w.last_scanned_block()?.height);", "\t\tw.last_scanned_block()?.height.max(w.last_confirmed_height()?);", "max() written as a method, operands swapped")
b("B52", OWNER, "\t\tif tx.confirmed || tx.tx_type == TxLogEntryType::TxReverted {\n\t\t\tcontinue;\n\t\t}\n", "\t\tif tx.confirmed {\n\t\t\tcontinue;\n\t\t}\n\t\tif tx.tx_type == TxLogEntryType::TxReverted {\n\t\t\tcontinue;\n\t\t}\n", "expiry step: the two skips written as separate ifs")
b("B53", TX, "\t} else {\n\t\t// nothing names the transaction to cancel\n\t\treturn Err(Error::TransactionDoesntExist(tx_id_string));\n\t}\n", "\t}\n\tif tx_id.is_none() && tx_slate_id.is_none() {\n\t\t// nothing names the transaction to cancel\n\t\treturn Err(Error::TransactionDoesntExist(tx_id_string));\n\t}\n", "cancel_tx: the no-id refusal written as a separate is_none test")
b("B55", SCAN, "\t\t\t.filter(|o| {\n\t\t\t\to.output.status == OutputStatus::Unconfirmed && !chain_commits.contains(&o.commit)\n\t\t\t})\n", "\t\t\t.filter(|o| o.output.status == OutputStatus::Unconfirmed)\n\t\t\t.filter(|o| !chain_commits.contains(&o.commit))\n", "scan: the selection of stale unconfirmed records written as two filters")
b("B59", SCAN, "\t\tlet max_child_index = found_parents.entry(deffo.key_id.parent_path()).or_insert(0);\n\t\tif deffo.n_child > *max_child_index {\n\t\t\t*max_child_index = deffo.n_child;\n\t\t}\n", "\t\tlet n_child = deffo.n_child;\n\t\tfound_parents\n\t\t\t.entry(deffo.key_id.parent_path())\n\t\t\t.and_modify(|m| *m = (*m).max(n_child))\n\t\t\t.or_insert(n_child);\n", "scan: running maximum written with entry().and_modify().or_insert()")
ADDR = "libwallet/src/address.rs"
SEL2 = "libwallet/src/internal/selection.rs"
TYPES = "libwallet/src/types.rs"
b("B60", ADDR, "\tkey_path.depth += 1;\n\tkey_path.path[key_path.depth as usize - 1] = ChildNumber::from(index);", "\tlet slot = key_path.depth as usize;\n\tkey_path.depth += 1;\n\tkey_path.path[slot] = ChildNumber::from(index);", "address key: the slot is read before the depth is raised")
b("B61", OWNER, "\tupdate_outputs(wallet_inst.clone(), keychain_mask, true, true)?;\n\tlet tip = {", "\t{\n\t\twallet_lock!(wallet_inst, w);\n\t\tlet accounts: Vec<Identifier> = w.acct_path_iter().map(|m| m.path).collect();\n\t\tfor a in accounts.iter() {\n\t\t\tupdater::refresh_outputs(&mut **w, keychain_mask, a, true)?;\n\t\t}\n\t}\n\tlet tip = {", "scan: the refresh of every account written as a loop in scan itself")
b("B62", CTRL, "\t\tlet req_key = Arc::new(Mutex::new(key.lock().clone()));", "\t\tlet session_key = key.lock().clone();\n\t\tlet req_key = Arc::new(Mutex::new(session_key));", "per-request key: snapshot taken into a local first")
b("B63", OWNER, "\t\t\t\ttx::cancel_tx(\n\t\t\t\t\t&mut **w,\n\t\t\t\t\tkeychain_mask,\n\t\t\t\t\t&tx.parent_key_id,", "\t\t\t\ttx::cancel_tx(\n\t\t\t\t\t&mut **w,\n\t\t\t\t\tkeychain_mask,\n\t\t\t\t\t&parent_key_id,", "expiry step: the account read when the entries were collected (not the entry's field)")
b("B64", SEL2, "\t\t\tif batch.get(id, mmr_index).is_ok() {\n\t\t\t\tcontinue;\n\t\t\t}\n", "\t\t\tmatch batch.get(id, mmr_index) {\n\t\t\t\tOk(_) => continue,\n\t\t\t\tErr(_) => {}\n\t\t\t}\n", "reservation: the on-record test written as a match")
b("B65", OWNER, "\tif slate.state == SlateState::Invoice2 {\n\t\tlet own_invoice = updater::retrieve_txs(&mut *w, None, Some(slate.id), None, None, false)?\n\t\t\t.iter()\n\t\t\t.any(|t| t.tx_type == TxLogEntryType::TxReceived);\n\t\tif !own_invoice {\n\t\t\tlet mut batch = w.batch(keychain_mask)?;\n\t\t\tbatch.delete_private_context(slate.id.as_bytes())?;\n\t\t\tbatch.commit()?;\n\t\t}\n\t}\n\tOk(())\n}", "\tif slate.state != SlateState::Invoice2 {\n\t\treturn Ok(());\n\t}\n\tlet own_invoice = updater::retrieve_txs(&mut *w, None, Some(slate.id), None, None, false)?\n\t\t.iter()\n\t\t.any(|t| t.tx_type == TxLogEntryType::TxReceived);\n\tif !own_invoice {\n\t\tlet mut batch = w.batch(keychain_mask)?;\n\t\tbatch.delete_private_context(slate.id.as_bytes())?;\n\t\tbatch.commit()?;\n\t}\n\tOk(())\n}", "payer context deletion: early return for other states")
b("B66", TYPES, "\t/// Fee\n\tpub fee: Option<FeeFields>,", "\t/// Fee\n\t#[serde(default)]\n\tpub fee: Option<FeeFields>,", "a serde default added to an optional field of the stored log record")

SLATE = "libwallet/src/slate.rs"
V4BIN = "libwallet/src/slate_versions/v4_bin.rs"
b("B67", UPD, "\t\tif client.get_kernel(&excess, min_height, None)?.is_none() {\n\t\t\treverted.insert(id);\n\t\t}", "\t\tmatch client.get_kernel(&excess, min_height, None)? {\n\t\t\tNone => {\n\t\t\t\treverted.insert(id);\n\t\t\t}\n\t\t\tSome(_) => {}\n\t\t}", "reverted kernels: the answer of the node matched instead of is_none()")
b("B68", SLATE, "\t\tif pub_nonces.len() == 0 {\n\t\t\treturn Err(Error::Commit(format!(\"Participant nonces cannot be empty\")));\n\t\t}\n", "\t\tif pub_nonces.is_empty() {\n\t\t\treturn Err(Error::Commit(format!(\"Participant nonces cannot be empty\")));\n\t\t}\n", "empty participant list tested with is_empty()")
b("B69", OWNER, "\t\tif c.late_lock_args.is_some() {\n\t\t\treturn Err(Error::GenericError(format!(\n\t\t\t\t\"A pending transaction with id {} already exists\",", "\t\tif let Some(_) = c.late_lock_args {\n\t\t\treturn Err(Error::GenericError(format!(\n\t\t\t\t\"A pending transaction with id {} already exists\",", "invoice under a late-lock id: test written as if-let")
b("B70", V4BIN, "\t\tif self.coms.is_some() {\n\t\t\tstatus |= 0x01\n\t\t};", "\t\tmatch self.coms {\n\t\t\tSome(_) => status |= 0x01,\n\t\t\tNone => {}\n\t\t};", "coms bit set in a match on the option")

b("B71", TX, "\twallet.store_tx(&format!(\"{}\", tx.tx_slate_id.unwrap()), slate.tx_or_err()?)?;\n", "\tlet stored = wallet.store_tx(&format!(\"{}\", tx.tx_slate_id.unwrap()), slate.tx_or_err()?);\n\tstored?;\n", "stored-tx write: result bound to a local, then propagated")

b("B72", "libwallet/src/slatepack/armor.rs", "\tif error_code.iter().eq(new_check.iter()) {", "\tif error_code == &new_check[..] {", "checksum compared as whole slices instead of iterators")
b("B73", OWNER, "\tfor parent_key_id in accounts.iter() {\n\t\tif let Err(e) = updater::refresh_outputs(", "\tfor parent_key_id in &accounts {\n\t\tif let Err(e) = updater::refresh_outputs(", "account loop over a reference instead of iter()")

b("B74", "impls/src/lifecycle/seed.rs", "\t\tlet nonce: [u8; 12] = thread_rng().gen();\n\t\tlet password = password.as_bytes();", "\t\tlet nonce: [u8; 12] = thread_rng().gen();\n\t\tlet password: &[u8] = password.as_ref();", "password bytes taken with as_ref instead of as_bytes")


def _apply(mu, repo_copy):
    p = os.path.join(repo_copy, mu["file"])
    src = open(p).read()
    bid = mu["id"]
    if bid == "B02":
        assert src.count("unspent_total") >= 3
        src = src.replace("unspent_total", "spendable_sum")
    elif bid == "B08":
        assert src.count("was_encrypted") >= 3
        src = src.replace("was_encrypted", "encrypted_call")
    elif bid == "B12":
        src += "\n#[allow(dead_code)]\nconst VERIF_BENIGN_LIMIT: usize = 7;\n\n#[allow(dead_code)]\nfn verif_benign_clamp(n: usize) -> usize {\n\tif n > VERIF_BENIGN_LIMIT {\n\t\tVERIF_BENIGN_LIMIT\n\t} else {\n\t\tn\n\t}\n}\n"
    elif bid == "B13":
        old = "\tcheck_ttl(w, &sl)?;"
        if src.count(old) != 1:
            return "anchor text occurs %d times" % src.count(old)
        src = src.replace(old, "\trefuse_expired(w, &sl)?;")
        src += "\nfn refuse_expired<'a, T: ?Sized, C, K>(w: &mut T, slate: &Slate) -> Result<(), Error>\nwhere\n\tT: WalletBackend<'a, C, K>,\n\tC: NodeClient + 'a,\n\tK: Keychain + 'a,\n{\n\tcheck_ttl(w, slate)?;\n\tOk(())\n}\n"
    elif bid == "B23":
        import re
        src, n = re.subn(r"\bchange\b", "leftover", src)
        assert n >= 5
    elif bid == "B24":
        import re
        src, n = re.subn(r"\buse_test_rng\b", "test_mode", src)
        assert n >= 5
    elif bid == "B25":
        assert src.count("reverted_total") >= 3 and src.count("locked_total") >= 3
        src = src.replace("reverted_total", "rev_sum").replace("locked_total", "held_sum")
    elif bid == "B26":
        import re
        src, n = re.subn(r"\bslate\b(?!::)", "incoming", src)
        assert n >= 2
    elif bid == "B21":
        assert src.count("tx_vec") >= 4
        src = src.replace("tx_vec", "entries")
    elif bid == "B22":
        old = "\t\towner::cancel_tx(\n\t\t\tself.wallet_inst.clone(),\n\t\t\tkeychain_mask,"
        if src.count(old) != 1:
            return "anchor text occurs %d times" % src.count(old)
        src = src.replace(old, "\t\tlet mask = keychain_mask;\n\t\towner::cancel_tx(\n\t\t\tself.wallet_inst.clone(),\n\t\t\tmask,")
    elif bid == "B14":
        old = "self.status == OutputStatus::Unspent"
        if src.count(old) < 1:
            return "anchor text occurs 0 times"
        src = src.replace(old, "matches!(self.status, OutputStatus::Unspent)")
    else:
        if src.count(mu["old"]) != 1:
            return "anchor text occurs %d times" % src.count(mu["old"])
        src = src.replace(mu["old"], mu["new"])
        if bid == "B32":
            src += "\nfn store_and_forget<'a, T: ?Sized, C, K>(\n\tw: &mut T,\n\tkeychain_mask: Option<&SecretKey>,\n\tcontext: &crate::types::Context,\n\tsl: &Slate,\n) -> Result<(), Error>\nwhere\n\tT: WalletBackend<'a, C, K>,\n\tC: NodeClient + 'a,\n\tK: Keychain + 'a,\n{\n\ttx::update_stored_tx(&mut *w, keychain_mask, context, sl, false)?;\n\tlet mut batch = w.batch(keychain_mask)?;\n\tbatch.delete_private_context(sl.id.as_bytes())?;\n\tbatch.commit()?;\n\tOk(())\n}\n"
        if bid == "B03":
            src += "\nfn refuse_if_already_received<'a, T: ?Sized, C, K>(\n\tw: &mut T,\n\tslate: &Slate,\n\tuse_test_rng: bool,\n) -> Result<(), Error>\nwhere\n\tT: WalletBackend<'a, C, K>,\n\tC: NodeClient + 'a,\n\tK: Keychain + 'a,\n{\n\tlet tx = updater::retrieve_txs(\n\t\t&mut *w,\n\t\tNone,\n\t\tSome(slate.id),\n\t\tNone,\n\t\tNone,\n\t\tuse_test_rng,\n\t)?;\n\tfor t in &tx {\n\t\tif t.tx_type == TxLogEntryType::TxReceived || t.tx_type == TxLogEntryType::TxReverted {\n\t\t\treturn Err(Error::TransactionAlreadyReceived(slate.id.to_string()));\n\t\t}\n\t\tif t.tx_type == TxLogEntryType::TxReceivedCancelled {\n\t\t\treturn Err(Error::TransactionWasCancelled(slate.id.to_string()));\n\t\t}\n\t}\n\tOk(())\n}\n"
    open(p, "w").write(src)
    return None


def registered():
    m = json.load(open(os.path.join(facts.VERIF, "MANIFEST.json")))
    return [c["property_id"] for c in m["checks"]]


def run(ids=None, props=None):
    props = props or registered()
    base = tempfile.mkdtemp(prefix="gwbenign-", dir="/tmp")
    repo_copy = os.path.join(base, "repo")
    out = []
    try:
        for mu in B:
            if ids and mu["id"] not in ids:
                continue
            t0 = time.time()
            rc = subprocess.run(["rsync", "-a", "--delete", "--exclude", "target", "--exclude", ".git", "--exclude", "test_output", facts.REPO + "/", repo_copy + "/"]).returncode
            if rc not in (0, 24):
                raise RuntimeError("rsync failed")
            why = _apply(mu, repo_copy)
            if why:
                print("benign %s: not applicable (%s)" % (mu["id"], why))
                out.append({"id": mu["id"], "status": "not-applicable", "why": why})
                continue
            alarms = []
            compile_fail = False
            env = dict(os.environ, GW_REPO=repo_copy, GW_MUTANT_RUN="1")
            r = subprocess.run([sys.executable, os.path.join(facts.VERIF, "bin", "check_all")] + list(props), env=env, capture_output=True, text=True)
            cur = "?"
            for l in r.stdout.splitlines():
                if l.startswith("== "):
                    cur = l[3:].strip()
                elif l.startswith("MUTANT-FINDING ") or l.startswith("MUTANT-ERROR "):
                    if "facts extraction failed" in l:
                        compile_fail = True
                    alarms.append(cur + ": " + l[:260])
            if r.returncode not in (0, 1):
                alarms.append("check_all crashed: " + r.stderr[-300:])
            status = "does-not-compile" if compile_fail else ("FALSE-ALARM" if alarms else "silent")
            print("benign %s (%s): %s [%.0fs]" % (mu["id"], mu["note"], status, time.time() - t0))
            for a in alarms[:8]:
                print("     " + a)
            out.append({"id": mu["id"], "note": mu["note"], "status": status, "alarms": alarms})
    finally:
        shutil.rmtree(base, ignore_errors=True)
    return out


if __name__ == "__main__":
    res = run(set(sys.argv[1:]) or None)
    bad = [r for r in res if r["status"] == "FALSE-ALARM"]
    print("benign edits: %d run, %d silent, %d false alarms, %d not compiled" % (
        len(res), sum(r["status"] == "silent" for r in res), len(bad), sum(r["status"] == "does-not-compile" for r in res)))
    sys.exit(1 if bad else 0)
