"""A2 - CFG relations: reachability under cut sets, dominators, guard edges."""
from collections import deque

from . import pp

# ---------------------------------------------------------------------------
# call matching


def callee_names(t):
    out = []
    for k in ("f", "r"):
        v = t.get(k)
        if v:
            out.append(v)
    return out


def match_name(name, pat):
    """pat: exact def path, or '*suffix', or 'prefix*', or a callable."""
    if callable(pat):
        return pat(name)
    if pat.startswith("*"):
        return name.endswith(pat[1:])
    if pat.endswith("*"):
        return name.startswith(pat[:-1])
    return name == pat


def call_matches(t, pats):
    if isinstance(pats, (str,)) or callable(pats):
        pats = [pats]
    for n in callee_names(t):
        for p in pats:
            if match_name(n, p):
                return True
    return False


def find_calls(fn, pats):
    return [(b, t) for b, t in fn.calls() if call_matches(t, pats)]


# ---------------------------------------------------------------------------
# reachability


def reach(fn, starts=(0,), cut_edges=frozenset(), cut_nodes=frozenset(), unwind=False):
    """Blocks reachable from `starts` following normal edges, never taking an
    edge in cut_edges nor entering a node in cut_nodes. Returns parent map."""
    par = {}
    dq = deque()
    for s in starts:
        if s in cut_nodes:
            continue
        par[s] = None
        dq.append(s)
    while dq:
        b = dq.popleft()
        for s in fn.succ(b, unwind=unwind):
            if (b, s) in cut_edges or s in cut_nodes or s in par:
                continue
            par[s] = b
            dq.append(s)
    return par


def path_to(par, b):
    p = []
    while b is not None:
        p.append(b)
        b = par[b]
    return list(reversed(p))


def dominators(fn, unwind=False):
    """Immediate-dominator-free simple iterative dominator sets (bitsets)."""
    n = len(fn.bbs)
    par = reach(fn, unwind=unwind)
    order = []
    seen = set()
    # reverse postorder
    stack = [(0, iter(fn.succ(0, unwind=unwind)))]
    seen.add(0)
    post = []
    while stack:
        b, it = stack[-1]
        adv = False
        for s in it:
            if s not in seen:
                seen.add(s)
                stack.append((s, iter(fn.succ(s, unwind=unwind))))
                adv = True
                break
        if not adv:
            post.append(b)
            stack.pop()
    order = list(reversed(post))
    preds = [[] for _ in range(n)]
    for b in order:
        for s in fn.succ(b, unwind=unwind):
            preds[s].append(b)
    full = (1 << n) - 1
    dom = {b: full for b in order}
    dom[0] = 1
    changed = True
    while changed:
        changed = False
        for b in order:
            if b == 0:
                continue
            new = full
            for p in preds[b]:
                if p in dom:
                    new &= dom[p]
            new |= 1 << b
            if new != dom[b]:
                dom[b] = new
                changed = True
    return dom


def dominates(dom, a, b):
    return b in dom and (dom[b] >> a) & 1 == 1


# ---------------------------------------------------------------------------
# guard edges

OK_PRESERVING = (
    "core::result::Result::<T, E>::map_err",
    "core::result::Result::<T, E>::map",
    "core::result::Result::<T, E>::ok",
    "core::result::Result::<T, E>::as_ref",
    "core::result::Result::<T, E>::as_mut",
    "core::result::Result::<T, E>::and_then",
    "core::result::Result::<T, E>::cloned",
    "core::result::Result::<T, E>::copied",
    "core::option::Option::<T>::ok_or",
    "core::option::Option::<T>::ok_or_else",
    "core::option::Option::<T>::map",
    "core::option::Option::<T>::as_ref",
    "core::option::Option::<T>::as_mut",
    "core::option::Option::<T>::and_then",
    "core::option::Option::<T>::cloned",
    "core::option::Option::<T>::copied",
    "core::option::Option::<T>::filter",
    "core::option::Option::<T>::as_deref",
)
UNWRAPPING = (
    "core::result::Result::<T, E>::unwrap",
    "core::result::Result::<T, E>::expect",
    "core::option::Option::<T>::unwrap",
    "core::option::Option::<T>::expect",
)
IS_OK = ("core::result::Result::<T, E>::is_ok", "core::option::Option::<T>::is_some")
IS_ERR = ("core::result::Result::<T, E>::is_err", "core::option::Option::<T>::is_none")
BRANCH = "core::ops::try_trait::Try::branch"


def kind_of_type(ty):
    ty = ty.lstrip("&").replace("mut ", "")
    if ty.startswith("core::result::Result<") or ty.startswith("std::result::Result<"):
        return "result"
    if ty.startswith("core::option::Option<") or ty.startswith("std::option::Option<"):
        return "option"
    if ty.startswith("core::ops::control_flow::ControlFlow<"):
        return "cf"
    if ty == "bool":
        return "bool"
    return None


OK_DISC = {"result": "0", "cf": "0", "option": "1"}


def _plain_local(op):
    """operand -> local if it is a copy/move of a whole local (derefs allowed)."""
    p = op.get("c") or op.get("m")
    if p is None:
        return None
    for e in p[1]:
        if e != "*":
            return None
    return p[0]


def _place_local(p):
    for e in p[1]:
        if e != "*":
            return None
    return p[0]


class Guard:
    """ok/fail edges of a tracked value inside one function."""

    def __init__(self):
        self.ok = set()
        self.fail = set()
        self.sites = []  # description of where the branch happens

    def __repr__(self):
        return "Guard(ok=%s fail=%s)" % (sorted(self.ok), sorted(self.fail))


def track_value(fn, seeds):
    """seeds: list of (local, kind, neg). Follows the value to the branches it
    controls. Returns Guard with ok edges (value is Ok/Some/Continue/true^neg)
    and fail edges."""
    g = Guard()
    tracked = {}  # local -> (kind, neg)
    disc_of = {}  # local -> (kind, neg)
    work = list(seeds)
    for l, k, n in seeds:
        tracked[l] = (k, n)
    changed = True
    rounds = 0
    while changed and rounds < 20:
        changed = False
        rounds += 1
        for b, bb in enumerate(fn.bbs):
            for s in bb["s"]:
                if s["k"] != "a":
                    continue
                d = s["d"]
                if d[1]:
                    continue
                dl = d[0]
                r = s["r"]
                k = r["k"]
                src = None
                if k == "use":
                    src = _plain_local(r["o"])
                    if src in tracked and dl not in tracked:
                        tracked[dl] = tracked[src]
                        changed = True
                    if src in disc_of and dl not in disc_of:
                        disc_of[dl] = disc_of[src]
                        changed = True
                elif k == "ref":
                    src = _place_local(r["p"])
                    if src in tracked and dl not in tracked:
                        tracked[dl] = tracked[src]
                        changed = True
                elif k == "un" and r["op"] == "Not":
                    src = _plain_local(r["o"])
                    if src in tracked and tracked[src][0] == "bool" and dl not in tracked:
                        tracked[dl] = ("bool", not tracked[src][1])
                        changed = True
                elif k == "disc":
                    src = _place_local(r["p"])
                    if src in tracked and tracked[src][0] != "bool" and dl not in disc_of:
                        disc_of[dl] = tracked[src]
                        changed = True
            t = bb["t"]
            if t["k"] == "call" and t.get("f"):
                f = t["f"]
                args = t["a"]
                a0 = _plain_local(args[0]) if args else None
                if a0 is not None and a0 in tracked:
                    kind, neg = tracked[a0]
                    dl = _place_local(t["d"])
                    if f == BRANCH and kind in ("result", "option"):
                        if dl is not None and dl not in tracked:
                            tracked[dl] = ("cf", neg)
                            changed = True
                    elif f in OK_PRESERVING or f in ("core::clone::Clone::clone",):
                        nk = kind_of_type(t["dty"])
                        if nk and dl is not None and dl not in tracked:
                            tracked[dl] = (nk, neg)
                            changed = True
                    elif f in IS_OK or f in IS_ERR:
                        if dl is not None and dl not in tracked:
                            tracked[dl] = ("bool", neg ^ (f in IS_ERR))
                            changed = True
    # collect edges
    for b, bb in enumerate(fn.bbs):
        t = bb["t"]
        if t["k"] == "call" and t.get("f") in UNWRAPPING:
            a0 = _plain_local(t["a"][0]) if t["a"] else None
            if a0 in tracked and not tracked[a0][1] and t["t"] is not None:
                g.ok.add((b, t["t"]))
                g.sites.append("bb%d unwrap" % b)
        if t["k"] != "sw":
            continue
        l = _plain_local(t["o"])
        if l is None:
            continue
        if l in disc_of:
            kind, neg = disc_of[l]
            okv = OK_DISC[kind]
            listed = [v for v, _ in t["t"]]
            for v, tb in t["t"]:
                is_ok = (v == okv) != neg
                (g.ok if is_ok else g.fail).add((b, tb))
            # otherwise edge: ok only if the ok value is not listed
            if not _unreachable(fn, t["else"]):
                is_ok = (okv not in listed) != neg
                (g.ok if is_ok else g.fail).add((b, t["else"]))
            g.sites.append("bb%d switch(disc)" % b)
        elif l in tracked and tracked[l][0] == "bool":
            neg = tracked[l][1]
            for v, tb in t["t"]:
                # listed value is 0 (false)
                is_true = v != "0"
                (g.ok if (is_true != neg) else g.fail).add((b, tb))
            listed = [v for v, _ in t["t"]]
            else_true = "0" in listed
            (g.ok if (else_true != neg) else g.fail).add((b, t["else"]))
            g.sites.append("bb%d switch(bool)" % b)
    return g


def _unreachable(fn, b):
    return fn.bbs[b]["t"]["k"] == "unreachable" and not fn.bbs[b]["s"]


def call_guard(fn, b):
    """Guard edges of the result of the call terminating block b."""
    t = fn.bbs[b]["t"]
    kind = kind_of_type(t["dty"])
    dl = _place_local(t["d"])
    if kind is None or dl is None:
        return Guard()
    return track_value(fn, [(dl, kind, False)])


def local_guard(fn, local, kind="bool", neg=False):
    return track_value(fn, [(local, kind, neg)])


# ---------------------------------------------------------------------------
# sinks


def error_return_blocks(fn):
    """Blocks that assign an error to the return place."""
    out = set()
    for b, bb in enumerate(fn.bbs):
        for s in bb["s"]:
            if s["k"] == "a" and s["d"] == [0, []]:
                r = s["r"]
                if r["k"] == "agg" and r.get("ak") == "adt" and r.get("var") == "Err":
                    out.add(b)
        t = bb["t"]
        if t["k"] == "call" and t["d"] == [0, []] and t.get("f", "").endswith("FromResidual::from_residual"):
            out.add(b)
    return out


def return_blocks(fn):
    return {b for b, bb in enumerate(fn.bbs) if bb["t"]["k"] == "ret"}


def ok_value_blocks(fn):
    """Blocks assigning Ok(..)/Some(..) aggregate to the return place."""
    out = set()
    for b, bb in enumerate(fn.bbs):
        for s in bb["s"]:
            if s["k"] == "a" and s["d"] == [0, []]:
                r = s["r"]
                if r["k"] == "agg" and r.get("ak") == "adt" and r.get("var") in ("Ok", "Some"):
                    out.add(b)
    return out


def assign_field_blocks(fn, adt, field, base_local=None):
    out = set()
    for b, bb in enumerate(fn.bbs):
        for s in bb["s"]:
            if s["k"] == "a" and s["d"][1]:
                last = s["d"][1][-1]
                if isinstance(last, dict) and last.get("n") == field and last.get("a", "").startswith(adt):
                    if base_local is None or s["d"][0] == base_local:
                        out.add(b)
    return out


class Obligation:
    def __init__(self, rule, fn, desc, holds, detail="", witness=None, site=None):
        self.rule = rule
        self.fn = fn
        self.desc = desc
        self.holds = holds
        self.detail = detail
        self.witness = witness
        self.site = site

    def key(self):
        return "%s|%s|%s" % (self.rule, self.fn, self.desc)

    def to_json(self):
        return {
            "rule": self.rule,
            "fn": self.fn,
            "obligation": self.desc,
            "holds": self.holds,
            "detail": self.detail,
            "witness": self.witness,
            "site": self.site,
        }


def must_pass(fn, guard_edges_ok, sink_blocks, cut_nodes=frozenset()):
    """True iff every entry->sink path takes one of guard_edges_ok.
    Returns (holds, witness_path)."""
    par = reach(fn, cut_edges=guard_edges_ok, cut_nodes=cut_nodes)
    for s in sorted(sink_blocks):
        if s in par:
            return False, path_to(par, s)
    return True, None


def describe_path(fn, path, limit=14):
    out = []
    for b in path:
        t = fn.bbs[b]["t"]
        if t["k"] == "call":
            out.append("bb%d:%s@%s" % (b, pp.short(t.get("f") or "?").split("::")[-1], t["sp"].split(":")[1]))
    if len(out) > limit:
        out = out[: limit // 2] + ["..."] + out[-limit // 2 :]
    return " -> ".join(out)


# ---------------------------------------------------------------------------
# A11 comparison shape

_SWAP = {"Lt": "Gt", "Le": "Ge", "Gt": "Lt", "Ge": "Le", "Eq": "Eq", "Ne": "Ne"}
_NEG = {"Lt": "Ge", "Le": "Gt", "Gt": "Le", "Ge": "Lt", "Eq": "Ne", "Ne": "Eq"}
CMP_CALLS = {
    "core::cmp::PartialOrd::lt": "Lt",
    "core::cmp::PartialOrd::le": "Le",
    "core::cmp::PartialOrd::gt": "Gt",
    "core::cmp::PartialOrd::ge": "Ge",
    "core::cmp::PartialEq::eq": "Eq",
    "core::cmp::PartialEq::ne": "Ne",
}


class Cmp:
    """One comparison: op(l, r) -> bool local, with its true/false edges."""

    def __init__(self, fn, b, op, l, r, dest, sp, is_call):
        self.fn = fn
        self.b = b
        self.op = op
        self.l = l
        self.r = r
        self.dest = dest
        self.sp = sp
        self.is_call = is_call
        g = track_value(fn, [(dest, "bool", False)])
        self.true_edges = g.ok
        self.false_edges = g.fail

    def site(self):
        p = self.sp.split(":")
        return "%s:%s" % (p[0], p[1])

    def normalized(self, lhs_pred, rhs_pred, flow):
        """Return op such that `X op Y` with X matching lhs_pred and Y matching
        rhs_pred (predicates over origin sets), or None."""
        lo, ro = flow.of_operand(self.l), flow.of_operand(self.r)
        if lhs_pred(lo) and rhs_pred(ro):
            return self.op
        if lhs_pred(ro) and rhs_pred(lo):
            return _SWAP[self.op]
        return None


def comparisons(fn):
    out = []
    for b, bb in enumerate(fn.bbs):
        for s in bb["s"]:
            if s["k"] == "a" and s["r"]["k"] == "bin" and s["r"]["op"] in _SWAP and not s["d"][1]:
                out.append(Cmp(fn, b, s["r"]["op"], s["r"]["l"], s["r"]["r"], s["d"][0], s["sp"], False))
        t = bb["t"]
        if t["k"] == "call" and t.get("f") in CMP_CALLS and len(t["a"]) == 2:
            dl = _place_local(t["d"])
            if dl is not None:
                out.append(Cmp(fn, b, CMP_CALLS[t["f"]], t["a"][0], t["a"][1], dl, t["sp"], True))
    return out
