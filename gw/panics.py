"""A5 - panic sites reachable from entry points, with guard-based auto-discharge."""
import re

from . import cfg, pp
from . import valueflow as vf

PANIC_CALLS_EXACT = {
    "core::option::Option::<T>::unwrap": "unwrap",
    "core::option::Option::<T>::expect": "expect",
    "core::result::Result::<T, E>::unwrap": "unwrap",
    "core::result::Result::<T, E>::expect": "expect",
    "core::result::Result::<T, E>::unwrap_err": "unwrap_err",
    "core::result::Result::<T, E>::expect_err": "expect_err",
    "core::slice::<impl [T]>::copy_from_slice": "copy_from_slice",
    "core::slice::<impl [T]>::clone_from_slice": "clone_from_slice",
    "core::slice::<impl [T]>::split_at": "split_at",
    "core::slice::<impl [T]>::split_at_mut": "split_at_mut",
    "core::slice::<impl [T]>::swap": "slice_swap",
    "core::slice::<impl [T]>::windows": "windows",
    "core::slice::<impl [T]>::chunks": "chunks",
    "core::slice::<impl [T]>::chunks_exact": "chunks_exact",
    "core::str::<impl str>::split_at": "str_split_at",
    "alloc::vec::Vec::<T, A>::split_off": "split_off",
    "alloc::vec::Vec::<T, A>::remove": "vec_remove",
    "alloc::vec::Vec::<T, A>::insert": "vec_insert",
    "alloc::vec::Vec::<T, A>::drain": "vec_drain",
    "alloc::vec::Vec::<T, A>::swap_remove": "swap_remove",
    "alloc::string::String::remove": "string_remove",
    "alloc::string::String::insert": "string_insert",
    "alloc::string::String::truncate": "string_truncate",
    "alloc::string::String::split_off": "string_split_off",
    "alloc::string::String::drain": "string_drain",
    "core::cell::RefCell::<T>::borrow": "refcell_borrow",
    "core::cell::RefCell::<T>::borrow_mut": "refcell_borrow_mut",
    "core::iter::traits::iterator::Iterator::sum": "iter_sum",
    "core::iter::traits::iterator::Iterator::product": "iter_product",
    "core::ops::index::Index::index": "index",
    "core::ops::index::IndexMut::index_mut": "index_mut",
    "core::ops::arith::Add::add": "add_trait",
    "core::ops::arith::Sub::sub": "sub_trait",
    "core::ops::arith::Mul::mul": "mul_trait",
    "core::ops::arith::Div::div": "div_trait",
    "core::ops::arith::Rem::rem": "rem_trait",
    "core::ops::arith::AddAssign::add_assign": "add_assign_trait",
    "core::ops::arith::SubAssign::sub_assign": "sub_assign_trait",
    "core::ops::arith::MulAssign::mul_assign": "mul_assign_trait",
    "core::ops::arith::Neg::neg": "neg_trait",
}
PANIC_PREFIXES = (
    ("core::panicking::", "panic"),
    ("std::rt::begin_panic", "panic"),
    ("std::panicking::begin_panic", "panic"),
    ("core::option::expect_failed", "panic"),
    ("core::result::unwrap_failed", "panic"),
    ("core::slice::index::slice_", "panic"),
    ("core::str::slice_error_fail", "panic"),
)
INT_TYPES = ("u8", "u16", "u32", "u64", "u128", "usize", "i8", "i16", "i32", "i64", "i128", "isize")
LOG_MACROS = {"debug", "info", "warn", "error", "trace", "log", "format", "format_args", "write", "writeln", "println", "print", "eprintln", "eprint", "log_enabled"}
PANIC_MACROS = {"panic", "unreachable", "unimplemented", "todo", "assert", "assert_eq", "assert_ne", "debug_assert", "debug_assert_eq", "debug_assert_ne"}

# Index impls that are total (never panic)
TOTAL_INDEX = (
    "<serde_json::value::Value as core::ops::index::Index<I>>::index",
    "<serde_json::value::Value as core::ops::index::IndexMut<I>>::index_mut",
    "<serde_json::map::Map<alloc::string::String, serde_json::value::Value> as core::ops::index::Index",
)


class Site:
    def __init__(self, fn, b, kind, detail, sp, ops=None, term=None):
        self.fn = fn
        self.b = b
        self.kind = kind  # e.g. "unwrap", "index", "assert:Overflow:Add"
        self.detail = detail  # callee type detail (line-free)
        self.sp = sp
        self.ops = ops or []
        self.term = term
        self.discharged = None

    def site(self):
        p = self.sp.split(":")
        return "%s:%s" % (p[0], p[1])

    def what(self):
        return "%s %s" % (self.kind, self.detail)


def _arith_trait_on_ints(t):
    ga = t.get("ga") or []
    if not ga:
        return False
    ok = 0
    for g in ga:
        g = g.replace("&", "").replace("mut ", "").strip()
        if g in INT_TYPES:
            ok += 1
    return ok == len(ga) and ok > 0


def sites_of(fn):
    """All syntactic panic sites of a function body (before discharge)."""
    out = []
    for b, bb in enumerate(fn.bbs):
        if bb["cleanup"]:
            continue
        t = bb["t"]
        k = t["k"]
        if k == "assert":
            ak = t["ak"]
            if ak.startswith("Other"):
                continue
            if t.get("x") and set(t.get("mac", [])) & LOG_MACROS:
                continue
            ops = t["ops"]
            if ak in ("DivisionByZero", "RemainderByZero"):
                # the assert message carries the dividend; the divisor is the operand of the
                # compiler-generated `Eq(divisor, 0)` that defines the assert condition
                p = vf.op_place(t["c"])
                div = None
                if p is not None and not p[1]:
                    for d in fn.defs().get(p[0], []):
                        if d[0] == "a" and d[3]["r"]["k"] == "bin" and d[3]["r"]["op"] == "Eq":
                            div = d[3]["r"]["l"]
                ops = [div] if div is not None else []
            out.append(Site(fn, b, "assert:" + ak, "", t["sp"], ops, t))
        elif k == "call":
            f = t.get("f")
            if not f:
                continue
            macs = set(t.get("mac", []))
            if t.get("x") and macs & LOG_MACROS and not (macs & PANIC_MACROS):
                continue
            kind = PANIC_CALLS_EXACT.get(f)
            if kind is None:
                for pre, kd in PANIC_PREFIXES:
                    if f.startswith(pre):
                        kind = kd
                        break
            if kind is None:
                # integer abs/pow
                m = re.match(r"core::num::<impl (\w+)>::(abs|pow)$", f)
                if m:
                    kind = "int_" + m.group(2)
            if kind is None:
                continue
            r = t.get("r") or ""
            if kind in ("index", "index_mut"):
                fa = t.get("fa") or ""
                if any(r.startswith(x) for x in TOTAL_INDEX) or fa.startswith("<serde_json::value::Value as core::ops::index::Index") or fa.startswith("<serde_json::map::Map<"):
                    continue
                detail = fa or f
            elif kind.endswith("_trait"):
                if not _arith_trait_on_ints(t):
                    continue
                detail = t.get("fa", f)
            elif kind in ("iter_sum", "iter_product"):
                ga = t.get("ga") or []
                if not any(g in INT_TYPES for g in ga):
                    continue
                detail = ga[-1] if ga else ""
            elif kind == "panic":
                # drop the panic call inside derived code for unreachable hints
                if f in ("core::panicking::panic_nounwind", "core::panicking::panic_cannot_unwind"):
                    continue
                detail = ",".join(sorted(macs & PANIC_MACROS)) or f.split("::")[-1]
            else:
                detail = (t.get("ga") or [""])[0] if kind in ("unwrap", "expect") else ""
                detail = pp.short(detail)[:80]
            out.append(Site(fn, b, kind, pp.short(detail)[:120], t["sp"], t["a"], t))
    return out


# ---------------------------------------------------------------------------
# auto-discharge


def _const(fn, o):
    v = vf.const_of_operand(fn, o)
    try:
        return int(v)
    except (TypeError, ValueError):
        return None


_ARR = re.compile(r"\[[^;\[\]]+; (\d+)\]")


def _array_len_of_type(ty):
    m = _ARR.search(ty or "")
    return int(m.group(1)) if m else None


def _range_consts(fn, o):
    """Operand of a Range/RangeTo/RangeFrom aggregate -> (lo, hi) constants or None."""
    p = vf.op_place(o)
    if p is None or p[1]:
        return None
    ds = fn.defs().get(p[0], [])
    if len(ds) != 1 or ds[0][0] != "a":
        return None
    r = ds[0][3]["r"]
    if r["k"] != "agg" or r.get("ak") != "adt":
        return None
    name = r["adt"].split("::")[-1]
    vals = {n: _const(fn, oo) for n, oo in r["f"]}
    if name == "Range":
        return (vals.get("start"), vals.get("end"))
    if name == "RangeTo":
        return (0, vals.get("end"))
    if name == "RangeFrom":
        return (vals.get("start"), "open")
    if name == "RangeFull":
        return (0, "full")
    return None


LEN_CALLS = ("::len", "::count", "::capacity")


def _length_like(fn, o, depth=0):
    """True if the operand derives only from len()/constants/loop counters."""
    pr = vf.producers(fn, o)
    if not pr:
        return False
    for x in pr:
        if x[0] == "const":
            continue
        if x[0] == "call" and (x[1].endswith(LEN_CALLS) or x[1].endswith("Iterator::next") or x[1].endswith("::position") or x[1].endswith("::enumerate")):
            continue
        if x[0] == "field" and x[1] in ("()", "core::option::Option::Some"):
            continue
        if x[0] == "binop":
            continue
        return False
    return True


def _dominating_cmp(fn, site, a, b, ops):
    """Is block site.b reachable only via an edge asserting `a OP b` for OP in ops?"""
    fl = vf.get_flow(fn)
    pa, pb = vf.producers(fn, a), vf.producers(fn, b)
    for x in cfg.comparisons(fn):
        for (l, r, swap) in ((x.l, x.r, False), (x.r, x.l, True)):
            if vf.producers(fn, l) == pa and vf.producers(fn, r) == pb and pa and pb:
                op = x.op if not swap else cfg._SWAP[x.op]
                if op in ops and x.true_edges and cfg.must_pass(fn, x.true_edges, {site.b})[0]:
                    return True
                if cfg._NEG[op] in ops and x.false_edges and cfg.must_pass(fn, x.false_edges, {site.b})[0]:
                    return True
    return False


def _len_guard(fn, site, recv_op, need):
    """Is the site dominated by a test implying len(receiver) >= need?
    Recognises `X.len() OP const` comparisons where X is the same base local."""
    base = vf.strip_clones(fn, recv_op)
    if base is None:
        return None
    for x in cfg.comparisons(fn):
        for (l, r, swap) in ((x.l, x.r, False), (x.r, x.l, True)):
            cv = _const(fn, r)
            if cv is None:
                continue
            pl = vf.producers(fn, l)
            lens = [p for p in pl if p[0] == "call" and p[1].endswith("::len")]
            if len(lens) != 1 or len([p for p in pl if p[0] == "call"]) != 1:
                continue
            lt = fn.bbs[lens[0][2]]["t"]
            if vf.strip_clones(fn, lt["a"][0]) != base:
                continue
            op = x.op if not swap else cfg._SWAP[x.op]
            # edges on which len >= need is implied
            good = set()
            if (op == "Eq" and cv >= need) or (op == "Ge" and cv >= need) or (op == "Gt" and cv + 1 >= need):
                good |= x.true_edges
            if (op == "Ne" and cv >= need) or (op == "Lt" and cv >= need) or (op == "Le" and cv + 1 >= need):
                good |= x.false_edges
            if good and cfg.must_pass(fn, good, {site.b})[0]:
                return "dominated by %s.len() %s %d" % (fn.local_name(base), op, cv)
    return None


def _index_site_of_slice(fn, o):
    """If operand is a slice reference produced by Index::index with a constant range
    return (recv_type, lo, hi, block)."""
    pr = vf.producers(fn, o)
    idx = [p for p in pr if p[0] == "call" and p[1] in ("core::ops::index::Index::index", "core::ops::index::IndexMut::index_mut")]
    if len(idx) != 1:
        return None
    t = fn.bbs[idx[0][2]]["t"]
    if len(t["a"]) != 2:
        return None
    rc = _range_consts(fn, t["a"][1])
    if rc is None:
        return None
    return (t.get("ga") or [""])[0], rc[0], rc[1], idx[0][2]


def _const_lower_bound(fn, site, a, need):
    """site dominated by a comparison implying a >= need (unsigned)."""
    pa = vf.producers(fn, a)
    if not pa:
        return None
    for x in cfg.comparisons(fn):
        for (l, r, swap) in ((x.l, x.r, False), (x.r, x.l, True)):
            cv = _const(fn, r)
            if cv is None or vf.producers(fn, l) != pa:
                continue
            op = x.op if not swap else cfg._SWAP[x.op]
            good = set()
            if (op == "Gt" and cv + 1 >= need) or (op == "Ge" and cv >= need) or (op == "Ne" and cv == 0 and need == 1) or (op == "Eq" and cv >= need):
                good |= x.true_edges
            if (op == "Le" and cv + 1 >= need) or (op == "Lt" and cv >= need) or (op == "Eq" and cv == 0 and need == 1):
                good |= x.false_edges
            if good and cfg.must_pass(fn, good, {site.b})[0]:
                return "dominated by operand %s %d" % (op, cv)
    return None


def _closures_passed(fn, t):
    out = []
    for a in t["a"]:
        p = vf.op_place(a)
        if not p or p[1]:
            continue
        for bb in fn.bbs:
            for s in bb["s"]:
                if s["k"] == "a" and s["d"] == [p[0], []] and s["r"]["k"] == "agg" and s["r"].get("ak") == "closure":
                    out.append((s["r"]["adt"], s["r"]["f"]))
    return out


def _filtered_le_len(fn, idx_op, recv_op, db, strict=False):
    """idx comes (through `?` / ok_or) from `Option::filter(|s| *s <= V.len())` where V is the
    receiver that is about to be split/indexed: the bound check lives in the filter closure."""
    base = vf.strip_clones(fn, recv_op)
    if base is None or db is None:
        return None
    calls = [p for p in vf.producers(fn, idx_op) if p[0] == "call"]
    if len(calls) != 1 or not calls[0][1].endswith("Option::<T>::filter"):
        return None
    ft = fn.bbs[calls[0][2]]["t"]
    cls = _closures_passed(fn, ft)
    if len(cls) != 1 or cls[0][0] not in db.fns:
        return None
    g = db.fns[cls[0][0]]
    caps = cls[0][1]
    if any(bb["t"]["k"] == "sw" for bb in g.bbs):
        return None
    cmps = cfg.comparisons(g)
    if len(cmps) != 1:
        return None
    x = cmps[0]
    want = ("Lt",) if strict else ("Le", "Lt")
    for (l, r, swap) in ((x.l, x.r, False), (x.r, x.l, True)):
        op = x.op if not swap else cfg._SWAP[x.op]
        if op not in want:
            continue
        pl, pr = vf.producers(g, l), vf.producers(g, r)
        if not any(y[0] == "arg" and y[1] == 2 for y in pl):
            continue
        lens = [y for y in pr if y[0] == "call" and y[1].endswith("::len")]
        if len(lens) != 1:
            continue
        lt = g.bbs[lens[0][2]]["t"]
        capf = [y for y in vf.producers(g, lt["a"][0]) if y[0] == "field" and y[1] == g.id]
        if len(capf) != 1:
            continue
        idx = capf[0][2]
        cap_ops = [o for n, o in caps if n == idx]
        if len(cap_ops) != 1:
            continue
        if vf.strip_clones(fn, cap_ops[0]) != base and vf.base_local_of_ref(fn, cap_ops[0]) != base:
            continue
        return "index filtered by the closure `|s| *s %s %s.len()` before use" % ("<" if op == "Lt" else "<=", fn.local_name(base))
    return None


def _saturating_sub_of_len(fn, idx_op, recv_op):
    """idx = recv.len().saturating_sub(..) <= recv.len()"""
    base = vf.strip_clones(fn, recv_op)
    calls = [p for p in vf.producers(fn, idx_op) if p[0] == "call"]
    if base is None or len(calls) != 1 or not calls[0][1].endswith("saturating_sub"):
        return None
    st = fn.bbs[calls[0][2]]["t"]
    lens = [p for p in vf.producers(fn, st["a"][0]) if p[0] == "call"]
    if len(lens) != 1 or not lens[0][1].endswith("::len"):
        return None
    lt = fn.bbs[lens[0][2]]["t"]
    if vf.strip_clones(fn, lt["a"][0]) != base:
        return None
    return "index = %s.len().saturating_sub(..) <= len" % fn.local_name(base)


_OPT_VIEWS = ("core::option::Option::<T>::as_ref", "core::option::Option::<T>::as_mut", "core::option::Option::<T>::as_deref",
              "core::clone::Clone::clone", "core::option::Option::<T>::cloned", "core::option::Option::<T>::copied")


def _option_field_place(fn, o, depth=0):
    """Operand holding (a view of) an Option stored in a struct field ->
    (root local of the struct, field name) or None.  Follows as_ref()/clone()/&/copies."""
    p = vf.op_place(o)
    if p is None or depth > 10:
        return None
    flds = [e for e in p[1] if isinstance(e, dict) and "n" in e]
    if flds:
        if len(flds) != 1:
            return None
        return (vf.strip_clones(fn, {"c": [p[0], []]}), flds[0]["n"])
    ds = fn.defs().get(p[0], [])
    if len(ds) != 1:
        return None
    d = ds[0]
    if d[0] == "a" and not d[3]["d"][1]:
        r = d[3]["r"]
        if r["k"] == "ref":
            q = r["p"]
            return _option_field_place(fn, {"c": q}, depth + 1)
        if r["k"] == "use":
            return _option_field_place(fn, r["o"], depth + 1)
    elif d[0] == "call":
        t = d[2]
        if t.get("f") in _OPT_VIEWS and t["a"]:
            return _option_field_place(fn, t["a"][0], depth + 1)
    return None


def _is_some_predicate(db, fid):
    """If workspace fn `fid` is `fn(&self) -> bool { self.<field>.is_some() }` return the field name."""
    g = db.fns.get(fid) if db else None
    if g is None or g.argc != 1 or g.locals[0]["ty"] != "bool":
        return None
    calls = list(g.calls())
    if len(calls) != 1 or not (calls[0][1].get("f") or "").endswith("Option::<T>::is_some") or calls[0][1]["d"] != [0, []]:
        return None
    if any(bb["t"]["k"] == "sw" for bb in g.bbs):
        return None
    pl = _option_field_place(g, calls[0][1]["a"][0])
    if pl and pl[0] == 1:
        return pl[1]
    return None


def _is_some_guard(fn, site, db):
    """unwrap/expect of an Option field that a dominating `is_some()` test (direct, through a
    one-line predicate method, or in the `.filter(..)` closure feeding this `.map(..)` closure)
    has shown to be Some."""
    if not site.ops:
        return None
    target = _option_field_place(fn, site.ops[0])
    if target is None or target[0] is None:
        return None
    for b, t in fn.calls():
        f = t.get("f") or ""
        if not t["a"]:
            continue
        fld = None
        if f in _OPT_VIEWS and b != site.b:
            # `match self.f.as_mut() { Some(_) => self.f.as_mut().unwrap() .. }`: the Some arm of a view of the same field
            pl = _option_field_place(fn, t["a"][0])
            if pl and pl == target and vf.op_place(site.ops[0]) and t["d"][0] != vf.op_place(site.ops[0])[0]:
                fld = pl[1]
        elif f.endswith("Option::<T>::is_some"):
            pl = _option_field_place(fn, t["a"][0])
            if pl and pl == target:
                fld = pl[1]
        else:
            pf = _is_some_predicate(db, f)
            if pf == target[1] and vf.strip_clones(fn, t["a"][0]) == target[0]:
                fld = pf
        if fld is None:
            continue
        g = cfg.call_guard(fn, b)
        if g.ok and cfg.must_pass(fn, g.ok, {site.b})[0]:
            return "dominated by the true edge of %s on the same field `%s`" % (f.split("::")[-1], fld)
    # closure of `.map(..)` fed by `.filter(|p| p.<field>.is_some())`
    if fn.dk == "Closure" and db is not None and fn.parent in db.fns and target[0] == 2:
        par = db.fns[fn.parent]
        for b, t in par.calls():
            if fn.id not in [c_[0] for c_ in _closures_passed(par, t)] or not t["a"]:
                continue
            for p in vf.producers(par, t["a"][0]):
                if p[0] == "call" and p[1].endswith("Iterator::filter"):
                    ft = par.bbs[p[2]]["t"]
                    for cid, _caps in _closures_passed(par, ft):
                        cg = db.fns.get(cid)
                        if cg is None or any(bb["t"]["k"] == "sw" for bb in cg.bbs):
                            continue
                        cs = list(cg.calls())
                        if len(cs) == 1 and (cs[0][1].get("f") or "").endswith("Option::<T>::is_some") and cs[0][1]["d"] == [0, []]:
                            pl = _option_field_place(cg, cs[0][1]["a"][0])
                            if pl and pl[0] == 2 and pl[1] == target[1]:
                                return "items were filtered by `|p| p.%s.is_some()` directly before this map" % pl[1]
    return None


def dominated_by_cmp(fn, block, lhs_call_suffix, op, rhs):
    """Is `block` reachable only through an edge asserting  <value of a call ending in lhs_call_suffix> OP rhs ?
    rhs: an int constant, or the name suffix of a call. Used to tie an allow-list entry to its guard."""
    for x in cfg.comparisons(fn):
        for (l, r, swap) in ((x.l, x.r, False), (x.r, x.l, True)):
            pl, pr = vf.producers(fn, l), vf.producers(fn, r)
            if not any(p[0] == "call" and p[1].endswith(lhs_call_suffix) for p in pl):
                continue
            if isinstance(rhs, int):
                if _const(fn, r) != rhs:
                    continue
            elif not any(p[0] == "call" and p[1].endswith(rhs) for p in pr):
                continue
            xop = x.op if not swap else cfg._SWAP[x.op]
            edges = set()
            if xop == op:
                edges = x.true_edges
            elif cfg._NEG[xop] == op:
                edges = x.false_edges
            if edges and cfg.must_pass(fn, edges, {block})[0]:
                return True
    return False


def discharge(site, db=None):
    """Return a reason string if a recognised guard makes the site safe."""
    fn = site.fn
    t = site.term
    k = site.kind
    if k == "vec_drain" and len(t["a"]) == 2:
        rc = _range_consts(fn, t["a"][1])
        if rc is not None and rc[1] == "full":
            return "drain(..) over the full range"
    if k in ("copy_from_slice", "clone_from_slice") and len(t["a"]) == 2:
        dst_ty = fn.locals[vf.op_place(t["a"][0])[0]]["ty"] if vf.op_place(t["a"][0]) else ""
        dbase = vf.strip_clones(fn, t["a"][0])
        n = _array_len_of_type(fn.locals[dbase]["ty"]) if dbase is not None else None
        src = _index_site_of_slice(fn, t["a"][1])
        dsl = _index_site_of_slice(fn, t["a"][0])
        if dsl is not None and isinstance(dsl[2], int) and dsl[1] is not None:
            n = dsl[2] - dsl[1]
        if n is not None and src is not None and isinstance(src[2], int) and src[1] is not None and src[2] - src[1] == n:
            return "destination [_; %d] and source slice of constant length %d (the slicing itself is a separate site)" % (n, n)
    if k == "assert:BoundsCheck":
        ln, ix = _const(fn, site.ops[0]), _const(fn, site.ops[1])
        if ln is not None and ix is not None and ix < ln:
            return "constant index %d < constant length %d" % (ix, ln)
        # len operand from a fixed-size array
        return None
    if k in ("index", "index_mut"):
        recv_ty = (t.get("ga") or [""])[0]
        n = _array_len_of_type(recv_ty)
        if len(t["a"]) == 2:
            rc = _range_consts(fn, t["a"][1])
            if rc is not None:
                lo, hi = rc
                if hi == "full":
                    return "full range"
                if n is not None and lo is not None and (hi == "open" and lo <= n or isinstance(hi, int) and lo <= hi <= n):
                    return "constant range %s..%s within fixed-size array of %d" % (lo, hi, n)
                need = hi if isinstance(hi, int) else lo
                if need is not None:
                    g = _len_guard(fn, site, t["a"][0], need)
                    if g:
                        return g
                    # receiver produced by Reader::read_fixed_bytes(const n >= need)
                    for p in vf.producers(fn, t["a"][0]):
                        if p[0] == "call" and p[1] == "grin_core::ser::Reader::read_fixed_bytes":
                            cn = _const(fn, fn.bbs[p[2]]["t"]["a"][1])
                            if cn is not None and cn >= need:
                                return "receiver is read_fixed_bytes(%d): exactly that many bytes or Err" % cn
            else:
                iv = _const(fn, t["a"][1])
                if iv is not None:
                    if n is not None and iv < n:
                        return "constant index within fixed-size array"
                    g = _len_guard(fn, site, t["a"][0], iv + 1)
                    if g:
                        return g
        return None
    if k.startswith("assert:Overflow:") or k in ("add_trait", "sub_trait", "mul_trait", "add_assign_trait", "sub_assign_trait"):
        ops = site.ops
        if len(ops) == 2:
            lty = None
            # length arithmetic on usize
            for o in ops:
                p = vf.op_place(o)
                if p is not None and not p[1]:
                    lty = fn.locals[p[0]]["ty"]
            if (lty or "").replace("&", "") == "usize" or all(_const(fn, o) is not None or (vf.op_place(o) and fn.locals[vf.op_place(o)[0]]["ty"].replace("&", "") == "usize") for o in ops):
                if all(_length_like(fn, o) for o in ops):
                    if "Sub" in k or k.startswith("sub"):
                        if _dominating_cmp(fn, site, ops[0], ops[1], ("Ge", "Gt")):
                            return "usize subtraction dominated by a >= b"
                        return None
                    return "usize length arithmetic (lengths/constants/loop counters)"
            if "Sub" in k or k.startswith("sub"):
                if _dominating_cmp(fn, site, ops[0], ops[1], ("Ge", "Gt")):
                    return "subtraction dominated by a >= b on the same operands"
                cv = _const(fn, ops[1])
                if cv is not None:
                    g = _const_lower_bound(fn, site, ops[0], cv)
                    if g:
                        return g
        return None
    if k in ("assert:DivisionByZero", "assert:RemainderByZero"):
        if not site.ops:
            return None
        v = _const(fn, site.ops[0])
        if v is not None and v != 0:
            return "division by non-zero constant"
        g = _const_lower_bound(fn, site, site.ops[0], 1)
        if g:
            return "divisor " + g
        return None
    if k in ("unwrap", "expect"):
        return _is_some_guard(fn, site, db)
    if k in ("split_off", "string_split_off") and len(t["a"]) == 2:
        g = _filtered_le_len(fn, t["a"][1], t["a"][0], db) or _saturating_sub_of_len(fn, t["a"][1], t["a"][0])
        if g:
            return g
        return None
    if k == "windows" and len(t["a"]) == 2:
        g = _const_lower_bound(fn, site, t["a"][1], 1)
        if g:
            return "window size " + g
        return None
    return None


def all_sites(fns, db=None):
    out = []
    for f in fns:
        for s in sites_of(f):
            s.discharged = discharge(s, db)
            out.append(s)
    return out
