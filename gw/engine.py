"""Check runner: collects rule results, matches known findings, writes evidence."""
import json
import os
import sys
import time

from . import facts

VERIF = facts.VERIF
KNOWN_FILE = os.path.join(VERIF, "known_findings.json")


def load_known():
    if not os.path.exists(KNOWN_FILE):
        return []
    with open(KNOWN_FILE) as fh:
        return json.load(fh)["findings"]


class Finding:
    def __init__(self, rule, fn, what, site="", detail="", witness=None):
        self.rule = rule  # e.g. "C09.R1"
        self.fn = fn
        self.what = what  # line-free description; part of key
        self.site = site  # file:line (not part of key)
        self.detail = detail
        self.witness = witness
        self.ordinal = 0

    def key(self):
        k = "%s|%s|%s" % (self.rule, self.fn, self.what)
        if self.ordinal:
            k += "|#%d" % self.ordinal
        return k

    def to_json(self):
        return {
            "key": self.key(),
            "rule": self.rule,
            "fn": self.fn,
            "what": self.what,
            "site": self.site,
            "detail": self.detail,
            "witness": self.witness,
        }


class Run:
    def __init__(self, prop, tier="quick"):
        self.prop = prop
        self.tier = tier
        self.t0 = time.time()
        self.rules = {}  # rule id -> dict(desc, instances, floor, ok, samples)
        self.findings = []
        self.errors = []  # fail-closed conditions (anchor missing etc.)
        self.notes = []
        self.obligations = 0
        self.discharged = 0
        self.samples = []
        self.trusted = []
        self.assumptions = []
        self.not_decided = []
        self.extra = {}

    # -- reporting helpers
    def rule(self, rid, desc, floor=0):
        r = self.rules.setdefault(rid, {"desc": desc, "instances": 0, "floor": floor, "held": 0, "items": []})
        return r

    def instance(self, rid, item, held=True):
        r = self.rules[rid]
        r["instances"] += 1
        self.obligations += 1
        if held:
            r["held"] += 1
            self.discharged += 1
        if len(r["items"]) < 400:
            r["items"].append({"item": item, "held": held})

    def finding(self, f):
        self.findings.append(f)

    def error(self, msg):
        if msg not in self.errors:
            self.errors.append(msg)

    def note(self, msg):
        self.notes.append(msg)

    # -- finish
    def finish(self):
        # ordinals among equal keys
        seen = {}
        for f in self.findings:
            base = "%s|%s|%s" % (f.rule, f.fn, f.what)
            n = seen.get(base, 0)
            f.ordinal = n
            seen[base] = n + 1
        known = [k for k in load_known() if k["property"] == self.prop]
        known_keys = {k["key"]: k for k in known if k.get("status") == "known"}
        new = []
        matched = set()
        for f in self.findings:
            k = f.key()
            if k in known_keys:
                matched.add(k)
                print("KNOWN-FINDING: property=%s %s [%s] %s" % (self.prop, k, f.site, known_keys[k].get("what", "")))
            else:
                new.append(f)
        stale = [k for k in known_keys if k not in matched]
        for rid, r in sorted(self.rules.items()):
            status = "ok"
            if r["instances"] < r["floor"]:
                status = "BELOW FLOOR"
                self.errors.append(
                    "rule %s matched %d instances, floor is %d (anchor missing or refactored: fail closed)"
                    % (rid, r["instances"], r["floor"])
                )
            print(
                "rule %-8s %-70s instances=%d held=%d floor=%d %s"
                % (rid, r["desc"][:70], r["instances"], r["held"], r["floor"], status)
            )
        for n in self.notes:
            print("note: " + n)
        for k in stale:
            print("note: known finding no longer reported (repaired or moved): %s" % k)
        if os.environ.get("GW_MUTANT_RUN"):
            # sub-run of the mutation battery: report findings on stdout only, write nothing
            for f in new:
                print("MUTANT-FINDING " + f.key())
            for e in self.errors:
                print("MUTANT-ERROR " + e[:300])
            return 1 if (new or self.errors) else 0
        replay_dir = os.path.join(VERIF, "evidence", "replay")
        os.makedirs(replay_dir, exist_ok=True)
        rc = 0
        violations = 0
        for f in new:
            violations += 1
            path = os.path.join(replay_dir, "%s-%s.json" % (self.prop, _slug(f.key())))
            with open(path, "w") as fh:
                json.dump(f.to_json(), fh, indent=1)
            print("finding: %s at %s: %s" % (f.key(), f.site, f.detail))
            print("VIOLATION property=%s replay=%s" % (self.prop, path))
            rc = 1
        for e in self.errors:
            violations += 1
            path = os.path.join(replay_dir, "%s-%s.json" % (self.prop, _slug("error-" + e)[:80]))
            with open(path, "w") as fh:
                json.dump({"error": e}, fh, indent=1)
            print("check-error: " + e)
            print("VIOLATION property=%s replay=%s" % (self.prop, path))
            rc = 1
        wall = time.time() - self.t0
        distinct = sum(1 for r in self.rules.values() for _ in r["items"])
        cov = {
            "explanation": "static analysis of /repo's current source via rustc mir_built facts; rules: "
            + "; ".join("%s: %s" % (rid, r["desc"]) for rid, r in sorted(self.rules.items())),
            "evaluations": max(self.obligations, 1),
            "distinct_nontrivial": max(distinct, 0),
            "rule": "one evaluation = one rule instance (call site / guard / field / path obligation) found in /repo and decided; distinct = distinct (rule, function, site) instances",
            "obligations": self.obligations,
            "discharged": self.discharged,
            "samples": self.samples[:12]
            or [it for r in self.rules.values() for it in r["items"][:3]][:12],
            "per_rule": {
                rid: {"desc": r["desc"], "instances": r["instances"], "held": r["held"], "floor": r["floor"]}
                for rid, r in sorted(self.rules.items())
            },
            "known_findings_reported": sorted(matched),
            "new_findings": [f.to_json() for f in new][:50],
            "not_decided": self.not_decided,
            "trusted_base": self.trusted
            or [
                "rustc nightly mir_built is a faithful CFG of the source",
                "dependencies are not analysed (tables of panicking std APIs / storage effect boundary)",
            ],
            "checker_cmd": "bin/check %s --tier %s" % (self.prop, self.tier),
            "facts_dir": os.path.basename(self.extra.get("facts_dir", "")),
        }
        for k, v in self.extra.items():
            if k != "facts_dir":
                cov[k] = v
        ev = {
            "property_id": self.prop,
            "tier": self.tier,
            "seed": int(os.environ.get("VERIF_SEED", "0") or 0),
            "level": "other",
            "coverage": cov,
            "assumptions": self.assumptions,
            "wall_s": round(wall, 2),
            "violations": violations,
        }
        os.makedirs(os.path.join(VERIF, "evidence"), exist_ok=True)
        with open(os.path.join(VERIF, "evidence", "%s.json" % self.prop), "w") as fh:
            json.dump(ev, fh, indent=1)
        print(
            "%s: %d obligations, %d discharged, %d known findings, %d new; %.1fs"
            % (self.prop, self.obligations, self.discharged, len(matched), violations, wall)
        )
        return rc


def _slug(s):
    out = []
    for c in s:
        out.append(c if c.isalnum() else "_")
    return "".join(out)[:150]
