// throw-away triage probe (design phase): C11, proof request taken from the reply slate
#[macro_use]
extern crate log;
extern crate grin_wallet_controller as wallet;
extern crate grin_wallet_impls as impls;
extern crate grin_wallet_libwallet as libwallet;

use self::libwallet::{InitTxArgs, Slate};
use ed25519_dalek::{Keypair, PublicKey as DalekPublicKey, SecretKey as DalekSecretKey, Signer};
use grin_util::static_secp_instance;
use impls::test_framework::{self, LocalWalletClient};
use std::thread;

#[macro_use]
mod common;
use common::{clean_output_dir, create_wallet_proxy, setup};

fn probe_impl(test_dir: &'static str) -> Result<(), libwallet::Error> {
	let mut wallet_proxy = create_wallet_proxy(test_dir);
	let chain = wallet_proxy.chain.clone();
	create_wallet_and_add!(client1, wallet1, mask1_i, test_dir, "wallet1", None, &mut wallet_proxy, false);
	let mask1 = (&mask1_i).as_ref();
	create_wallet_and_add!(client2, wallet2, mask2_i, test_dir, "wallet2", None, &mut wallet_proxy, false);
	let mask2 = (&mask2_i).as_ref();
	thread::spawn(move || { if let Err(e) = wallet_proxy.run() { error!("Wallet Proxy error: {}", e); } });
	test_framework::award_blocks_to_wallet(&chain, wallet1.clone(), mask1, 10, false)?;

	let mut address = None;
	wallet::controller::owner_single_use(Some(wallet2.clone()), mask2, None, |api, m| {
		address = Some(api.get_slatepack_address(m, 0)?);
		Ok(())
	})?;
	let amount = 60_000_000_000u64;
	wallet::controller::owner_single_use(Some(wallet1.clone()), mask1, None, |api, m| {
		let args = InitTxArgs { src_acct_name: None, amount, minimum_confirmations: 2, max_outputs: 500, num_change_outputs: 1, selection_strategy_is_use_all: true, payment_proof_recipient_address: address.clone(), ..Default::default() };
		let s1 = api.init_send_tx(m, args)?;
		let requested = s1.payment_proof.as_ref().unwrap().receiver_address;
		let mut s2: Slate = client1.send_tx_slate_direct("wallet2", &s1)?;
		// the recipient swaps in another key it controls and signs with that
		let sk = DalekSecretKey::from_bytes(&[7u8; 32]).unwrap();
		let pk: DalekPublicKey = (&sk).into();
		let kp = Keypair { public: pk, secret: sk };
		let excess = { let secp = static_secp_instance(); let secp = secp.lock(); let mut t = s2.clone(); for pd in s1.participant_data.iter() { t.participant_data.push(pd.clone()); } t.calc_excess(&secp)? };
		let p = s2.payment_proof.as_mut().unwrap();
		let mut msg = Vec::new();
		msg.extend_from_slice(&amount.to_be_bytes());
		msg.extend_from_slice(&excess.0);
		msg.extend_from_slice(&p.sender_address.to_bytes());
		p.receiver_address = pk;
		p.receiver_signature = Some(kp.sign(&msg));
		println!("PROBE C11 requested raddr {:?}", requested.to_bytes());
		println!("PROBE C11 forged    raddr {:?}", pk.to_bytes());
		// sync-send ordering used by Owner::init_send_tx(send_args), command::send and the repo's own test
		let l = api.tx_lock_outputs(m, &s2);
		let f = api.finalize_tx(m, &s2);
		println!("PROBE C11 lock ok {} finalize with swapped recipient ok? {} ({:?})", l.is_ok(), f.is_ok(), f.as_ref().err().map(|e| format!("{}", e)));
		if let Ok(s3) = f {
			api.post_tx(m, &s3, true)?;
		}
		Ok(())
	})?;
	test_framework::award_blocks_to_wallet(&chain, wallet1.clone(), mask1, 3, false)?;
	wallet::controller::owner_single_use(Some(wallet1.clone()), mask1, None, |api, m| {
		let (_, txs) = api.retrieve_txs(m, true, None, None, None)?;
		for t in txs.iter().filter(|t| t.payment_proof.is_some()) {
			let pp = api.retrieve_payment_proof(m, true, Some(t.id), None);
			match pp {
				Ok(pp) => {
					println!("PROBE C11 exported proof recipient {:?}", pp.recipient_address.pub_key.to_bytes());
					println!("PROBE C11 exported proof verifies: {:?}", api.verify_payment_proof(m, &pp).is_ok());
				}
				Err(e) => println!("PROBE C11 export err {}", e),
			}
		}
		Ok(())
	})?;
	let _ = client2;
	Ok(())
}

#[test]
fn probe3() {
	let test_dir = "test_output/probe3";
	setup(test_dir);
	if let Err(e) = probe_impl(test_dir) { println!("PROBE error: {}", e); }
	clean_output_dir(test_dir);
}
