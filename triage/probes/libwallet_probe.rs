// throw-away triage probes (design phase); not part of any registered check
use grin_wallet_libwallet as lw;
use grin_core::global;
use lw::{Slate, Slatepacker, SlatepackerArgs, SlatepackAddress, VersionedSlate, SlateVersion, VersionedBinSlate};
use std::convert::TryFrom;
use std::panic::catch_unwind;

fn setup() { global::set_local_chain_type(global::ChainTypes::AutomatedTesting); }

#[test]
fn c10_json_enc_slatepack_leaks_sender() {
    setup();
    let sender = SlatepackAddress::random();
    let recip = SlatepackAddress::random();
    let packer = Slatepacker::new(SlatepackerArgs { sender: Some(sender.clone()), recipients: vec![recip], dec_key: None });
    let slate = Slate::blank(2, false);
    let sp = packer.create_slatepack(&slate).unwrap();
    let json = serde_json::to_string(&sp).unwrap();
    let s = String::try_from(&sender).unwrap();
    println!("JSON: {}", json);
    println!("C10 leak? json contains sender address: {}", json.contains(&s));
    let armored = packer.armor_slatepack(&sp).unwrap();
    println!("armored contains sender: {}", armored.contains(&s));
}

#[test]
fn c09_panics() {
    setup();
    let r = catch_unwind(|| { let _ = lw::SlatepackArmor::decode(b"BEGINSLATEPACK. abc"); });
    println!("C09 armor no-second-period panics: {}", r.is_err());
    let r = catch_unwind(|| { let _ = lw::SlatepackArmor::decode(b"BEGINSLATEPACK. . ENDSLATEPACK."); });
    println!("C09 armor empty payload panics: {}", r.is_err());
    // V4 JSON with a short rsig
    let slate = Slate::blank(2, false);
    let v = VersionedSlate::into_version(slate, SlateVersion::V4).unwrap();
    let mut j: serde_json::Value = serde_json::to_value(&v).unwrap();
    j["proof"] = serde_json::json!({"saddr":"d03c09e9c19bb74aa9ea44e0fe5ae237a9bf40bddf0941064a80913a4459c8bb","raddr":"d03c09e9c19bb74aa9ea44e0fe5ae237a9bf40bddf0941064a80913a4459c8bb","rsig":"00"});
    let s = j.to_string();
    let r = catch_unwind(move || { let _ : Result<VersionedSlate,_> = serde_json::from_str(&s); });
    println!("C09 short rsig hex panics: {}", r.is_err());
}

#[test]
fn c08_bin_drops_feat_args_for_nrd() {
    setup();
    let mut slate = Slate::blank(2, false);
    slate.kernel_features = 3;
    slate.kernel_features_args = Some(Default::default());
    slate.kernel_features_args.as_mut().unwrap().lock_height = 77;
    let packer = Slatepacker::new(SlatepackerArgs { sender: None, recipients: vec![], dec_key: None });
    let sp = packer.create_slatepack(&slate).unwrap();
    let back = packer.get_slate(&sp).unwrap();
    println!("C08 feat=3 args before {:?} after-binary {:?}", slate.kernel_features_args, back.kernel_features_args);
    let json = serde_json::to_string(&slate).unwrap();
    let backj = Slate::deserialize_upgrade(&json).unwrap();
    println!("C08 feat=3 args after-json {:?}", backj.kernel_features_args);
    let _ = VersionedBinSlate::try_from(VersionedSlate::into_version(slate, SlateVersion::V4).unwrap());
}
