// throw-away triage probes (design phase); not part of any registered check
#[macro_use]
extern crate log;
extern crate grin_wallet_controller as wallet;
extern crate grin_wallet_impls as impls;
extern crate grin_wallet_libwallet as libwallet;

use self::libwallet::{InitTxArgs, Slate, BlockFees, OutputStatus, TxLogEntryType, RetrieveTxQueryArgs};
use impls::test_framework::{self, LocalWalletClient};
use std::thread;

#[macro_use]
mod common;
use common::{clean_output_dir, create_wallet_proxy, setup};

fn probe_impl(test_dir: &'static str) -> Result<(), libwallet::Error> {
	let mut wallet_proxy = create_wallet_proxy(test_dir);
	let chain = wallet_proxy.chain.clone();
	create_wallet_and_add!(client1, wallet1, mask1_i, test_dir, "wallet1", None, &mut wallet_proxy, false);
	let mask1 = (&mask1_i).as_ref();
	create_wallet_and_add!(client2, wallet2, mask2_i, test_dir, "wallet2", None, &mut wallet_proxy, false);
	let mask2 = (&mask2_i).as_ref();
	thread::spawn(move || { if let Err(e) = wallet_proxy.run() { error!("Wallet Proxy error: {}", e); } });

	test_framework::award_blocks_to_wallet(&chain, wallet1.clone(), mask1, 10, false)?;

	// ---- C19: max_creation_timestamp in the distant past should return nothing
	wallet::controller::owner_single_use(Some(wallet1.clone()), mask1, None, |api, m| {
		let _ = api.retrieve_summary_info(m, true, 1)?;
		let mut q = RetrieveTxQueryArgs::default();
		q.max_creation_timestamp = Some(chrono::Utc::now() - chrono::Duration::days(3650));
		let (_, txs) = api.retrieve_txs(m, false, None, None, Some(q))?;
		println!("PROBE C19 max_creation_timestamp(10y ago) returned {} entries (expected 0)", txs.len());
		api.create_account_path(m, "other")?;
		api.set_active_account(m, "other")?;
		let (_, txs) = api.retrieve_txs(m, false, None, None, Some(RetrieveTxQueryArgs::default()))?;
		println!("PROBE C19 query on empty account 'other' returned {} entries (expected 0)", txs.len());
		let (_, txs) = api.retrieve_txs(m, false, None, None, None)?;
		println!("PROBE C19 legacy path on account 'other' returned {} entries", txs.len());
		api.set_active_account(m, "default")?;
		Ok(())
	})?;

	// ---- C07: build_coinbase naming an existing unspent output
	let mut victim = None;
	wallet::controller::owner_single_use(Some(wallet1.clone()), mask1, None, |api, m| {
		let (_, outs) = api.retrieve_outputs(m, false, true, None)?;
		let o = outs.iter().find(|o| o.output.status == OutputStatus::Unspent).unwrap();
		println!("PROBE C07 victim before: key {} status {} value {} height {}", o.output.key_id, o.output.status, o.output.value, o.output.height);
		victim = Some(o.output.key_id.clone());
		Ok(())
	})?;
	wallet::controller::foreign_single_use(wallet1.clone(), mask1_i.clone(), |api| {
		let r = api.build_coinbase(&BlockFees { fees: 7, height: 9999, key_id: victim.clone() });
		println!("PROBE C07 build_coinbase(existing key) ok? {}", r.is_ok());
		Ok(())
	})?;
	wallet::controller::owner_single_use(Some(wallet1.clone()), mask1, None, |api, m| {
		let (_, outs) = api.retrieve_outputs(m, true, false, None)?;
		let o = outs.iter().find(|o| Some(o.output.key_id.clone()) == victim).unwrap();
		println!("PROBE C07 victim after : key {} status {} value {} height {}", o.output.key_id, o.output.status, o.output.value, o.output.height);
		Ok(())
	})?;

	// ---- C03: two slates in flight, lock A, lock B; then replay lock A
	let amount = 30_000_000_000;
	wallet::controller::owner_single_use(Some(wallet1.clone()), mask1, None, |api, m| {
		let args = InitTxArgs { src_acct_name: None, amount, minimum_confirmations: 2, max_outputs: 500, num_change_outputs: 1, selection_strategy_is_use_all: false, ..Default::default() };
		let sa = api.init_send_tx(m, args.clone())?;
		let sb = api.init_send_tx(m, args)?;
		let ra = api.tx_lock_outputs(m, &sa);
		let (_, outs) = api.retrieve_outputs(m, false, false, None)?;
		let la: Vec<_> = outs.iter().filter(|o| o.output.status == OutputStatus::Locked).map(|o| (o.output.key_id.clone(), o.output.tx_log_entry)).collect();
		let rb = api.tx_lock_outputs(m, &sb);
		let (_, outs) = api.retrieve_outputs(m, false, false, None)?;
		let lb: Vec<_> = outs.iter().filter(|o| o.output.status == OutputStatus::Locked).map(|o| (o.output.key_id.clone(), o.output.tx_log_entry)).collect();
		println!("PROBE C03 lock A ok {} locked {:?}", ra.is_ok(), la);
		println!("PROBE C03 lock B ok {} locked {:?}", rb.is_ok(), lb);
		let (_, txs) = api.retrieve_txs(m, false, None, None, None)?;
		let live: Vec<_> = txs.iter().filter(|t| t.tx_type == TxLogEntryType::TxSent && !t.confirmed).map(|t| (t.id, t.tx_slate_id, t.num_inputs)).collect();
		println!("PROBE C03 live TxSent entries: {:?}", live);
		let rr = api.tx_lock_outputs(m, &sa);
		let (_, txs) = api.retrieve_txs(m, false, None, Some(sa.id), None)?;
		println!("PROBE C03 replay lock A ok {} -> entries for slate A: {}", rr.is_ok(), txs.len());
		for t in txs { let _ = api.cancel_tx(m, Some(t.id), None); }
		let (_, txs) = api.retrieve_txs(m, false, None, Some(sb.id), None)?;
		for t in txs { let _ = api.cancel_tx(m, Some(t.id), None); }
		Ok(())
	})?;

	// ---- C07 late lock: forged S2 reaches the reservation step before verification
	let mut s2 = Slate::blank(2, false);
	wallet::controller::owner_single_use(Some(wallet1.clone()), mask1, None, |api, m| {
		let args = InitTxArgs { src_acct_name: None, amount, minimum_confirmations: 2, max_outputs: 500, num_change_outputs: 1, selection_strategy_is_use_all: false, late_lock: Some(true), ..Default::default() };
		let s1 = api.init_send_tx(m, args)?;
		s2 = client1.send_tx_slate_direct("wallet2", &s1)?;
		let (_, info) = api.retrieve_summary_info(m, false, 1)?;
		println!("PROBE C07LL before forged finalize: locked {}", info.amount_locked);
		Ok(())
	})?;
	// forge: replace recipient partial signature
	for p in s2.participant_data.iter_mut() {
		if p.part_sig.is_some() {
			p.part_sig = Some(grin_util::secp::Signature::from_raw_data(&[11; 64]).unwrap());
		}
	}
	wallet::controller::foreign_single_use(wallet1.clone(), mask1_i.clone(), |api| {
		let r = api.finalize_tx(&s2, false);
		println!("PROBE C07LL foreign finalize of forged S2 ok? {} ({:?})", r.is_ok(), r.err().map(|e| format!("{}", e)));
		Ok(())
	})?;
	wallet::controller::owner_single_use(Some(wallet1.clone()), mask1, None, |api, m| {
		let (_, info) = api.retrieve_summary_info(m, false, 1)?;
		println!("PROBE C07LL after forged finalize: locked {}", info.amount_locked);
		Ok(())
	})?;
	let _ = (wallet2, mask2, client2);
	Ok(())
}

#[test]
fn probe2() {
	let test_dir = "test_output/probe2";
	setup(test_dir);
	if let Err(e) = probe_impl(test_dir) { println!("PROBE error: {}", e); }
	clean_output_dir(test_dir);
}
