// throw-away triage probe (design phase): C12, pending-transaction secrets at rest
#[macro_use]
extern crate log;
extern crate grin_wallet_controller as wallet;
extern crate grin_wallet_impls as impls;
extern crate grin_wallet_libwallet as libwallet;

use self::libwallet::InitTxArgs;
use impls::test_framework::{self, LocalWalletClient};
use std::thread;

#[macro_use]
mod common;
use common::{clean_output_dir, create_wallet_proxy, setup};

fn walk(p: &std::path::Path) -> Vec<std::path::PathBuf> { let mut v = vec![]; if let Ok(rd) = std::fs::read_dir(p) { for e in rd.flatten() { let p = e.path(); if p.is_dir() { v.extend(walk(&p)); } else { v.push(p); } } } v }
fn find(hay: &[u8], needle: &[u8]) -> bool { hay.windows(needle.len()).any(|w| w == needle) }

fn probe_impl(test_dir: &'static str) -> Result<(), libwallet::Error> {
	let mut wallet_proxy = create_wallet_proxy(test_dir);
	let chain = wallet_proxy.chain.clone();
	create_wallet_and_add!(client1, wallet1, mask1_i, test_dir, "wallet1", None, &mut wallet_proxy, false);
	let mask1 = (&mask1_i).as_ref();
	thread::spawn(move || { if let Err(e) = wallet_proxy.run() { error!("Wallet Proxy error: {}", e); } });
	test_framework::award_blocks_to_wallet(&chain, wallet1.clone(), mask1, 10, false)?;
	let mut sid = None;
	wallet::controller::owner_single_use(Some(wallet1.clone()), mask1, None, |api, m| {
		let args = InitTxArgs { src_acct_name: None, amount: 30_000_000_000, minimum_confirmations: 2, max_outputs: 500, num_change_outputs: 1, selection_strategy_is_use_all: false, ..Default::default() };
		let s = api.init_send_tx(m, args)?;
		sid = Some(s.id);
		Ok(())
	})?;
	let ctx = {
		wallet_inst!(wallet1, w);
		w.get_private_context(mask1, sid.unwrap().as_bytes())?
	};
	let mut db = Vec::new();
	for e in walk(std::path::Path::new(test_dir)) { if e.to_string_lossy().contains("wallet1") && e.to_string_lossy().ends_with(".mdb") { println!("PROBE reading {}", e.display()); db.extend(std::fs::read(&e).unwrap()); } }
	for (name, k) in vec![("sec_key", &ctx.sec_key), ("sec_nonce", &ctx.sec_nonce), ("initial_sec_key", &ctx.initial_sec_key), ("initial_sec_nonce", &ctx.initial_sec_nonce)] {
		let json = serde_json::to_string(k).unwrap();
		let json = json.trim_matches('"').to_string();
		println!("PROBE C12 {} (serialised as {}...) present in data.mdb in clear: raw {} / serialised {}", name, &json[..12.min(json.len())], find(&db, &k.0[..]), find(&db, json.as_bytes()));
	}
	println!("PROBE C12 initial_sec_key == sec_key: {}, initial_sec_nonce == sec_nonce: {}", ctx.initial_sec_key == ctx.sec_key, ctx.initial_sec_nonce == ctx.sec_nonce);
	let _ = client1;
	Ok(())
}

#[test]
fn probe5() {
	let test_dir = "test_output/probe5";
	setup(test_dir);
	if let Err(e) = probe_impl(test_dir) { println!("PROBE error: {}", e); }
	clean_output_dir(test_dir);
}
