// throw-away triage probe (design phase): C01 panics, C06 truncated stored tx
#[macro_use]
extern crate log;
extern crate grin_wallet_controller as wallet;
extern crate grin_wallet_impls as impls;
extern crate grin_wallet_libwallet as libwallet;

use self::libwallet::InitTxArgs;
use impls::test_framework::{self, LocalWalletClient};
use std::panic::{catch_unwind, AssertUnwindSafe};
use std::thread;

#[macro_use]
mod common;
use common::{clean_output_dir, create_wallet_proxy, setup};

fn probe_impl(test_dir: &'static str) -> Result<(), libwallet::Error> {
	let mut wallet_proxy = create_wallet_proxy(test_dir);
	let chain = wallet_proxy.chain.clone();
	create_wallet_and_add!(client1, wallet1, mask1_i, test_dir, "wallet1", None, &mut wallet_proxy, false);
	let mask1 = (&mask1_i).as_ref();
	thread::spawn(move || { if let Err(e) = wallet_proxy.run() { error!("Wallet Proxy error: {}", e); } });
	test_framework::award_blocks_to_wallet(&chain, wallet1.clone(), mask1, 10, false)?;

	for (label, amount, nco, incl) in vec![("zero change outputs", 30_000_000_000u64, 0u32, false), ("amount u64::MAX", u64::MAX, 1, false), ("change < outputs^2?", 59_999_999_990u64, 7, true)] {
		let w = wallet1.clone();
		let r = catch_unwind(AssertUnwindSafe(|| {
			wallet::controller::owner_single_use(Some(w), mask1, None, |api, m| {
				let args = InitTxArgs { src_acct_name: None, amount, minimum_confirmations: 2, max_outputs: 500, num_change_outputs: nco, selection_strategy_is_use_all: false, amount_includes_fee: Some(incl), ..Default::default() };
				let r = api.init_send_tx(m, args);
				println!("PROBE C01 {} -> returned {:?}", label, r.as_ref().map(|_| "Ok").map_err(|e| format!("{}", e)));
				Ok(())
			})
		}));
		println!("PROBE C01 {} panicked: {}", label, r.is_err());
	}

	// C06: truncated stored tx file
	let mut sid = None;
	wallet::controller::owner_single_use(Some(wallet1.clone()), mask1, None, |api, m| {
		let args = InitTxArgs { src_acct_name: None, amount: 30_000_000_000, minimum_confirmations: 2, max_outputs: 500, num_change_outputs: 1, selection_strategy_is_use_all: false, ..Default::default() };
		let s = api.init_send_tx(m, args)?;
		api.tx_lock_outputs(m, &s)?;
		sid = Some(s.id);
		Ok(())
	})?;
	let f = format!("{}/wallet1/wallet_data/saved_txs/{}.grintx", test_dir, sid.unwrap());
	let content = std::fs::read_to_string(&f).unwrap();
	for cut in vec![content.len() - 1, content.len() - 2, 10] {
		std::fs::write(&f, &content[..cut]).unwrap();
		let w = wallet1.clone();
		let r = catch_unwind(AssertUnwindSafe(|| {
			wallet::controller::owner_single_use(Some(w), mask1, None, |api, m| {
				let r = api.get_stored_tx(m, None, sid.as_ref());
				println!("PROBE C06 truncated to {} bytes -> returned {:?}", cut, r.as_ref().map(|_| "Ok").map_err(|e| format!("{}", e)));
				Ok(())
			})
		}));
		println!("PROBE C06 truncated to {} bytes panicked: {}", cut, r.is_err());
	}
	let _ = client1;
	Ok(())
}

#[test]
fn probe4() {
	let test_dir = "test_output/probe4";
	setup(test_dir);
	if let Err(e) = probe_impl(test_dir) { println!("PROBE error: {}", e); }
	clean_output_dir(test_dir);
}
