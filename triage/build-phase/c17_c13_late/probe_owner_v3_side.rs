// Side-observation probe for property C13, meant for the UNCHANGED code.
// Not part of the deliverable demonstration. To run it, copy it temporarily to
// tests/owner_v3_side_probe.rs and run
//   cargo test --offline -p grin_wallet --test owner_v3_side_probe -- --nocapture --test-threads 1
//
// It only PRINTS what the listener does with three odd envelopes that are all
// sealed under the current session key (so none of them is an authentication
// bypass), and never fails on them:
//   P1  envelope whose outer "method" is not "encrypted_request_v3"
//   P2  envelope whose nonce has 4 extra bytes appended (nonce string modified in transit)
//   P3  envelope given as a positional JSON ARRAY instead of an object

#[macro_use]
extern crate clap;

#[macro_use]
extern crate log;

extern crate grin_wallet;

use grin_wallet_api::{ECDHPubkey, EncryptedRequest, EncryptedResponse, JsonId};
use grin_wallet_impls::test_framework::{self, LocalWalletClient, WalletProxy};

use clap::App;
use std::thread;
use std::time::Duration;

use grin_keychain::ExtKeychain;
use grin_util::secp::key::SecretKey;
use grin_wallet_impls::DefaultLCProvider;
use serde_json::{self, json, Value};
use url::Url;

#[macro_use]
mod common;
use common::{
	clean_output_dir, derive_ecdh_key, execute_command, initial_setup_wallet, instantiate_wallet,
	post, send_request, setup, setup_global_chain_type,
};

const OWNER_URL: &str = "http://127.0.0.1:43714/v3/owner";

fn probe(name: &str, envelope: &Value, key: &SecretKey) -> bool {
	let url = Url::parse(OWNER_URL).unwrap();
	let raw = post(&url, None, envelope).unwrap();
	let reply: Value = serde_json::from_str(&raw).unwrap();
	if !reply["error"].is_null() {
		println!("PROBE {}: REJECTED with {}", name, reply["error"]);
		return false;
	}
	let enc: EncryptedResponse = serde_json::from_value(reply).unwrap();
	let inner = enc.decrypt(key).unwrap();
	println!("PROBE {}: ACCEPTED, decrypted reply = {}", name, inner);
	true
}

#[test]
fn owner_v3_side_probe() -> Result<(), grin_wallet_controller::Error> {
	setup_global_chain_type();
	let test_dir = "target/test_output/owner_v3_side_probe";
	setup(test_dir);
	setup_proxy!(test_dir, chain, wallet1, client1, mask1, wallet2, client2, _mask2);
	let _ = test_framework::award_blocks_to_wallet(&chain, wallet1.clone(), mask1, 2, false);

	let arg_vec = vec!["grin-wallet", "-p", "password", "owner_api", "-l", "43714"];
	thread::spawn(move || {
		let yml = load_yaml!("../src/bin/grin-wallet.yml");
		let app = App::from_yaml(yml);
		execute_command(&app, test_dir, "wallet1", &client1, arg_vec.clone()).unwrap();
	});
	thread::sleep(Duration::from_millis(500));

	let sec_key_str = "e00dcc4a009e3427c6b1e1a550c538179d46f3827a13ed74c759c860761caf1e";
	let init_req = include_str!("data/v3_reqs/init_secure_api.req.json");
	let res = send_request(1, OWNER_URL, init_req)?;
	let value: ECDHPubkey = res.unwrap();
	let shared_key = derive_ecdh_key(sec_key_str, &value.ecdh_pubkey);

	let inner = json!({
		"jsonrpc": "2.0",
		"method": "accounts",
		"params": { "token": null },
		"id": 1
	});

	// P1: wrong envelope method
	let mut e = EncryptedRequest::from_json(&JsonId::IntId(1), &inner, &shared_key).unwrap();
	e.method = "definitely_not_encrypted_request_v3".to_owned();
	let p1 = probe("P1 wrong envelope method", &serde_json::to_value(&e).unwrap(), &shared_key);

	// P2: nonce string altered by appending bytes
	let mut e = EncryptedRequest::from_json(&JsonId::IntId(2), &inner, &shared_key).unwrap();
	e.params.nonce = format!("{}deadbeef", e.params.nonce);
	let p2 = probe("P2 nonce with appended bytes", &serde_json::to_value(&e).unwrap(), &shared_key);

	// P3: positional array envelope
	let e = EncryptedRequest::from_json(&JsonId::IntId(3), &inner, &shared_key).unwrap();
	let arr = json!(["2.0", "encrypted_request_v3", 3, [e.params.nonce, e.params.body_enc]]);
	let p3 = probe("P3 array-shaped envelope", &arr, &shared_key);

	println!("SUMMARY accepted: P1={} P2={} P3={}", p1, p2, p3);
	clean_output_dir(test_dir);
	Ok(())
}
