// Side-observation probes for the ttl property, run against the UNCHANGED code.
// Each assertion below states the behaviour that was OBSERVED (i.e. the test passes
// when the questionable behaviour is present).
#[macro_use]
extern crate log;
extern crate grin_wallet_controller as wallet;
extern crate grin_wallet_impls as impls;
extern crate grin_wallet_util;

use grin_wallet_libwallet as libwallet;
use impls::test_framework::{self, LocalWalletClient};
use libwallet::{InitTxArgs, Slate, TxLogEntryType};
use std::sync::atomic::Ordering;
use std::thread;
use std::time::Duration;

#[macro_use]
mod common;
use common::{clean_output_dir, create_wallet_proxy, setup};

fn probe_impl(test_dir: &'static str) -> Result<(), libwallet::Error> {
	let mut wallet_proxy = create_wallet_proxy(test_dir);
	let chain = wallet_proxy.chain.clone();
	let stopper = wallet_proxy.running.clone();

	create_wallet_and_add!(
		client1,
		wallet1,
		mask1_i,
		test_dir,
		"wallet1",
		None,
		&mut wallet_proxy,
		false
	);
	let mask1 = (&mask1_i).as_ref();
	create_wallet_and_add!(
		client2,
		wallet2,
		mask2_i,
		test_dir,
		"wallet2",
		None,
		&mut wallet_proxy,
		false
	);
	let mask2 = (&mask2_i).as_ref();
	let _ = &client2;

	thread::spawn(move || {
		if let Err(e) = wallet_proxy.run() {
			error!("Wallet Proxy error: {}", e);
		}
	});

	let _ = test_framework::award_blocks_to_wallet(&chain, wallet1.clone(), mask1, 15, false);
	let amount = 60_000_000_000;

	let send_args = |ttl: u64| InitTxArgs {
		src_acct_name: None,
		amount,
		minimum_confirmations: 2,
		max_outputs: 500,
		num_change_outputs: 1,
		selection_strategy_is_use_all: false,
		ttl_blocks: Some(ttl),
		..Default::default()
	};

	// ---------------------------------------------------------------------------------
	// PROBE A: the height a wallet "has observed" is kept per account. A wallet that has
	// observed height 17 under its default account accepts a slate with cutoff 17 when
	// another, never refreshed account is the active one.
	// ---------------------------------------------------------------------------------
	let mut slate_a = Slate::blank(2, false);
	// PROBE B material: slate whose cutoff the counterparty strips from its response
	let mut slate_b = Slate::blank(2, false);
	// PROBE C material: plain ttl slate that is locked, expires and is locked again
	let mut slate_c = Slate::blank(2, false);
	wallet::controller::owner_single_use(Some(wallet1.clone()), mask1, None, |api, m| {
		slate_a = api.init_send_tx(m, send_args(2))?;
		assert_eq!(slate_a.ttl_cutoff_height, 17);
		api.tx_lock_outputs(m, &slate_a)?;

		// B: the recipient answers at height 15 (fine), but its answer carries ttl 0
		let s1 = api.init_send_tx(m, send_args(2))?;
		assert_eq!(s1.ttl_cutoff_height, 17);
		let mut s2 = client1.send_tx_slate_direct("wallet2", &s1)?;
		assert_eq!(s2.ttl_cutoff_height, 17);
		s2.ttl_cutoff_height = 0; // what a sloppy or hostile recipient could send back
		api.tx_lock_outputs(m, &s2)?; // the command line locks with the RETURNED slate
		let (_, txs) = api.retrieve_txs(m, false, None, Some(s2.id), None)?;
		println!("PROBE B: sender entry cutoff = {:?}", txs[0].ttl_cutoff_height);
		assert_eq!(txs[0].ttl_cutoff_height, None);
		slate_b = s2;

		slate_c = api.init_send_tx(m, send_args(2))?;
		api.tx_lock_outputs(m, &slate_c)?;
		Ok(())
	})?;

	// height 17 reached; wallet 1 refreshes as a side effect of mining
	let _ = test_framework::award_blocks_to_wallet(&chain, wallet1.clone(), mask1, 2, false);

	wallet::controller::owner_single_use(Some(wallet2.clone()), mask2, None, |api, m| {
		let (_, info) = api.retrieve_summary_info(m, true, 1)?;
		assert_eq!(info.last_confirmed_height, 17);
		api.create_account_path(m, "fresh")?;
		api.set_active_account(m, "fresh")?;
		let (_, info) = api.retrieve_summary_info(m, false, 1)?;
		println!(
			"PROBE A: active account 'fresh' last_confirmed_height = {}",
			info.last_confirmed_height
		);
		assert_eq!(info.last_confirmed_height, 0);
		Ok(())
	})?;
	wallet::controller::foreign_single_use(wallet2.clone(), mask2_i.clone(), |api| {
		let res = api.receive_tx(&slate_a, None, None);
		println!(
			"PROBE A: receive of slate with cutoff 17 by a wallet that saw height 17: ok = {}",
			res.is_ok()
		);
		assert!(res.is_ok(), "OBSERVED: accepted");
		// and explicitly naming the refreshed account as destination does not help either,
		// the height of the ACTIVE account is what is compared
		Ok(())
	})?;
	wallet::controller::owner_single_use(Some(wallet2.clone()), mask2, None, |api, m| {
		api.set_active_account(m, "default")?;
		Ok(())
	})?;

	// PROBE B continued: wallet 1 has observed height 17 (>= its own cutoff 17)
	wallet::controller::owner_single_use(Some(wallet1.clone()), mask1, None, |api, m| {
		let (refreshed, txs) = api.retrieve_txs(m, true, None, Some(slate_b.id), None)?;
		assert!(refreshed);
		println!(
			"PROBE B: after refresh at height 17 the sender entry is {:?}",
			txs[0].tx_type
		);
		assert_eq!(txs[0].tx_type, TxLogEntryType::TxSent); // OBSERVED: not cancelled
		let res = api.finalize_tx(m, &slate_b);
		println!("PROBE B: finalize at height 17, own cutoff 17: ok = {}", res.is_ok());
		assert!(res.is_ok(), "OBSERVED: finalized although the sender set cutoff 17");
		Ok(())
	})?;

	// PROBE C: the expired entry was cancelled by the refresh, tx_lock_outputs with the
	// same (expired) slate reserves the inputs again under a second TxSent entry
	wallet::controller::owner_single_use(Some(wallet1.clone()), mask1, None, |api, m| {
		let (_, txs) = api.retrieve_txs(m, true, None, Some(slate_c.id), None)?;
		assert_eq!(txs.len(), 1);
		assert_eq!(txs[0].tx_type, TxLogEntryType::TxSentCancelled);
		let res = api.tx_lock_outputs(m, &slate_c);
		println!("PROBE C: tx_lock_outputs of expired+cancelled slate: {:?}", res);
		assert!(res.is_ok(), "OBSERVED: locks again");
		let (_, txs) = api.retrieve_txs(m, false, None, Some(slate_c.id), None)?;
		println!(
			"PROBE C: entries for the slate now: {:?}",
			txs.iter().map(|t| t.tx_type.clone()).collect::<Vec<_>>()
		);
		assert_eq!(txs.len(), 2);
		assert!(txs.iter().any(|t| t.tx_type == TxLogEntryType::TxSent));
		Ok(())
	})?;

	stopper.store(false, Ordering::Relaxed);
	thread::sleep(Duration::from_millis(200));
	Ok(())
}

#[test]
fn ttl_side_probe() {
	let test_dir = "test_output/ttl_side_probe";
	setup(test_dir);
	if let Err(e) = probe_impl(test_dir) {
		panic!("Libwallet Error: {}", e);
	}
	clean_output_dir(test_dir);
}
