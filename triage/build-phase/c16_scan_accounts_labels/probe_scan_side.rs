// Probes for behaviour of the UNCHANGED code that already seems to violate property C16.
// Each test asserts what the property demands, so a FAILING test = the defect is real.
// To run: copy to controller/tests/scan_side_probes.rs and
//   cargo test --offline -p grin_wallet_controller --test scan_side_probes -- --test-threads 1
#[macro_use]
extern crate log;
extern crate grin_wallet_controller as wallet;
extern crate grin_wallet_impls as impls;

use grin_core as core;
use grin_util as util;

use self::core::consensus;
use self::core::global;
use grin_wallet_libwallet as libwallet;
use impls::test_framework::{self, LocalWalletClient};
use libwallet::InitTxArgs;
use std::sync::atomic::Ordering;
use std::thread;
use std::time::Duration;
use util::ZeroingString;

#[macro_use]
mod common;
use common::{clean_output_dir, create_wallet_proxy, setup};

const SEED: &str = "affair pistol cancel crush garment candy ancient flag work \
                    market crush dry stand focus mutual weapon offer ceiling rival turn team spring \
                    where swift";

/// S1: scan refreshes only the ACTIVE account but deletes "unconfirmed" outputs of ALL accounts.
/// An output of another account that is mined but whose record was never refreshed is deleted.
fn s1_impl(test_dir: &'static str) -> Result<(), libwallet::Error> {
	let no_seed: Option<ZeroingString> = None;
	let mut wallet_proxy = create_wallet_proxy(test_dir);
	let chain = wallet_proxy.chain.clone();
	let stopper = wallet_proxy.running.clone();
	create_wallet_and_add!(m_client, miner, miner_mask_i, test_dir, "miner", no_seed, &mut wallet_proxy, false);
	let miner_mask = (&miner_mask_i).as_ref();
	create_wallet_and_add!(client1, wallet1, mask1_i, test_dir, "wallet1", no_seed, &mut wallet_proxy, false);
	let mask1 = (&mask1_i).as_ref();
	let _ = &client1;
	thread::spawn(move || {
		if let Err(e) = wallet_proxy.run() {
			error!("Wallet Proxy error: {}", e);
		}
	});
	let base = consensus::GRIN_BASE;
	let _ = test_framework::award_blocks_to_wallet(&chain, miner.clone(), miner_mask, 8, false);

	wallet::controller::owner_single_use(Some(wallet1.clone()), mask1, None, |api, m| {
		api.create_account_path(m, "acc_b")?;
		api.set_active_account(m, "acc_b")?;
		Ok(())
	})?;
	// received into acc_b and mined at once; wallet1 is not refreshed while acc_b is active
	test_framework::send_to_dest(miner.clone(), miner_mask, m_client.clone(), "wallet1", base * 5, false)?;
	let _ = test_framework::award_blocks_to_wallet(&chain, miner.clone(), miner_mask, 3, false);

	wallet::controller::owner_single_use(Some(wallet1.clone()), mask1, None, |api, m| {
		api.set_active_account(m, "default")?;
		api.scan(m, None, true)?;
		api.set_active_account(m, "acc_b")?;
		let (_, info) = api.retrieve_summary_info(m, false, 1)?;
		let outputs = api.retrieve_outputs(m, false, false, None)?.1;
		println!("S1 after first scan: acc_b outputs {} total {}", outputs.len(), info.total);
		let first_total = info.total;
		api.set_active_account(m, "default")?;
		api.scan(m, None, true)?;
		api.set_active_account(m, "acc_b")?;
		let (_, info) = api.retrieve_summary_info(m, false, 1)?;
		println!("S1 after second scan: acc_b total {}", info.total);
		let outputs = api.retrieve_outputs(m, false, false, None)?.1;
		// refreshing the account itself brings the record to the chain's state
		let (_, refreshed_info) = api.retrieve_summary_info(m, true, 1)?;
		println!(
			"S1 after refreshing acc_b: outputs {} total {} (first scan left total {})",
			outputs.len(),
			refreshed_info.total,
			first_total
		);
		assert_eq!(outputs.len(), 1, "S1: mined output of a non-active account dropped by scan");
		assert_eq!(refreshed_info.total, base * 5);
		Ok(())
	})?;
	stopper.store(false, Ordering::Relaxed);
	thread::sleep(Duration::from_millis(200));
	Ok(())
}

/// S2: scan(start_height = recent, delete_unconfirmed = true) deletes the change output and
/// cancels the pending transaction, but leaves its (older) inputs Locked.
fn s2_impl(test_dir: &'static str) -> Result<(), libwallet::Error> {
	let no_seed: Option<ZeroingString> = None;
	let mut wallet_proxy = create_wallet_proxy(test_dir);
	let chain = wallet_proxy.chain.clone();
	let stopper = wallet_proxy.running.clone();
	create_wallet_and_add!(client1, wallet1, mask1_i, test_dir, "wallet1", no_seed, &mut wallet_proxy, false);
	let mask1 = (&mask1_i).as_ref();
	let _ = &client1;
	thread::spawn(move || {
		if let Err(e) = wallet_proxy.run() {
			error!("Wallet Proxy error: {}", e);
		}
	});
	let reward = consensus::REWARD;
	let cm = global::coinbase_maturity();
	let bh = 10u64;
	let _ = test_framework::award_blocks_to_wallet(&chain, wallet1.clone(), mask1, bh as usize, false);

	wallet::controller::owner_single_use(Some(wallet1.clone()), mask1, None, |api, m| {
		let (_, info) = api.retrieve_summary_info(m, true, 1)?;
		assert_eq!(info.amount_currently_spendable, (bh - cm) * reward);
		let args = InitTxArgs {
			src_acct_name: None,
			amount: reward * 2,
			minimum_confirmations: cm,
			max_outputs: 500,
			num_change_outputs: 1,
			selection_strategy_is_use_all: true,
			..Default::default()
		};
		let slate = api.init_send_tx(m, args)?;
		api.tx_lock_outputs(m, &slate)?;
		let (_, info) = api.retrieve_summary_info(m, true, 1)?;
		assert_eq!(info.amount_currently_spendable, 0);
		assert!(info.amount_locked > 0);

		// drop pending transactions, scanning only the last two blocks
		api.scan(m, Some(bh - 1), true)?;
		let (_, info) = api.retrieve_summary_info(m, true, 1)?;
		let (_, txs) = api.retrieve_txs(m, false, None, None, None)?;
		let cancelled = txs
			.iter()
			.filter(|t| t.tx_type == libwallet::TxLogEntryType::TxSentCancelled)
			.count();
		println!(
			"S2 after scan(start={}): locked {} spendable {} awaiting_finalization {} cancelled txs {}",
			bh - 1,
			info.amount_locked,
			info.amount_currently_spendable,
			info.amount_awaiting_finalization,
			cancelled
		);
		assert_eq!(info.amount_locked, 0, "S2: pending tx cancelled but its inputs stay locked");
		assert_eq!(info.amount_currently_spendable, (bh - cm) * reward);
		Ok(())
	})?;
	stopper.store(false, Ordering::Relaxed);
	thread::sleep(Duration::from_millis(200));
	Ok(())
}

/// S3: the label scan gives to a re-created account ("account_<n>") can collide with a label the
/// user chose; set_acct_path then overwrites that mapping and the user's account disappears from
/// the account list together with its funds.
fn s3_impl(test_dir: &'static str) -> Result<(), libwallet::Error> {
	let no_seed: Option<ZeroingString> = None;
	let seed = Some(ZeroingString::from(SEED));
	let mut wallet_proxy = create_wallet_proxy(test_dir);
	let chain = wallet_proxy.chain.clone();
	let stopper = wallet_proxy.running.clone();
	create_wallet_and_add!(m_client, miner, miner_mask_i, test_dir, "miner", no_seed, &mut wallet_proxy, false);
	let miner_mask = (&miner_mask_i).as_ref();
	create_wallet_and_add!(clientx, walletx, maskx_i, test_dir, "walletx", seed, &mut wallet_proxy, false);
	let maskx = (&maskx_i).as_ref();
	create_wallet_and_add!(clienty, wallety, masky_i, test_dir, "wallety", seed, &mut wallet_proxy, false);
	let masky = (&masky_i).as_ref();
	let _ = (&clientx, &clienty);
	thread::spawn(move || {
		if let Err(e) = wallet_proxy.run() {
			error!("Wallet Proxy error: {}", e);
		}
	});
	let base = consensus::GRIN_BASE;
	let _ = test_framework::award_blocks_to_wallet(&chain, miner.clone(), miner_mask, 8, false);

	// wallet X uses the third account (m/2/0)
	wallet::controller::owner_single_use(Some(walletx.clone()), maskx, None, |api, m| {
		api.create_account_path(m, "a1")?;
		api.create_account_path(m, "a2")?;
		api.set_active_account(m, "a2")?;
		Ok(())
	})?;
	test_framework::send_to_dest(miner.clone(), miner_mask, m_client.clone(), "walletx", base * 7, false)?;

	// wallet Y (same seed) has one extra account (m/1/0) that its user happened to call "account_2"
	wallet::controller::owner_single_use(Some(wallety.clone()), masky, None, |api, m| {
		api.create_account_path(m, "account_2")?;
		api.set_active_account(m, "account_2")?;
		Ok(())
	})?;
	test_framework::send_to_dest(miner.clone(), miner_mask, m_client.clone(), "wallety", base * 3, false)?;
	let _ = test_framework::award_blocks_to_wallet(&chain, miner.clone(), miner_mask, 3, false);

	wallet::controller::owner_single_use(Some(wallety.clone()), masky, None, |api, m| {
		let (_, info) = api.retrieve_summary_info(m, true, 1)?;
		assert_eq!(info.total, base * 3);
		api.scan(m, None, false)?;
		let accounts = api.accounts(m)?;
		let mut sum = 0;
		for a in accounts.iter() {
			api.set_active_account(m, &a.label)?;
			let (_, info) = api.retrieve_summary_info(m, true, 1)?;
			println!("S3 account {} path {} total {}", a.label, a.path, info.total);
			sum += info.total;
		}
		assert_eq!(sum, base * 10, "S3: funds of a user-named account vanished from the account list");
		Ok(())
	})?;
	stopper.store(false, Ordering::Relaxed);
	thread::sleep(Duration::from_millis(200));
	Ok(())
}

#[test]
fn s1_scan_deletes_mined_output_of_inactive_account() {
	let test_dir = "test_output/scan_side_s1";
	setup(test_dir);
	if let Err(e) = s1_impl(test_dir) {
		panic!("Libwallet Error: {}", e);
	}
	clean_output_dir(test_dir);
}

#[test]
fn s2_partial_scan_leaves_inputs_locked() {
	let test_dir = "test_output/scan_side_s2";
	setup(test_dir);
	if let Err(e) = s2_impl(test_dir) {
		panic!("Libwallet Error: {}", e);
	}
	clean_output_dir(test_dir);
}

#[test]
fn s3_restored_account_label_collides_with_user_label() {
	let test_dir = "test_output/scan_side_s3";
	setup(test_dir);
	if let Err(e) = s3_impl(test_dir) {
		panic!("Libwallet Error: {}", e);
	}
	clean_output_dir(test_dir);
}
