// Probe tests for slate encoding round trips (V4 JSON / V4 binary / slatepack).
// These tests only PRINT observations and assert the *observed* behaviour so
// that they pass deterministically; the interesting output is in the println!s.

use grin_core::core::transaction::{
	FeeFields, Input, Inputs, KernelFeatures, Output, OutputFeatures, Transaction, TxKernel,
};
use grin_core::global;
use grin_keychain::{ExtKeychain, Keychain, SwitchCommitmentType};
use grin_util::secp::key::PublicKey;
use grin_util::secp::pedersen::{Commitment, RangeProof};
use grin_util::secp::Signature;
use grin_wallet_libwallet as libwallet;
use grin_wallet_util::byte_ser;
use libwallet::slate_versions::v4::{CommitsV4, SlateV4};
use libwallet::{
	ParticipantData, Slate, SlateVersion, Slatepacker, SlatepackerArgs, VersionedBinSlate,
	VersionedSlate,
};
use std::convert::TryFrom;

fn setup() {
	global::set_local_chain_type(global::ChainTypes::AutomatedTesting);
}

/// deterministic public keys (fixed seed-less derivation is not available, so
/// derive from a fixed-path of a keychain built from a fixed seed)
fn keys() -> (PublicKey, PublicKey) {
	let keychain = ExtKeychain::from_seed(&[7u8; 32], true).unwrap();
	let switch = SwitchCommitmentType::Regular;
	let id1 = ExtKeychain::derive_key_id(1, 1, 0, 0, 0);
	let id2 = ExtKeychain::derive_key_id(1, 1, 1, 0, 0);
	let skey1 = keychain.derive_key(0, &id1, switch).unwrap();
	let skey2 = keychain.derive_key(0, &id2, switch).unwrap();
	let xs = PublicKey::from_secret_key(keychain.secp(), &skey1).unwrap();
	let nonce = PublicKey::from_secret_key(keychain.secp(), &skey2).unwrap();
	(xs, nonce)
}

fn part(with_sig: bool) -> ParticipantData {
	let (xs, nonce) = keys();
	ParticipantData {
		public_blind_excess: xs,
		public_nonce: nonce,
		part_sig: if with_sig {
			Some(Signature::from_raw_data(&[11; 64]).unwrap())
		} else {
			None
		},
	}
}

fn base_slate() -> Slate {
	let mut slate = Slate::blank(2, false);
	slate.amount = 1_000_000_000;
	slate.participant_data.push(part(false));
	slate.participant_data.push(part(true));
	slate
}

// ---- the three encodings -------------------------------------------------

fn to_json(slate: &Slate) -> String {
	serde_json::to_string(&VersionedSlate::into_version(slate.clone(), SlateVersion::V4).unwrap())
		.unwrap()
}

fn json_rt(slate: &Slate) -> Result<Slate, String> {
	Slate::deserialize_upgrade(&to_json(slate)).map_err(|e| format!("{:?}", e))
}

fn to_bin(slate: &Slate) -> Vec<u8> {
	let v = VersionedSlate::into_version(slate.clone(), SlateVersion::V4).unwrap();
	let bin = VersionedBinSlate::try_from(v).unwrap();
	byte_ser::to_bytes(&bin).unwrap()
}

fn from_bin(bytes: &[u8]) -> Result<Slate, String> {
	let back: VersionedBinSlate = byte_ser::from_bytes(bytes).map_err(|e| format!("{:?}", e))?;
	Slate::upgrade(back.into()).map_err(|e| format!("{:?}", e))
}

fn bin_rt(slate: &Slate) -> Result<Slate, String> {
	from_bin(&to_bin(slate))
}

/// slatepack exactly as create_slatepack / get_slate (no armor)
fn pack_rt_direct(slate: &Slate) -> Result<Slate, String> {
	let packer = Slatepacker::new(SlatepackerArgs {
		sender: None,
		recipients: vec![],
		dec_key: None,
	});
	let sp = packer
		.create_slatepack(slate)
		.map_err(|e| format!("create_slatepack: {:?}", e))?;
	packer
		.get_slate(&sp)
		.map_err(|e| format!("get_slate: {:?}", e))
}

/// slatepack through the armored text form too, as the wallet would exchange it
fn pack_rt(slate: &Slate) -> Result<Slate, String> {
	let packer = Slatepacker::new(SlatepackerArgs {
		sender: None,
		recipients: vec![],
		dec_key: None,
	});
	let sp = packer
		.create_slatepack(slate)
		.map_err(|e| format!("create_slatepack: {:?}", e))?;
	let armored = packer
		.armor_slatepack(&sp)
		.map_err(|e| format!("armor: {:?}", e))?;
	let sp2 = packer
		.deser_slatepack(armored.as_bytes(), true)
		.map_err(|e| format!("deser_slatepack: {:?}", e))?;
	packer
		.get_slate(&sp2)
		.map_err(|e| format!("get_slate: {:?}", e))
}

fn raw_fee(f: FeeFields) -> u64 {
	f.into()
}

fn kernel_feats(slate: &Slate) -> String {
	match &slate.tx {
		None => "tx=None".to_owned(),
		Some(tx) => format!(
			"{:?}",
			tx.kernels()
				.iter()
				.map(|k| k.features.clone())
				.collect::<Vec<KernelFeatures>>()
		),
	}
}

// ---- SUSPECT 1 ------------------------------------------------------------

#[test]
fn suspect1_fee_shift_only_dropped_by_bin() {
	setup();
	let slate = base_slate();
	let json = to_json(&slate);
	let mut val: serde_json::Value = serde_json::from_str(&json).unwrap();
	let raw: u64 = 1u64 << 40; // fee_shift = 1, fee = 0
	assert_eq!(raw, 1099511627776);
	val["fee"] = serde_json::Value::String(format!("{}", raw));
	let json_in = serde_json::to_string(&val).unwrap();
	println!("S1 input JSON: {}", json_in);

	let decoded = Slate::deserialize_upgrade(&json_in).expect("JSON with shift-only fee decodes");
	println!(
		"S1 decoded from JSON: fee_fields raw={} fee()={} fee_shift()={} is_zero={}",
		raw_fee(decoded.fee_fields),
		decoded.fee_fields.fee(),
		decoded.fee_fields.fee_shift(),
		decoded.fee_fields.is_zero()
	);
	assert_eq!(raw_fee(decoded.fee_fields), raw);

	// same thing with the fee given as a JSON number instead of a string
	val["fee"] = serde_json::json!(raw);
	let json_num = serde_json::to_string(&val).unwrap();
	let decoded_num = Slate::deserialize_upgrade(&json_num).expect("numeric fee decodes");
	println!(
		"S1 decoded from JSON (numeric fee): fee_fields raw={}",
		raw_fee(decoded_num.fee_fields)
	);

	let j = json_rt(&decoded).unwrap();
	let b = bin_rt(&decoded).unwrap();
	let p = pack_rt(&decoded).unwrap();
	println!("S1 JSON      round trip: fee_fields raw={}", raw_fee(j.fee_fields));
	println!("S1 binary    round trip: fee_fields raw={}", raw_fee(b.fee_fields));
	println!("S1 slatepack round trip: fee_fields raw={}", raw_fee(p.fee_fields));
	println!("S1 JSON of json-rt : {}", to_json(&j));
	println!("S1 JSON of bin-rt  : {}", to_json(&b));

	// also via the in-memory route (no JSON involved): Slate.fee_fields is pub
	let mut s2 = base_slate();
	s2.fee_fields = serde_json::from_str::<FeeFields>(&format!("\"{}\"", raw)).unwrap();
	let b2 = bin_rt(&s2).unwrap();
	println!(
		"S1 in-memory slate fee raw={} -> bin rt raw={}",
		raw_fee(s2.fee_fields),
		raw_fee(b2.fee_fields)
	);

	// future-use bits only (bit 50), fee = 0, shift = 0
	let raw3: u64 = 1u64 << 50;
	let mut s3 = base_slate();
	s3.fee_fields = serde_json::from_str::<FeeFields>(&format!("\"{}\"", raw3)).unwrap();
	println!(
		"S1 future-use bits: in raw={} json rt raw={} bin rt raw={}",
		raw_fee(s3.fee_fields),
		raw_fee(json_rt(&s3).unwrap().fee_fields),
		raw_fee(bin_rt(&s3).unwrap().fee_fields)
	);

	// control: shift + non-zero fee survives
	let mut s4 = base_slate();
	s4.fee_fields = FeeFields::new(1, 5).unwrap();
	println!(
		"S1 control FeeFields::new(1,5): in raw={} json rt raw={} bin rt raw={}",
		raw_fee(s4.fee_fields),
		raw_fee(json_rt(&s4).unwrap().fee_fields),
		raw_fee(bin_rt(&s4).unwrap().fee_fields)
	);

	let confirmed = raw_fee(j.fee_fields) == raw && raw_fee(b.fee_fields) != raw;
	println!("S1 VERDICT confirmed={}", confirmed);
	assert_eq!(raw_fee(j.fee_fields), raw, "json keeps it");
	assert_eq!(raw_fee(b.fee_fields), 0, "binary drops it (defect)");
	assert_eq!(raw_fee(p.fee_fields), 0, "slatepack drops it (defect)");
}

// ---- SUSPECT 2 ------------------------------------------------------------

fn tx_with_kernel(features: KernelFeatures) -> Transaction {
	let kernel = TxKernel {
		features,
		excess: Commitment::from_vec(vec![0]),
		excess_sig: Signature::from_raw_data(&[0; 64]).unwrap(),
	};
	let tx = Slate::empty_transaction().with_kernel(kernel);
	let input = Input {
		features: OutputFeatures::Plain,
		commit: Commitment::from_vec(vec![3u8; 33]),
	};
	let output = Output::new(
		OutputFeatures::Plain,
		Commitment::from_vec(vec![4u8; 33]),
		RangeProof::zero(),
	);
	tx.with_input(input).with_output(output)
}

fn lock_slate(feat: u8, lock_height: u64, with_tx: bool) -> Slate {
	let mut slate = base_slate();
	slate.fee_fields = FeeFields::new(0, 23_000_000).unwrap();
	slate.kernel_features = feat;
	// KernelFeaturesArgs is not nameable from outside the crate, but Default is
	// implemented and the field is pub.
	slate.kernel_features_args = Some(Default::default());
	slate.kernel_features_args.as_mut().unwrap().lock_height = lock_height;
	if with_tx {
		let kf = match feat {
			2 => KernelFeatures::HeightLocked {
				fee: slate.fee_fields,
				lock_height,
			},
			_ => KernelFeatures::Plain {
				fee: slate.fee_fields,
			},
		};
		slate.tx = Some(tx_with_kernel(kf));
	}
	slate
}

#[test]
fn suspect2_height_locked_kernel_rebuilt_as_plain() {
	setup();
	let slate = lock_slate(2, 77, true);
	println!(
		"S2 original : kernel_features={} args={:?} tx kernels={}",
		slate.kernel_features,
		slate.kernel_features_args,
		kernel_feats(&slate)
	);
	let v4 = SlateV4::from(slate.clone());
	println!(
		"S2 as SlateV4: feat={} feat_args={:?} coms.len={:?}",
		v4.feat,
		v4.feat_args,
		v4.coms.as_ref().map(|c| c.len())
	);
	assert!(v4.coms.is_some());
	let direct = Slate::from(v4);
	println!(
		"S2 V4->Slate : kernel_features={} args={:?} tx kernels={}",
		direct.kernel_features,
		direct.kernel_features_args,
		kernel_feats(&direct)
	);
	println!("S2 JSON form : {}", to_json(&slate));
	for (name, r) in vec![
		("JSON", json_rt(&slate)),
		("binary", bin_rt(&slate)),
		("slatepack", pack_rt(&slate)),
	] {
		let r = r.unwrap();
		println!(
			"S2 {:9} rt: kernel_features={} args={:?} tx kernels={}",
			name,
			r.kernel_features,
			r.kernel_features_args,
			kernel_feats(&r)
		);
		let k = r.tx.as_ref().unwrap().kernels()[0].features.clone();
		assert!(
			matches!(k, KernelFeatures::Plain { .. }),
			"observed defect: kernel decoded as Plain"
		);
		assert_eq!(r.kernel_features, 2);
	}

	// what feat == 1 (documented as 'coinbase (invalid)') produces
	let mut odd = lock_slate(2, 77, true);
	odd.kernel_features = 1;
	let r = json_rt(&odd).unwrap();
	println!(
		"S2 feat=1    rt: kernel_features={} args={:?} tx kernels={}",
		r.kernel_features,
		r.kernel_features_args,
		kernel_feats(&r)
	);

	// lock_height carried by the rebuilt tx (what a node would enforce)
	let r = json_rt(&slate).unwrap();
	let tx = r.tx.unwrap();
	println!(
		"S2 rebuilt tx.lock_height()={} (original tx.lock_height()={})",
		tx.lock_height(),
		slate.tx.as_ref().unwrap().lock_height()
	);
}

// ---- SUSPECT 3 ------------------------------------------------------------

#[test]
fn suspect3_nrd_args_lost_by_bin() {
	setup();
	for with_tx in vec![false, true] {
		let slate = lock_slate(3, 77, with_tx);
		println!(
			"S3 (tx present={}) original : kernel_features={} args={:?}",
			with_tx, slate.kernel_features, slate.kernel_features_args
		);
		let j = json_rt(&slate).unwrap();
		let b = bin_rt(&slate).unwrap();
		let p = pack_rt(&slate).unwrap();
		println!(
			"S3 JSON      rt: kernel_features={} args={:?}",
			j.kernel_features, j.kernel_features_args
		);
		println!(
			"S3 binary    rt: kernel_features={} args={:?}",
			b.kernel_features, b.kernel_features_args
		);
		println!(
			"S3 slatepack rt: kernel_features={} args={:?}",
			p.kernel_features, p.kernel_features_args
		);
		assert!(j.kernel_features_args.is_some());
		assert!(b.kernel_features_args.is_none(), "defect: args lost");
		assert!(p.kernel_features_args.is_none(), "defect: args lost");
		// consequence: signing message can no longer be computed
		println!(
			"S3 msg_to_sign: json rt ok={} ; bin rt -> {:?}",
			j.msg_to_sign().is_ok(),
			b.msg_to_sign().map(|_| ()).map_err(|e| format!("{:?}", e))
		);
	}
}

// ---- SUSPECT 4 ------------------------------------------------------------

fn many_parts(n: usize, first_has_sig: bool) -> Slate {
	let mut slate = Slate::blank(2, false);
	slate.amount = 1_000_000_000;
	for i in 0..n {
		slate.participant_data.push(part(first_has_sig && i == 0));
	}
	slate
}

#[test]
fn suspect4_participant_len_truncated_u8() {
	setup();
	for n in vec![255usize, 256, 300] {
		let slate = many_parts(n, false);
		let j = json_rt(&slate).unwrap();
		let bytes = to_bin(&slate);
		let b = from_bin(&bytes);
		let p = pack_rt_direct(&slate);
		// armored text form: the armor size limit depends on the chain type
		// (max_tx_weight), AutomatedTesting is too small for this many entries
		global::set_local_chain_type(global::ChainTypes::Mainnet);
		let pa = pack_rt(&slate);
		setup();
		println!(
			"S4 n={} : armored slatepack (Mainnet limits) rt participants={:?}",
			n,
			pa.as_ref().map(|s| s.participant_data.len())
		);
		println!(
			"S4 n={} : in-memory participants={} ; JSON rt participants={} ; bin bytes={} ; bin rt participants={:?} ; slatepack(create_slatepack/get_slate) rt participants={:?}",
			n,
			slate.participant_data.len(),
			j.participant_data.len(),
			bytes.len(),
			b.as_ref().map(|s| s.participant_data.len()),
			p.as_ref().map(|s| s.participant_data.len()),
		);
		assert_eq!(j.participant_data.len(), n);
		let b = b.unwrap();
		assert_eq!(b.participant_data.len(), n % 256);
	}
	// variant: the first participant carries a partial signature, so the byte
	// that follows the (truncated) list is 1 -> misread as the "coms present"
	// status byte and the remainder is parsed as garbage
	let slate = many_parts(256, true);
	let b = bin_rt(&slate);
	println!(
		"S4 n=256, first participant has part_sig: bin rt -> {:?}",
		b.as_ref()
			.map(|s| format!(
				"participants={} tx_present={} inputs+outputs={:?}",
				s.participant_data.len(),
				s.tx.is_some(),
				s.tx.as_ref().map(|t| t.inputs().len() + t.outputs().len())
			))
			.map_err(|e| e.clone())
	);
}

#[test]
fn suspect4_coms_len_truncated_u16() {
	setup();
	let n = 70_000usize;
	// Build through SlateV4 (tx_from_slate_v4 uses replace_inputs, so repeated
	// commitments are kept); then operate on the resulting *Slate*.
	let mut v4 = SlateV4::from(base_slate());
	let com = CommitsV4 {
		f: OutputFeatures::Plain.into(),
		c: Commitment::from_vec(vec![3u8; 33]),
		p: None,
	};
	v4.coms = Some(vec![com; n]);
	let slate = Slate::from(v4);
	let n_in = match slate.tx.as_ref().unwrap().inputs() {
		Inputs::FeaturesAndCommit(v) => v.len(),
		Inputs::CommitOnly(v) => v.len(),
	};
	println!("S4c in-memory slate inputs={}", n_in);
	assert_eq!(n_in, n);
	let j = json_rt(&slate).unwrap();
	let bytes = to_bin(&slate);
	let b = from_bin(&bytes);
	println!(
		"S4c JSON rt inputs={} ; bin bytes={} ; bin rt inputs={:?} (70000 mod 65536 = {})",
		j.tx.as_ref().unwrap().inputs().len(),
		bytes.len(),
		b.as_ref().map(|s| s.tx.as_ref().map(|t| t.inputs().len())),
		n % 65536
	);
	let p = pack_rt_direct(&slate);
	println!(
		"S4c slatepack(create_slatepack/get_slate) rt inputs={:?}",
		p.as_ref().map(|s| s.tx.as_ref().map(|t| t.inputs().len()))
	);
	assert_eq!(j.tx.as_ref().unwrap().inputs().len(), n);
	assert_eq!(b.unwrap().tx.unwrap().inputs().len(), n % 65536);
}
