// Probe (C05 / C19): the log id typed on the command line is the id the command acts on.
// `cancel -i 4294967302` names no entry of any wallet; it must not be read as entry 6.
#[macro_use]
extern crate clap;
extern crate grin_wallet;

use clap::App;
use grin_wallet::cmd::wallet_args;

#[test]
fn cli_id_is_not_cut_to_32_bits() {
	let yml = load_yaml!("../src/bin/grin-wallet.yml");
	let big = "4294967302"; // 2^32 + 6
	for sub in &["cancel", "repost", "txs", "export_proof"] {
		let app = App::from_yaml(yml);
		let mut argv = vec!["grin-wallet", *sub, "-i", big];
		if *sub == "export_proof" {
			argv.push("proof.json");
		}
		let m = app.get_matches_from(argv);
		let sm = m.subcommand_matches(*sub).unwrap();
		let id: Result<Option<u32>, String> = match *sub {
			"cancel" => wallet_args::parse_cancel_args(sm)
				.map(|a| a.tx_id)
				.map_err(|e| format!("{:?}", e)),
			"repost" => wallet_args::parse_repost_args(sm)
				.map(|a| Some(a.id))
				.map_err(|e| format!("{:?}", e)),
			"txs" => wallet_args::parse_txs_args(sm)
				.map(|a| a.id)
				.map_err(|e| format!("{:?}", e)),
			_ => wallet_args::parse_export_proof_args(sm)
				.map(|a| a.id)
				.map_err(|e| format!("{:?}", e)),
		};
		println!("{} -i {}: {:?}", sub, big, id);
		assert!(
			id.is_err(),
			"`{} -i {}` was read as entry {:?}",
			sub,
			big,
			id
		);
	}
}
