// Witness for C06 ("if the wallet process dies at any point ... every reserved output belongs to a live
// logged transaction ... and every pending transaction can still be cancelled"), run against the real code.
//
// scan(delete_unconfirmed = true) repairs a locked output that is unspent on chain in two steps with a
// commit each: cancel_tx_log_entry() saves the cancelled entry, then scan() saves the unlocked output.
// Dying between the two leaves a Locked output whose transaction is cancelled.
//
// The death is emulated without a hook: the scan runs in its own thread; a watcher spins on try_lock of
// the wallet-instance mutex (which scan releases and re-takes between the two steps), looks at the
// records each time it gets in, and keeps the mutex for good the moment it sees "entry cancelled, its
// input still Locked" - the scan thread never runs again. The wallet directory is then copied and opened
// as a wallet of its own: what a restarted process would find. Several pending sends give several chances
// to hit the gap. The probe fails when that state is seen; a run in which it is never seen prints how often
// the watcher looked (two-batch code: seen in 3 of 3 runs; one-batch code: never).
#[macro_use]
extern crate log;
extern crate grin_wallet_controller as wallet;
extern crate grin_wallet_impls as impls;

use grin_core as core;

use grin_wallet_libwallet as libwallet;
use impls::test_framework::{self, LocalWalletClient};
use libwallet::{InitTxArgs, OutputStatus, TxLogEntryType};
use std::sync::mpsc::channel;
use std::thread;
use std::time::Duration;

#[macro_use]
mod common;
use common::{clean_output_dir, create_wallet_proxy, setup};

fn copy_dir(from: &std::path::Path, to: &std::path::Path) {
	std::fs::create_dir_all(to).unwrap();
	for e in std::fs::read_dir(from).unwrap() {
		let e = e.unwrap();
		if e.file_type().unwrap().is_dir() {
			copy_dir(&e.path(), &to.join(e.file_name()));
		} else {
			std::fs::copy(e.path(), to.join(e.file_name())).unwrap();
		}
	}
}

fn probe_impl(test_dir: &'static str) -> Result<(), libwallet::Error> {
	let mut wallet_proxy = create_wallet_proxy(test_dir);
	let chain = wallet_proxy.chain.clone();
	let proxy_tx = wallet_proxy.tx.clone();
	create_wallet_and_add!(client1, wallet1, mask1_i, test_dir, "wallet1", None, &mut wallet_proxy, false);
	let mask1 = (&mask1_i).as_ref();
	create_wallet_and_add!(client2, wallet2, mask2_i, test_dir, "wallet2", None, &mut wallet_proxy, false);
	let _ = (&client2, &wallet2, &mask2_i);
	thread::spawn(move || {
		if let Err(e) = wallet_proxy.run() {
			error!("Wallet Proxy error: {}", e);
		}
	});
	let reward = core::consensus::REWARD;
	let _ = test_framework::award_blocks_to_wallet(&chain, wallet1.clone(), mask1, 12, false);

	// six pending sends, each reserving one coinbase output; none is ever posted
	wallet::controller::owner_single_use(Some(wallet1.clone()), mask1, None, |api, m| {
		for _ in 0..6 {
			let args = InitTxArgs {
				src_acct_name: None,
				amount: reward / 2,
				minimum_confirmations: 2,
				max_outputs: 500,
				num_change_outputs: 1,
				selection_strategy_is_use_all: false,
				..Default::default()
			};
			let slate = api.init_send_tx(m, args)?;
			api.tx_lock_outputs(m, &slate)?;
		}
		Ok(())
	})?;

	// the repairing scan, and the watcher that freezes it between its two commits
	let (tx, rx) = channel();
	let (res_tx, res_rx) = channel();
	let w1 = wallet1.clone();
	thread::spawn(move || {
		// wait until the scan announces the first locked output
		loop {
			match rx.recv() {
				Ok(libwallet::api_impl::owner_updater::StatusMessage::Scanning(s, _)) => {
					if s.contains("is locked") {
						break;
					}
				}
				Ok(_) => {}
				Err(_) => {
					let _ = res_tx.send("scan ended before a locked output was announced");
					return;
				}
			}
		}
		let started = std::time::Instant::now();
		let mut looks = 0u64;
		loop {
			if let Some(mut g) = w1.try_lock() {
				looks += 1;
				let mut hit = false;
				let mut done = false;
				{
					let lc = g.lc_provider().unwrap();
					let w = lc.wallet_inst().unwrap();
					let cancelled: Vec<u32> = w
						.tx_log_iter()
						.filter(|t| t.tx_type == TxLogEntryType::TxSentCancelled)
						.map(|t| t.id)
						.collect();
					let locked: Vec<Option<u32>> = w
						.iter()
						.filter(|o| o.status == OutputStatus::Locked)
						.map(|o| o.tx_log_entry)
						.collect();
					if locked.iter().any(|e| e.map(|i| cancelled.contains(&i)).unwrap_or(false)) {
						hit = true;
					}
					if locked.is_empty() {
						done = true;
					}
				}
				if hit {
					std::mem::forget(g);
					let _ = res_tx.send("hit");
					return;
				}
				drop(g);
				if done {
					println!("watcher looked at the records {} times between the scan's steps", looks);
					let _ = res_tx.send("never seen: the scan finished all its repairs and the watcher never saw a cancelled entry with a reserved input");
					return;
				}
			}
			if started.elapsed() > Duration::from_secs(60) {
				let _ = res_tx.send("missed: timeout");
				return;
			}
			std::hint::spin_loop();
		}
	});
	let w1 = wallet1.clone();
	let m1 = mask1_i.clone();
	thread::spawn(move || {
		core::global::set_local_chain_type(core::global::ChainTypes::AutomatedTesting);
		let r = libwallet::api_impl::owner::scan(w1, (&m1).as_ref(), None, true, &Some(tx));
		println!("the scan ran to its end: {:?}", r.is_ok());
	});
	let outcome = res_rx.recv_timeout(Duration::from_secs(90)).expect("no outcome from the watcher");
	println!("watcher: {}", outcome);
	if outcome != "hit" {
		// with the two writes in one batch there is no such state to see; on the two-batch code a run
		// that ends here simply did not get in between (3 of 3 runs did) - run it again
		return Ok(());
	}
	thread::sleep(Duration::from_millis(300));

	// "restart": the directory as the dead process left it
	copy_dir(
		std::path::Path::new(&format!("{}/wallet1", test_dir)),
		std::path::Path::new(&format!("{}/wallet1b", test_dir)),
	);
	let client1b = LocalWalletClient::new("wallet1b", proxy_tx);
	let (wallet1b, mask1b_i) = common::open_local_wallet(test_dir, "wallet1b", client1b, false);
	let mask1b = (&mask1b_i).as_ref();
	let mut problems = vec![];
	wallet::controller::owner_single_use(Some(wallet1b.clone()), mask1b, None, |api, m| {
		let (_, txs) = api.retrieve_txs(m, false, None, None, None)?;
		let (_, outputs) = api.retrieve_outputs(m, true, false, None)?;
		for o in outputs.iter().filter(|o| o.output.status == OutputStatus::Locked) {
			let entry = txs.iter().find(|t| Some(t.id) == o.output.tx_log_entry);
			println!(
				"reserved output {} value {} -> log entry {:?} {:?}",
				o.output.key_id,
				o.output.value,
				o.output.tx_log_entry,
				entry.map(|t| t.tx_type.clone())
			);
			match entry {
				Some(t) if t.tx_type == TxLogEntryType::TxSent => {}
				other => problems.push(format!(
					"reserved output {} belongs to no live logged transaction (entry {:?} is {:?})",
					o.output.key_id,
					o.output.tx_log_entry,
					other.map(|t| t.tx_type.clone())
				)),
			}
		}
		Ok(())
	})?;
	assert!(problems.is_empty(), "{:#?}", problems);
	Ok(())
}

#[test]
fn probe_scan_cancel_split() {
	let test_dir = "test_output/probe_scan_cancel_split";
	setup(test_dir);
	if let Err(e) = probe_impl(test_dir) {
		panic!("Libwallet Error: {}", e);
	}
	clean_output_dir(test_dir);
}
