// SUSPECT A: create_mwixnet_req(lock_output = true) leaves an orphan Locked output
#[macro_use]
extern crate log;
extern crate grin_wallet_controller as wallet;
extern crate grin_wallet_impls as impls;

use grin_core as core;
use grin_util as util;
use grin_util::secp::key::SecretKey;

use grin_wallet_libwallet as libwallet;
use impls::test_framework::{self, LocalWalletClient};
use libwallet::mwixnet::MixnetReqCreationParams;
use libwallet::OutputStatus;
use std::sync::atomic::Ordering;
use std::thread;
use std::time::Duration;

#[macro_use]
mod common;
use common::{clean_output_dir, create_wallet_proxy, setup};

fn seed_a_impl(test_dir: &'static str) -> Result<(), libwallet::Error> {
	let mut wallet_proxy = create_wallet_proxy(test_dir);
	let chain = wallet_proxy.chain.clone();
	let stopper = wallet_proxy.running.clone();

	create_wallet_and_add!(
		client1,
		wallet1,
		mask1_i,
		test_dir,
		"wallet1",
		None,
		&mut wallet_proxy,
		true
	);
	let mask1 = (&mask1_i).as_ref();
	let _ = &client1;

	thread::spawn(move || {
		if let Err(e) = wallet_proxy.run() {
			error!("Wallet Proxy error: {}", e);
		}
	});

	let reward = core::consensus::REWARD;
	let bh = 10u64;
	let _ =
		test_framework::award_blocks_to_wallet(&chain, wallet1.clone(), mask1, bh as usize, false);

	wallet::controller::owner_single_use(Some(wallet1.clone()), mask1, None, |api, m| {
		// ---------- BEFORE ----------
		let (refreshed, info_before) = api.retrieve_summary_info(m, true, 1)?;
		assert!(refreshed);
		let (_, txs_before) = api.retrieve_txs(m, true, None, None, None)?;
		let (_, outputs) = api.retrieve_outputs(m, false, true, None)?;
		// pick first spendable (Unspent, mature) output
		let target = outputs
			.iter()
			.find(|o| {
				o.output.status == OutputStatus::Unspent && o.output.lock_height <= info_before.last_confirmed_height
			})
			.expect("a spendable output")
			.clone();
		println!(
			"A: BEFORE: height={} total={} spendable={} locked={} n_txs={}",
			info_before.last_confirmed_height,
			info_before.total,
			info_before.amount_currently_spendable,
			info_before.amount_locked,
			txs_before.len()
		);
		println!(
			"A: BEFORE: target output commit={:?} value={} status={:?} tx_log_entry={:?}",
			target.output.commit, target.output.value, target.output.status, target.output.tx_log_entry
		);
		assert_eq!(info_before.amount_locked, 0);

		// ---------- ACTION ----------
		let secp_locked = util::static_secp_instance();
		let keys = {
			let secp = secp_locked.lock();
			[
				"97444ae673bb92c713c1a2f7b8882ffbfc1c67401a280a775dce1a8651584332",
				"0c9414341f2140ed34a5a12a6479bf5a6404820d001ab81d9d3e8cc38f049b4e",
				"b58ece97d60e71bb7e53218400b0d67bfe6a3cb7d3b4a67a44f8fb7c525cbca5",
			]
			.iter()
			.map(|s| SecretKey::from_slice(&secp, &grin_util::from_hex(s).unwrap()).unwrap())
			.collect::<Vec<_>>()
		};
		let params = MixnetReqCreationParams {
			server_keys: keys,
			fee_per_hop: 50_000_000,
		};
		let _req = api.create_mwixnet_req(m, &params, &target.commit, true)?;
		println!("A: create_mwixnet_req(lock_output=true) returned Ok");

		// ---------- AFTER ----------
		let (_, info_after) = api.retrieve_summary_info(m, true, 1)?;
		let (_, txs_after) = api.retrieve_txs(m, true, None, None, None)?;
		let (_, outputs_after) = api.retrieve_outputs(m, true, true, None)?;
		let target_after = outputs_after
			.iter()
			.find(|o| o.commit == target.commit)
			.expect("target still present")
			.clone();
		println!(
			"A: AFTER: total={} spendable={} locked={} n_txs={}",
			info_after.total,
			info_after.amount_currently_spendable,
			info_after.amount_locked,
			txs_after.len()
		);
		println!(
			"A: AFTER: target output status={:?} tx_log_entry={:?}",
			target_after.output.status, target_after.output.tx_log_entry
		);
		// (1) Locked
		assert_eq!(target_after.output.status, OutputStatus::Locked);
		// (2) no new log entry, tx_log_entry unchanged
		assert_eq!(txs_after.len(), txs_before.len());
		assert_eq!(target_after.output.tx_log_entry, target.output.tx_log_entry);
		for t in &txs_after {
			println!(
				"A: AFTER: log id={} type={:?} confirmed={} slate_id={:?} credited={} debited={} n_in={} n_out={}",
				t.id,
				t.tx_type,
				t.confirmed,
				t.tx_slate_id,
				t.amount_credited,
				t.amount_debited,
				t.num_inputs,
				t.num_outputs
			);
		}
		let sent_like = txs_after
			.iter()
			.filter(|t| {
				t.tx_type == libwallet::TxLogEntryType::TxSent
					|| t.tx_type == libwallet::TxLogEntryType::TxReceived
			})
			.count();
		assert_eq!(sent_like, 0, "no send/receive log entry exists");
		// the only entry referencing the output is its (confirmed) coinbase entry
		if let Some(id) = target_after.output.tx_log_entry {
			let e = txs_after.iter().find(|t| t.id == id).unwrap();
			println!(
				"A: AFTER: entry referenced by locked output: id={} type={:?} confirmed={}",
				e.id, e.tx_type, e.confirmed
			);
			assert_eq!(e.tx_type, libwallet::TxLogEntryType::ConfirmedCoinbase);
		}
		// (3) amount_locked went up by value of output
		assert_eq!(info_after.amount_locked, target.output.value);
		assert_eq!(
			info_after.amount_currently_spendable,
			info_before.amount_currently_spendable - target.output.value
		);
		assert_eq!(target.output.value, reward);

		// (4) nothing is cancellable
		for t in &txs_after {
			let r = api.cancel_tx(m, Some(t.id), None);
			println!("A: cancel_tx(id={}) -> {:?}", t.id, r.as_ref().map_err(|e| format!("{}", e)));
			assert!(r.is_err());
		}
		let (_, outputs_final) = api.retrieve_outputs(m, true, true, None)?;
		let target_final = outputs_final
			.iter()
			.find(|o| o.commit == target.commit)
			.unwrap();
		let (_, info_final) = api.retrieve_summary_info(m, true, 1)?;
		println!(
			"A: FINAL (after cancel attempts + refresh): target status={:?} locked={}",
			target_final.output.status, info_final.amount_locked
		);
		assert_eq!(target_final.output.status, OutputStatus::Locked);
		assert_eq!(info_final.amount_locked, target.output.value);

		// a full scan (check/repair) is the only thing that would release it
		Ok(())
	})?;

	stopper.store(false, Ordering::Relaxed);
	thread::sleep(Duration::from_millis(300));
	Ok(())
}

#[test]
fn seed_a_mwixnet_lock_orphan() {
	let test_dir = "test_output/seed_a_mwixnet_lock";
	setup(test_dir);
	if let Err(e) = seed_a_impl(test_dir) {
		panic!("Libwallet Error: {}", e);
	}
	clean_output_dir(test_dir);
}
