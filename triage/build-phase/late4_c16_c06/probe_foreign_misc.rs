// Probes on the UNCHANGED code (side observations for C07). Each test states the expectation the
// property suggests; a failing test shows the unchanged code does not meet it.
#[macro_use]
extern crate log;
extern crate grin_wallet_controller as wallet;
extern crate grin_wallet_impls as impls;
extern crate grin_wallet_libwallet as libwallet;

use self::libwallet::{InitTxArgs, Slate};
use impls::test_framework::{self, LocalWalletClient};
use std::sync::atomic::Ordering;
use std::thread;
use std::time::Duration;

#[macro_use]
mod common;
use common::{clean_output_dir, create_wallet_proxy, setup};

macro_rules! two_wallets {
	($test_dir:expr, $proxy:ident, $chain:ident, $stopper:ident,
	 $c1:ident, $w1:ident, $m1i:ident, $m1:ident, $c2:ident, $w2:ident, $m2i:ident, $m2:ident) => {
		let mut $proxy = create_wallet_proxy($test_dir);
		let $chain = $proxy.chain.clone();
		let $stopper = $proxy.running.clone();
		create_wallet_and_add!($c1, $w1, $m1i, $test_dir, "wallet1", None, &mut $proxy, false);
		let $m1 = (&$m1i).as_ref();
		create_wallet_and_add!($c2, $w2, $m2i, $test_dir, "wallet2", None, &mut $proxy, false);
		let $m2 = (&$m2i).as_ref();
		let _ = (&$c1, &$c2, &$m2);
		thread::spawn(move || {
			if let Err(e) = $proxy.run() {
				error!("Wallet Proxy error: {}", e);
			}
		});
	};
}

fn send_args(amount: u64) -> InitTxArgs {
	InitTxArgs {
		src_acct_name: None,
		amount,
		minimum_confirmations: 2,
		max_outputs: 500,
		num_change_outputs: 1,
		selection_strategy_is_use_all: false,
		..Default::default()
	}
}

/// Anyone who has seen the initial slate of a pending send can have the sender complete it as a
/// payment to itself, with foreign requests alone (receive_tx then finalize_tx on the sender).
fn echo_impl(test_dir: &'static str) -> Result<(), libwallet::Error> {
	two_wallets!(
		test_dir, wallet_proxy, chain, stopper, client1, wallet1, mask1_i, mask1, client2, wallet2,
		mask2_i, mask2
	);
	test_framework::award_blocks_to_wallet(&chain, wallet1.clone(), mask1, 10, false)?;

	let mut slate_1 = Slate::blank(2, false);
	wallet::controller::owner_single_use(Some(wallet1.clone()), mask1, None, |api, m| {
		slate_1 = api.init_send_tx(m, send_args(60_000_000_000))?;
		api.tx_lock_outputs(m, &slate_1)?;
		Ok(())
	})?;
	// the genuine recipient's reply
	let mut slate_2_good = Slate::blank(2, false);
	wallet::controller::foreign_single_use(wallet2.clone(), mask2_i.clone(), |api| {
		slate_2_good = api.receive_tx(&slate_1, None, None)?;
		Ok(())
	})?;

	// foreign requests only, on the sender
	let mut finalized = false;
	wallet::controller::foreign_single_use(wallet1.clone(), mask1_i.clone(), |api| {
		let echoed = api.receive_tx(&slate_1, None, None);
		println!("echo receive_tx: {:?}", echoed.as_ref().map(|s| s.state.clone()));
		if let Ok(s2) = echoed {
			let res = api.finalize_tx(&s2, false);
			println!("echo finalize_tx: {:?}", res.as_ref().map(|s| s.state.clone()));
			finalized = res.is_ok();
		}
		Ok(())
	})?;
	let mut good_still_ok = false;
	wallet::controller::foreign_single_use(wallet1.clone(), mask1_i.clone(), |api| {
		let res = api.finalize_tx(&slate_2_good, false);
		println!("genuine reply afterwards: {:?}", res.as_ref().map(|s| s.state.clone()));
		good_still_ok = res.is_ok();
		Ok(())
	})?;
	stopper.store(false, Ordering::Relaxed);
	thread::sleep(Duration::from_millis(200));
	assert!(
		!finalized,
		"the send was completed as a self payment by foreign requests alone"
	);
	assert!(good_still_ok);
	Ok(())
}

/// A receive that fails after the output was stored leaves the output and the log entry behind,
/// and the slate id is then refused as 'already received'.
fn orphan_impl(test_dir: &'static str) -> Result<(), libwallet::Error> {
	two_wallets!(
		test_dir, wallet_proxy, chain, stopper, client1, wallet1, mask1_i, mask1, client2, wallet2,
		mask2_i, mask2
	);
	test_framework::award_blocks_to_wallet(&chain, wallet1.clone(), mask1, 10, false)?;

	let mut slate_a = Slate::blank(2, false);
	let mut slate_b = Slate::blank(2, false);
	wallet::controller::owner_single_use(Some(wallet1.clone()), mask1, None, |api, m| {
		slate_a = api.init_send_tx(m, send_args(10_000_000_000))?;
		api.tx_lock_outputs(m, &slate_a)?;
		slate_b = api.init_send_tx(m, send_args(20_000_000_000))?;
		api.tx_lock_outputs(m, &slate_b)?;
		Ok(())
	})?;
	let mut reply_a = Slate::blank(2, false);
	wallet::controller::foreign_single_use(wallet2.clone(), mask2_i.clone(), |api| {
		reply_a = api.receive_tx(&slate_a, None, None)?;
		Ok(())
	})?;
	// slate b with a partial signature that does not belong to it
	let mut bad_b = slate_b.clone();
	bad_b.participant_data[0].part_sig = reply_a.participant_data[0].part_sig.clone();
	assert!(bad_b.participant_data[0].part_sig.is_some());

	let mut n_out_before = 0;
	wallet::controller::owner_single_use(Some(wallet2.clone()), mask2, None, |api, m| {
		n_out_before = api.retrieve_outputs(m, true, false, None)?.1.len();
		Ok(())
	})?;
	let mut genuine_ok = false;
	wallet::controller::foreign_single_use(wallet2.clone(), mask2_i.clone(), |api| {
		let res = api.receive_tx(&bad_b, None, None);
		println!("malformed receive: {:?}", res.as_ref().map(|s| s.state.clone()));
		assert!(res.is_err());
		let res = api.receive_tx(&slate_b, None, None);
		println!("genuine slate afterwards: {:?}", res.as_ref().map(|s| s.state.clone()));
		genuine_ok = res.is_ok();
		Ok(())
	})?;
	let mut n_out_after = 0;
	let mut n_tx_b = 0;
	wallet::controller::owner_single_use(Some(wallet2.clone()), mask2, None, |api, m| {
		n_out_after = api.retrieve_outputs(m, true, false, None)?.1.len();
		n_tx_b = api.retrieve_txs(m, false, None, Some(slate_b.id), None)?.1.len();
		Ok(())
	})?;
	println!(
		"outputs before {} after {}, log entries for the slate {}, genuine accepted {}",
		n_out_before, n_out_after, n_tx_b, genuine_ok
	);
	stopper.store(false, Ordering::Relaxed);
	thread::sleep(Duration::from_millis(200));
	assert!(genuine_ok, "a refused receive blocks the genuine slate");
	assert_eq!(n_out_after, n_out_before + 1);
	assert_eq!(n_tx_b, 1);
	Ok(())
}

/// Received amounts are not bounded: two receives near u64::MAX overflow the balance summary.
fn overflow_impl(test_dir: &'static str) -> Result<(), libwallet::Error> {
	two_wallets!(
		test_dir, wallet_proxy, chain, stopper, client1, wallet1, mask1_i, mask1, client2, wallet2,
		mask2_i, mask2
	);
	test_framework::award_blocks_to_wallet(&chain, wallet1.clone(), mask1, 10, false)?;
	let mut slate_a = Slate::blank(2, false);
	let mut slate_b = Slate::blank(2, false);
	wallet::controller::owner_single_use(Some(wallet1.clone()), mask1, None, |api, m| {
		slate_a = api.init_send_tx(m, send_args(10_000_000_000))?;
		api.tx_lock_outputs(m, &slate_a)?;
		slate_b = api.init_send_tx(m, send_args(20_000_000_000))?;
		api.tx_lock_outputs(m, &slate_b)?;
		Ok(())
	})?;
	slate_a.amount = u64::MAX;
	slate_b.amount = u64::MAX;
	wallet::controller::foreign_single_use(wallet2.clone(), mask2_i.clone(), |api| {
		let r = api.receive_tx(&slate_a, None, None);
		println!("receive of u64::MAX: {:?}", r.as_ref().map(|s| s.state.clone()));
		let r = api.receive_tx(&slate_b, None, None);
		println!("receive of u64::MAX: {:?}", r.as_ref().map(|s| s.state.clone()));
		Ok(())
	})?;
	wallet::controller::owner_single_use(Some(wallet2.clone()), mask2, None, |api, m| {
		let (_, info) = api.retrieve_summary_info(m, false, 1)?;
		println!("summary: {:?}", info);
		Ok(())
	})?;
	stopper.store(false, Ordering::Relaxed);
	thread::sleep(Duration::from_millis(200));
	Ok(())
}

#[test]
fn c07_probe_echo() {
	let test_dir = "test_output/c07_probe_echo";
	setup(test_dir);
	if let Err(e) = echo_impl(test_dir) {
		panic!("Libwallet Error: {}", e);
	}
	clean_output_dir(test_dir);
}

#[test]
fn c07_probe_orphan() {
	let test_dir = "test_output/c07_probe_orphan";
	setup(test_dir);
	if let Err(e) = orphan_impl(test_dir) {
		panic!("Libwallet Error: {}", e);
	}
	clean_output_dir(test_dir);
}

#[test]
fn c07_probe_overflow() {
	let test_dir = "test_output/c07_probe_overflow";
	setup(test_dir);
	if let Err(e) = overflow_impl(test_dir) {
		panic!("Libwallet Error: {}", e);
	}
	clean_output_dir(test_dir);
}
