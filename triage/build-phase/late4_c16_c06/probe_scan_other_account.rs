// Side-observation probes for C16 - they are written as assertions of the property and are
// expected to FAIL ON THE UNCHANGED CODE (each failure shows the violation).
// To run: copy to controller/tests/c16_side_probe.rs, then
//   cargo test --offline -p grin_wallet_controller --test c16_side_probe -- --nocapture --test-threads 1
#[macro_use]
extern crate log;
extern crate grin_wallet_controller as wallet;
extern crate grin_wallet_impls as impls;

use grin_core as core;
use grin_wallet_libwallet as libwallet;

use impls::test_framework::{self, LocalWalletClient};
use libwallet::{InitTxArgs, OutputStatus, Slate};
use std::sync::atomic::Ordering;
use std::thread;
use std::time::Duration;

#[macro_use]
mod common;
use common::{clean_output_dir, create_wallet_proxy, setup};

/// A: a send is cancelled in account "default" although it was broadcast; it is mined. The wallet
/// is then scanned (delete_unconfirmed) while ANOTHER account is active. The scan restores the
/// change output but never marks the spent inputs of the non-active account as spent, and a
/// later ordinary refresh of "default" does not either (its outputs now point at a cancelled,
/// i.e. not outstanding, log entry): the account reports coins that are spent on chain.
fn cancelled_broadcast_other_account_impl(test_dir: &'static str) -> Result<(), libwallet::Error> {
	let mut wallet_proxy = create_wallet_proxy(test_dir);
	let chain = wallet_proxy.chain.clone();
	let stopper = wallet_proxy.running.clone();
	create_wallet_and_add!(
		client0,
		miner,
		mask0_i,
		test_dir,
		"miner",
		None,
		&mut wallet_proxy,
		false
	);
	let mask0 = (&mask0_i).as_ref();
	create_wallet_and_add!(
		client1,
		wallet1,
		mask1_i,
		test_dir,
		"wallet1",
		None,
		&mut wallet_proxy,
		false
	);
	let mask1 = (&mask1_i).as_ref();
	create_wallet_and_add!(
		client2,
		wallet2,
		mask2_i,
		test_dir,
		"wallet2",
		None,
		&mut wallet_proxy,
		false
	);
	let _mask2 = (&mask2_i).as_ref();
	thread::spawn(move || {
		if let Err(e) = wallet_proxy.run() {
			error!("Wallet Proxy error: {}", e);
		}
	});

	let reward = core::consensus::REWARD;
	let _ = test_framework::award_blocks_to_wallet(&chain, wallet1.clone(), mask1, 10, false);

	let mut slate = Slate::blank(2, false);
	wallet::controller::owner_single_use(Some(wallet1.clone()), mask1, None, |api, m| {
		let (_, info) = api.retrieve_summary_info(m, true, 1)?;
		assert_eq!(info.total, 10 * reward);
		let args = InitTxArgs {
			src_acct_name: None,
			amount: reward * 2,
			minimum_confirmations: 2,
			max_outputs: 500,
			num_change_outputs: 1,
			selection_strategy_is_use_all: true,
			..Default::default()
		};
		let slate_i = api.init_send_tx(m, args)?;
		slate = client1.send_tx_slate_direct("wallet2", &slate_i)?;
		api.tx_lock_outputs(m, &slate)?;
		slate = api.finalize_tx(m, &slate)?;
		// the sender gives up on the transaction ...
		api.cancel_tx(m, None, Some(slate.id))?;
		Ok(())
	})?;
	// ... but it had been broadcast, and is mined (by somebody else)
	let tx = slate.tx_or_err()?.clone();
	let n_inputs = tx.inputs().len() as u64;
	let fee: u64 = tx.fee();
	test_framework::award_block_to_wallet(&chain, &[tx], miner.clone(), mask0)?;
	let _ = test_framework::award_blocks_to_wallet(&chain, miner.clone(), mask0, 3, false);

	let change = n_inputs * reward - 2 * reward - fee;
	let truth = (10 - n_inputs) * reward + change;

	wallet::controller::owner_single_use(Some(wallet1.clone()), mask1, None, |api, m| {
		api.create_account_path(m, "other")?;
		api.set_active_account(m, "other")?;
		api.scan(m, None, true)?;
		api.set_active_account(m, "default")?;
		let (_, info) = api.retrieve_summary_info(m, true, 1)?;
		let outputs = api.retrieve_outputs(m, false, false, None)?.1;
		println!(
			"A: after scan (other account active) + refresh of default: total {} (chain truth {}), {} unspent records",
			info.total,
			truth,
			outputs
				.iter()
				.filter(|o| o.output.status == OutputStatus::Unspent)
				.count()
		);
		let ok = info.total == truth;
		// a scan with the account active does repair it
		api.scan(m, None, true)?;
		let (_, info2) = api.retrieve_summary_info(m, true, 1)?;
		println!("A: after a scan with default active: total {}", info2.total);
		assert_eq!(info2.total, truth);
		assert!(
			ok,
			"A: scan from another account left default at {} instead of {}",
			info.total, truth
		);
		Ok(())
	})?;

	stopper.store(false, Ordering::Relaxed);
	thread::sleep(Duration::from_millis(200));
	Ok(())
}

/// B: an output received on account "acct1" is mined, but the account is switched away from
/// before it is refreshed (record still Unconfirmed). A scan with delete_unconfirmed that starts
/// ABOVE the height of that output deletes the (valid, on-chain) record and cancels its log
/// entry; a following full scan brings it back - the partial scan damaged a correct wallet.
fn partial_scan_deletes_mined_output_impl(test_dir: &'static str) -> Result<(), libwallet::Error> {
	let mut wallet_proxy = create_wallet_proxy(test_dir);
	let chain = wallet_proxy.chain.clone();
	let stopper = wallet_proxy.running.clone();
	create_wallet_and_add!(
		client0,
		miner,
		mask0_i,
		test_dir,
		"miner",
		None,
		&mut wallet_proxy,
		false
	);
	let mask0 = (&mask0_i).as_ref();
	create_wallet_and_add!(
		client2,
		wallet2,
		mask2_i,
		test_dir,
		"wallet2",
		None,
		&mut wallet_proxy,
		false
	);
	let mask2 = (&mask2_i).as_ref();
	thread::spawn(move || {
		if let Err(e) = wallet_proxy.run() {
			error!("Wallet Proxy error: {}", e);
		}
	});

	let reward = core::consensus::REWARD;
	let _ = test_framework::award_blocks_to_wallet(&chain, miner.clone(), mask0, 10, false);
	wallet::controller::owner_single_use(Some(wallet2.clone()), mask2, None, |api, m| {
		api.create_account_path(m, "acct1")?;
		api.set_active_account(m, "acct1")?;
		Ok(())
	})?;
	// mined at height 11
	test_framework::send_to_dest(
		miner.clone(),
		mask0,
		client0.clone(),
		"wallet2",
		reward * 2,
		false,
	)?;
	wallet::controller::owner_single_use(Some(wallet2.clone()), mask2, None, |api, m| {
		api.set_active_account(m, "default")?;
		Ok(())
	})?;
	let _ = test_framework::award_blocks_to_wallet(&chain, miner.clone(), mask0, 5, false);

	wallet::controller::owner_single_use(Some(wallet2.clone()), mask2, None, |api, m| {
		api.scan(m, Some(14), true)?;
		api.set_active_account(m, "acct1")?;
		let outputs = api.retrieve_outputs(m, true, false, None)?.1;
		let (_, txs) = api.retrieve_txs(m, false, None, None, None)?;
		println!(
			"B: after scan(start 14, delete_unconfirmed): acct1 has {} output records, tx log {:?}",
			outputs.len(),
			txs.iter().map(|t| t.tx_type.clone()).collect::<Vec<_>>()
		);
		let n_after_partial = outputs.len();
		api.scan(m, None, true)?;
		let outputs = api.retrieve_outputs(m, true, false, None)?.1;
		println!("B: after a full scan: acct1 has {} output records", outputs.len());
		assert_eq!(outputs.len(), 1);
		assert_eq!(
			n_after_partial, 1,
			"B: the partial scan deleted the record of an output that is on chain"
		);
		Ok(())
	})?;

	stopper.store(false, Ordering::Relaxed);
	thread::sleep(Duration::from_millis(200));
	Ok(())
}

#[test]
fn cancelled_broadcast_other_account() {
	let test_dir = "test_output/c16_side_probe_a";
	setup(test_dir);
	if let Err(e) = cancelled_broadcast_other_account_impl(test_dir) {
		panic!("Libwallet Error: {}", e);
	}
	clean_output_dir(test_dir);
}

#[test]
fn partial_scan_deletes_mined_output() {
	let test_dir = "test_output/c16_side_probe_b";
	setup(test_dir);
	if let Err(e) = partial_scan_deletes_mined_output_impl(test_dir) {
		panic!("Libwallet Error: {}", e);
	}
	clean_output_dir(test_dir);
}
