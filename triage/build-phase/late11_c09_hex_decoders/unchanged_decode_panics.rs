// Probe for the UNCHANGED code (no patch applied): decoders that panic instead of
// returning an error. Intended location when run: libwallet/tests/unchanged_decode_panics.rs
//
//   cp OUT/side_observations/unchanged_decode_panics.rs libwallet/tests/
//   cargo test --offline -p grin_wallet_libwallet --test unchanged_decode_panics -- --nocapture --test-threads 1
//
// Each test asserts the property (no panic), so every test that FAILS here is a
// violation of the property by the unchanged code.

use grin_wallet_libwallet::{BlockFees, PaymentProof, Slate};
use grin_wallet_util::OnionV3Address;
use std::convert::TryFrom;
use std::panic::catch_unwind;

fn slate_json(extra: &str) -> String {
	format!(
		r#"{{
	"ver": "4:3",
	"id": "0436430c-2b02-624c-2032-570501212b00",
	"sta": "S1",
	"amt": "60000000000",
	"fee": "7000000",
	"sigs": [
		{{
			"xs": "02e89cce4499ac1e9bb498dab9e3fab93cc40cd3d26c04a0292e00f4bf272499ec",
			"nonce": "031b84c5567b126440995d3ed5aaba0565d71e1834604819ff9c17f5e9d5dd078f"
		}}
	]{}
}}"#,
		extra
	)
}

#[test]
fn control_valid_slate_decodes() {
	let res = catch_unwind(|| Slate::deserialize_upgrade(&slate_json("")));
	assert!(res.is_ok(), "panicked");
	assert!(res.unwrap().is_ok(), "control slate must decode");
}

// grin_keychain BlindingFactor::from_hex does `util::from_hex(hex).unwrap()`;
// the V4 slate field `off` is decoded with secp_ser::blind_from_hex
#[test]
fn slate_json_offset_not_hex() {
	let json = slate_json(r#", "off": "zz""#);
	let res = catch_unwind(|| Slate::deserialize_upgrade(&json).is_ok());
	assert!(res.is_ok(), "PANIC decoding a V4 slate whose `off` is not hex");
}

#[test]
fn slate_json_offset_odd_length() {
	let json = slate_json(r#", "off": "abc""#);
	let res = catch_unwind(|| Slate::deserialize_upgrade(&json).is_ok());
	assert!(
		res.is_ok(),
		"PANIC decoding a V4 slate whose `off` has an odd number of hex digits"
	);
}

// grin_util::from_hex slices the &str two BYTES at a time: a multi-byte character
// at an odd byte offset in an even-length string is a char-boundary panic.
// Every hex field of the wallet goes through it.
#[test]
fn onion_address_with_multibyte_char() {
	let res = catch_unwind(|| OnionV3Address::try_from("a\u{e9}b").is_ok());
	assert!(
		res.is_ok(),
		"PANIC parsing an onion address containing a non-ASCII character"
	);
}

#[test]
fn slate_json_proof_addr_with_multibyte_char() {
	let json = slate_json(
		r#", "proof": { "saddr": "aéb", "raddr": "32cdd63928854f8b2628b1dce4626ddcdf35d56cb7cfdf7d64cca5822b78d4d3" }"#,
	);
	let res = catch_unwind(|| Slate::deserialize_upgrade(&json).is_ok());
	assert!(
		res.is_ok(),
		"PANIC decoding a V4 slate whose proof.saddr contains a non-ASCII character"
	);
}

#[test]
fn slate_json_commit_with_multibyte_char() {
	let json = slate_json(r#", "coms": [ { "c": "aéb" } ]"#);
	let res = catch_unwind(|| Slate::deserialize_upgrade(&json).is_ok());
	assert!(
		res.is_ok(),
		"PANIC decoding a V4 slate whose coms[0].c contains a non-ASCII character"
	);
}

#[test]
fn slate_json_part_sig_with_multibyte_char() {
	let json = r#"{
	"ver": "4:3",
	"id": "0436430c-2b02-624c-2032-570501212b00",
	"sta": "S1",
	"sigs": [
		{
			"xs": "aéb",
			"nonce": "031b84c5567b126440995d3ed5aaba0565d71e1834604819ff9c17f5e9d5dd078f"
		}
	]
}"#;
	let res = catch_unwind(|| Slate::deserialize_upgrade(json).is_ok());
	assert!(
		res.is_ok(),
		"PANIC decoding a V4 slate whose sigs[0].xs contains a non-ASCII character"
	);
}

// payment proof JSON (owner API verify_payment_proof argument)
#[test]
fn payment_proof_json_excess_with_multibyte_char() {
	let json = r#"{
	"amount": "60000000000",
	"excess": "aéb",
	"recipient_address": "tgrin10qlk22rxjap2ny8qltc2tl996kenxr3hhwuu6wrzs73tj40fhnfs5k2sn6",
	"recipient_sig": "b9b1885a3f33297df32e1aa4db23220bd305da8ed92ff6873faf3ab2c116fea25e9d0e34bd4f567f022b88a37400821ffbcaec71c9a8c3a327c4626611886d0d",
	"sender_address": "tgrin1xtxavwfgs48ckf3gk8wwgcndmn0nt4tvkl8a7ltyejjcy2mc6nfs9gm2lp",
	"sender_sig": "611b92331e395c3d29871ac35b1fce78ec595e28ccbe8cc55452da40775e8e46d35a2e84eaffd986935da3275e34d46a8d777d02dabcf4339704c2a621da9700"
}"#;
	let res = catch_unwind(|| serde_json::from_str::<PaymentProof>(json).is_ok());
	assert!(
		res.is_ok(),
		"PANIC decoding a payment proof whose excess contains a non-ASCII character"
	);
}

// grin_keychain's Identifier visitor does `Identifier::from_hex(s).unwrap()`, and
// from_hex itself unwraps: the foreign listener's build_coinbase takes BlockFees
#[test]
fn block_fees_key_id_not_hex() {
	let json = r#"{ "fees": "0", "height": "1", "key_id": "zz" }"#;
	let res = catch_unwind(|| serde_json::from_str::<BlockFees>(json).is_ok());
	assert!(
		res.is_ok(),
		"PANIC decoding build_coinbase's BlockFees whose key_id is not hex"
	);
}
